#!/usr/bin/env python3
"""Rebuild MANIFEST.json from the per-area notes (each builder keeps a ready-to-merge checks[] entry
in notes/<area>.md) plus the C19 entry kept here.  Usage: merge_manifest.py [Cnn ...]  = the
properties to CLAIM (default: every property that has a check and an entry); the others go to
not_applicable with the reason given in UNCLAIMED (or a generic one).  Validates against the schema."""
import glob, json, os, re, subprocess, sys
V = os.path.dirname(os.path.dirname(os.path.abspath(__file__)))
UNCLAIMED = {}
TECH = {
 "C02": "Coq proof (symbolic execution of the Gallina model of the generic parser on rendered token lists, for all datetimes per template) + decision functions regenerated from the source AST every run and proved equal to the hand model + extraction-based differential correspondence against an independent renderer/expected-value spec",
 "C14": "Coq proof (kind analysis of every exception the Gallina model of parse() can raise, structural termination, lexer shape invariant) + decision functions regenerated from the source AST every run and proved equal to the hand model + extraction-based differential correspondence with a per-call watchdog",
 "C15": "Coq proof (refinement of default fill-in and the time-zone decision table to executable specs, fuzzy/strict simulation) + decision functions regenerated from the source AST every run and proved equal to the hand model + extraction-based differential correspondence",
 "C13": "Coq proof (string-level model of __str__/rrulestr, round trip and spelling invariance by induction over token lists, bridge to the C01 constructor model) + every method of _rrulestr regenerated from the source AST every run and proved equal to the hand model + extraction-based differential correspondence",
}
ENGINE = "coq-proof+correspondence"


def entries():
    found = {}
    for p in sorted(glob.glob(os.path.join(V, "notes", "*.md"))):
        s = open(p).read()
        for m in re.finditer(r'\{\s*"property_id"', s):
            i = m.start(); depth = 0; j = i
            while j < len(s):
                if s[j] == '{': depth += 1
                elif s[j] == '}':
                    depth -= 1
                    if depth == 0: break
                j += 1
            try:
                d = json.loads(s[i:j + 1])
            except Exception:
                continue
            found[d["property_id"]] = d
    return found


def main():
    old = json.load(open(os.path.join(V, "MANIFEST.json")))
    c19 = [c for c in old["checks"] if c["property_id"] == "C19"][0]
    ent = entries(); ent["C19"] = c19
    ids = ["C%02d" % i for i in range(1, 21)]
    claim = sys.argv[1:] or [i for i in ids if i in ent and os.path.exists(os.path.join(V, "harness", "check_%s.py" % i))]
    checks, na = [], []
    for i in ids:
        if i in claim and i in ent:
            e = dict(ent[i]); e["engine"] = ENGINE
            e["evidence_file"] = "/verif/evidence/%s.json" % i
            e["quick_cmd"] = "./check %s quick" % i
            e["thorough_cmd"] = "./check %s thorough" % i
            e["replay_cmd_template"] = "./check %s --replay {path}" % i
            e["level_claimed"]["category"] = "proof"
            e["level_claimed"]["design_ref"] = "DESIGN.md section 11.2 (as built) and section 6 (plan), %s" % i
            if i in TECH:
                e["technique"] = TECH[i]
            checks.append(e)
        else:
            na.append({"property_id": i, "reason": UNCLAIMED.get(i, "check not yet sound/complete in this round; not claimed")})
    old["checks"] = checks
    old["not_applicable"] = na
    old["engines"][0]["serves_properties"] = [c["property_id"] for c in checks]
    old["notes"] = ("See DESIGN.md (section 11 = as built; section 10 = corrections of the machinery; generated tables of "
                    "findings, fixes and seeded changes in 11.4), known_findings.json, notes/<area>.md and notes/audit/.")
    out = json.dumps(old, indent=1) + "\n"
    open(os.path.join(V, "MANIFEST.json"), "w").write(out)
    r = subprocess.run(["python3-vt", "-c", "import json,jsonschema;jsonschema.validate(json.load(open('%s/MANIFEST.json')),json.load(open('/root/.vp/MANIFEST.schema.json')));print('manifest valid, %d checks, %d not_applicable')" % (V, len(checks), len(na))])
    sys.exit(r.returncode)


if __name__ == "__main__":
    main()
