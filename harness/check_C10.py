#!/usr/bin/env python3
"""C10 -- rruleset = ordered (rrules U rdates) minus (exrules U exdates), for whatever members
have been added at the moment of iteration (histories, cache on/off).

Model  coq/rset/RSetModel.v (rruleset._iter/_genitem), coq/rset/RSetHist.v (object + histories)
Spec   coq/rset/RSetSpec.v, spec_history in RSetHist.v
Thms   coq/rset/RSetThm.v, RSetHistThm.v -> coq/props/C10.v
This check: builds, compiles the props file, and runs the real rruleset against the extracted
model (two heap tie-breaking disciplines) and the extracted spec on
  * a regression corpus,
  * a small-scope exhaustive stream of sets over three instants,
  * random sets built from real rrule objects with deliberately coinciding occurrences,
  * naive/aware mixtures (exception class),
  * random histories of add / iter / next / query operations (fresh iterators only),
  * histories that advance an iterator obtained before a later mutator (known finding F-C10-stale).
"""
import datetime as dt
import hashlib
import itertools
import json
import multiprocessing
import os
import re
import sys
import time

sys.path.insert(0, os.path.dirname(os.path.abspath(__file__)))
import common as C

C.reexec_under_impl_python()

CID = "C10"
AREA = "rset"
VO = ["props/C10.vo", "rset/RSetModel.vo", "rset/RSetSpec.vo", "rset/RSetHist.vo", "rset/RSetThm.vo", "rset/RSetHistThm.vo", "rset/RSetLit.vo", "rset/RSetLitThm.vo", "rset/RSetHeapq.vo", "rset/RSetHeapqThm.vo", "rset/RSetHist2.vo", "rset/RSetHistThm2.vo", "rset/RSetHistThm3.vo",
      "rset/RSetGenBase.vo", "gen/RSetGen.vo", "rset/RSetGenThm.vo"]
E_MODEL_FIRST, E_MODEL_LAST, E_SPEC, E_TAGGED, E_LITERAL, E_MODEL_PY, E_HIST_FIRST, E_HIST_LAST, E_HIST_SPEC, E_HIST_PY, E_MILD = 0, 1, 2, 3, 4, 5, 10, 11, 12, 13, 14

BASE = dt.datetime(2000, 1, 1)
UTC = dt.timezone.utc
FREQS = {"DAILY": 3, "HOURLY": 4, "MINUTELY": 5, "WEEKLY": 2, "MONTHLY": 1, "SECONDLY": 6}


# ------------------------------------------------------------------------------------------
# instants and members


AWARE_ZONES = {1: UTC, 2: dt.timezone(dt.timedelta(hours=1)), 3: dt.timezone(dt.timedelta(hours=-5, minutes=-30))}


def to_dt(z, aware=False):
    """aware: False/0 naive; True/1 UTC; 2, 3: the same instant written in another fixed offset"""
    d = BASE + dt.timedelta(seconds=z)
    if not aware:
        return d
    tz = AWARE_ZONES[int(aware)]
    return d.replace(tzinfo=UTC).astimezone(tz)


def to_z(d):
    if d.tzinfo is not None:
        d = d.astimezone(UTC).replace(tzinfo=None)
    delta = d - BASE
    return delta.days * 86400 + delta.seconds


def build_member(m, aware=False, pool=None):
    """m: {"kind":"list","elems":[...]} or {"kind":"rrule", freq, interval, count|until, start, cache};
    an optional key "share": k makes every member with the same k of one case the SAME Python object
    (a cached rrule then serves several member iterators from its own cache)"""
    if pool is not None and m.get("share") is not None:
        k = (m["share"], aware)
        if k not in pool:
            pool[k] = build_member(m, aware)
        return pool[k]
    from dateutil import rrule as R
    if m["kind"] == "list":
        return [to_dt(z, aware) for z in m["elems"]]
    if m["kind"] == "c01":
        import warnings
        import rr_common
        with warnings.catch_warnings():
            warnings.simplefilter("ignore")
            freq, kw, _start = rr_common.build(m["case"])
            return R.rrule(freq, cache=bool(m.get("cache")), **kw)
    kw = {"dtstart": to_dt(m["start"], aware), "interval": m["interval"], "cache": bool(m.get("cache"))}
    if "count" in m:
        kw["count"] = m["count"]
    if "until" in m:
        kw["until"] = to_dt(m["until"], aware)
    if m.get("byhour") is not None:
        kw["byhour"] = m["byhour"]
    return R.rrule(FREQS[m["freq"]], **kw)


def member_instants(m):
    if m["kind"] == "list":
        return list(m["elems"])
    if "_inst" not in m:
        try:
            m["_inst"] = with_timeout(lambda: [to_z(d) for d in build_member(m)], 10)
        except _Timeout:
            raise RuntimeError("stall while listing the member rule %r (a lock left held?)" % (clean(m),))
    return m["_inst"]


class _Timeout(BaseException):     # not an Exception: `except Exception` in the code under test must not eat it
    pass


# SIGALRM must not fire while coverage.py's tracer runs (its callback holds a lock: an exception raised
# there deadlocks the process); the in-process coverage shard therefore does not draw C01 rules
NO_C01 = False


def with_timeout(fn, secs):
    """run fn() with a wall-clock limit (SIGALRM; main thread of the worker process)"""
    import signal

    def handler(_sig, _frm):
        raise _Timeout()
    old = signal.signal(signal.SIGALRM, handler)
    signal.setitimer(signal.ITIMER_REAL, secs)
    try:
        return fn()
    finally:
        signal.setitimer(signal.ITIMER_REAL, 0)
        signal.signal(signal.SIGALRM, old)


def list_c01(m):
    """first 61 occurrences under a wall-clock limit (a C01 rule can scan for minutes before its next
    occurrence).  Only used in pool worker processes without coverage.py (NO_C01): an asynchronous exception
    inside coverage's tracer callback leaves its lock held.  The rule object is discarded after a timeout."""
    import itertools as IT
    return with_timeout(lambda: [to_z(d) for d in IT.islice(iter(build_member(m)), 61)], 0.08)


def gen_c01_rule(r):
    """a finite naive rule from C01's generator (harness/rr_common.py): BY-parts, wkst, until/count ...;
    rejected when it raises, is not exhausted after 60 occurrences, or is empty too often"""
    if NO_C01:
        return gen_rule(r)
    try:
        import rr_common          # owned by the C01 builder; this stream degrades to gen_rule without it
    except Exception:
        return gen_rule(r)
    for _ in range(30):
        try:
            case = rr_common.rand_case(r)
        except Exception:
            return gen_rule(r)
        case["start"]["kind"] = "naive"
        case["start"].pop("off", None)
        case["start"]["us"] = 0
        if case.get("until") is not None:
            case["until"]["kind"] = "naive"
            case["until"].pop("off", None)
            case["until"].pop("same_tz", None)
        if case.get("until") is None:
            try:
                case["until"] = rr_common.cap_until(case, r)      # bounds the scan, deterministic
                case["until"]["kind"] = "naive"
                case["until"].pop("off", None)
                case["until"].pop("same_tz", None)
            except Exception:
                continue
        m = {"kind": "c01", "case": case, "cache": r.random() < 0.3}
        try:
            inst = list_c01(m)
        except (Exception, _Timeout):
            continue
        if len(inst) > 60 or (not inst and r.random() < 0.8) or inst != sorted(set(inst)):
            continue
        m["_inst"] = inst
        return m
    return gen_rule(r)


def vary_c01(r, m):
    """a rule that shares many occurrences with m: other interval / count / the same rule"""
    import copy
    if m["kind"] != "c01":
        return dict(clean(m))
    m2 = {"kind": "c01", "case": copy.deepcopy(m["case"]), "cache": r.random() < 0.3}
    c = m2["case"]
    x = r.random()
    if x < 0.35:
        c["interval"] = c["interval"] * r.choice([2, 3])
    elif x < 0.6 and c.get("count"):
        c["count"] = max(0, c["count"] // 2)
    elif x < 0.75:
        c["count"] = r.choice([1, 2, 5])
    try:
        inst = list_c01(m2)
        if len(inst) > 60:
            return dict(clean(m))
        m2["_inst"] = inst
        return m2
    except (Exception, _Timeout):
        return dict(clean(m))


def gen_c01_set(r):
    rules = [gen_c01_rule(r) for _ in range(r.choice([1, 1, 2, 2, 3, 4]))]
    if r.random() < 0.3:
        rules.append(vary_c01(r, r.choice(rules)))
    exrules = [vary_c01(r, r.choice(rules)) if r.random() < 0.7 else gen_c01_rule(r)
               for _ in range(r.choice([0, 1, 1, 2, 3]))]
    pool = [z for m in rules + exrules for z in member_instants(m)]
    rdates = [pick_instant(r, pool) for _ in range(r.choice([0, 1, 2, 4, 6]))]
    exdates = [pick_instant(r, pool + rdates) for _ in range(r.choice([0, 1, 2, 4, 6]))]
    return {"rr": rules, "rd": rdates, "exr": exrules, "exd": exdates, "cache": r.random() < 0.5}


def clean(m):
    return {k: v for k, v in m.items() if not k.startswith("_")}


def gen_rule(r):
    """a finite real rrule on a coarse grid so that different rules coincide often"""
    freq = r.choice(["HOURLY", "HOURLY", "DAILY", "DAILY", "MINUTELY", "WEEKLY", "MONTHLY", "SECONDLY"])
    unit = {"HOURLY": 3600, "DAILY": 86400, "MINUTELY": 60, "WEEKLY": 7 * 86400, "MONTHLY": 86400,
            "SECONDLY": 1}[freq]
    start = r.choice([0, 0, unit, 2 * unit, 3 * unit, 3600 * r.randrange(0, 49), 86400 * r.randrange(0, 4)])
    if freq in ("MINUTELY", "SECONDLY"):
        interval = r.choice([1, 20, 30, 60, 90])
    else:
        interval = r.choice([1, 1, 2, 3, 4, 6])
    m = {"kind": "rrule", "freq": freq, "interval": interval, "start": start, "cache": r.random() < 0.3}
    if r.random() < 0.8:
        m["count"] = r.choice([0, 1, 1, 2, 3, 5, 8, 10, 11, 12, 20, 23])
    else:
        m["until"] = start + unit * interval * r.randrange(0, 9) + r.choice([0, 0, -1, 1])
    if freq == "DAILY" and r.random() < 0.3:
        m["byhour"] = sorted(set(r.choice([0, 6, 12, 18]) for _ in range(r.randrange(1, 4))))
    return m


MIN_Z = -63082281600            # 0001-01-01 00:00:00
MAX_Z = 252455615999            # 9999-12-31 23:59:59


def pick_instant(r, pool):
    """an instant of the pool (or a near miss), kept inside datetime's range"""
    return max(MIN_Z, min(MAX_Z, pick_instant_(r, pool)))


def pick_instant_(r, pool):
    if pool and r.random() < 0.75:
        z = r.choice(pool)
        return z + (r.choice([-1, 1, 3600, -3600]) if r.random() < 0.15 else 0)
    return r.choice([0, 3600 * r.randrange(-5, 60), 86400 * r.randrange(-2, 12), r.randrange(-10, 10 ** 6)])


def gen_set(r):
    """0-4 rules and 0-6 dates in every role, members reused across roles, duplicates"""
    def n_rules():
        return r.choice([0, 0, 1, 1, 1, 2, 2, 3, 4])

    def n_dates():
        return r.choice([0, 0, 1, 1, 2, 3, 4, 5, 6])
    rules = [gen_rule(r) for _ in range(n_rules())]
    pool = [z for m in rules for z in member_instants(m)]
    exrules = []
    for i, m in enumerate(rules):
        if r.random() < 0.25:
            m["share"] = i
    if rules and r.random() < 0.2:
        rules.append(r.choice(rules))          # the same rule (possibly the same object) twice
    for _ in range(n_rules()):
        if rules and r.random() < 0.4:
            m = dict(clean(r.choice(rules)))
            if r.random() < 0.5:
                m["interval"] = m["interval"] * r.choice([1, 2, 3])
                m.pop("share", None)
            exrules.append(m)
        else:
            exrules.append(gen_rule(r))
    pool += [z for m in exrules for z in member_instants(m)]
    rdates = [pick_instant(r, pool) for _ in range(n_dates())]
    if rdates and r.random() < 0.4:
        rdates.append(r.choice(rdates))
    pool += rdates
    exdates = [pick_instant(r, pool) for _ in range(n_dates())]
    if exdates and r.random() < 0.3:
        exdates.append(r.choice(exdates))
    r.shuffle(rdates)
    return {"rr": rules, "rd": rdates, "exr": exrules, "exd": exdates, "cache": r.random() < 0.5}


def enc_set(s):
    a = [len(s["rr"])]
    for m in s["rr"]:
        e = member_instants(m)
        a += [len(e)] + e
    a += [len(s["rd"])] + list(s["rd"])
    a.append(len(s["exr"]))
    for m in s["exr"]:
        e = member_instants(m)
        a += [len(e)] + e
    a += [len(s["exd"])] + list(s["exd"])
    return a


def set_json(s):
    return {"rr": [clean(m) for m in s["rr"]], "rd": list(s["rd"]), "exr": [clean(m) for m in s["exr"]],
            "exd": list(s["exd"]), "cache": bool(s.get("cache"))}


def exc_obs(ex):
    if isinstance(ex, IndexError):
        return [6, 1]
    if isinstance(ex, TypeError):
        return [6, 2]
    return ["EXC", type(ex).__name__]


STALL_SECS = 10
STALLS = [0]        # per process: a shard stops after a few stalls (each one costs STALL_SECS)


def guarded(fn):
    """run the implementation on one case under a watchdog: a stall (e.g. a lock left held) becomes the
    outcome ["STALL"] instead of hanging the check"""
    try:
        return with_timeout(fn, STALL_SECS)
    except _Timeout:
        STALLS[0] += 1
        return ["STALL"]


def impl_set(s):
    return guarded(lambda: impl_set_(s))


def impl_set_(s):
    """list(rset) then the published length (count() after a full iteration returns _len)"""
    from dateutil import rrule as R
    try:
        rs = R.rruleset(cache=bool(s.get("cache")))
        pool = {}
        for m in s["rr"]:
            rs.rrule(build_member(m, pool=pool))
        for z in s["rd"]:
            rs.rdate(to_dt(z))
        for m in s["exr"]:
            rs.exrule(build_member(m, pool=pool))
        for z in s["exd"]:
            rs.exdate(to_dt(z))
        out = [to_z(d) for d in rs]
        ln = rs._len
        return [1, -1 if ln is None else ln] + out
    except Exception as ex:
        return exc_obs(ex)


# ------------------------------------------------------------------------------------------
# tagged (naive / aware) sets


def gen_tagged(r):
    def tag():
        return r.choice([1, 1, 2, 3]) if r.random() < 0.35 else 0
    kind = r.randrange(5)

    def other(t):
        """a tag of the other kind (naive <-> aware), or another aware zone half of the time"""
        if t == 0:
            return r.choice([1, 2, 3])
        return 0 if r.random() < 0.5 else r.choice([1, 2, 3])
    s = {"rr": [], "rd": [], "exr": [], "exd": [], "cache": r.random() < 0.5}
    n = lambda: r.choice([0, 0, 1, 1, 2, 3])
    base_tag = tag()
    for role in ("rr", "exr"):
        for _ in range(n()):
            elems = sorted(set(3600 * r.randrange(0, 8) for _ in range(r.randrange(0, 4))))
            t = base_tag if (kind == 0 or r.random() < 0.7) else other(base_tag)
            if r.random() < 0.4:
                cnt = r.randrange(0, 5)
                st0 = 3600 * r.randrange(0, 4)
                s[role].append((t, {"kind": "rrule", "freq": "HOURLY", "interval": 1, "start": st0, "count": cnt,
                                    "elems": [st0 + 3600 * k for k in range(cnt)]}))
            else:
                s[role].append((t, {"kind": "list", "elems": elems}))
    for role in ("rd", "exd"):
        for _ in range(n()):
            t = base_tag if (kind == 0 or r.random() < 0.7) else other(base_tag)
            s[role].append((t, 3600 * r.randrange(0, 8)))
    if kind == 1:   # inclusion all one kind, exclusion all the other
        s["exr"] = [(other(base_tag), m) for (_t, m) in s["exr"]]
        s["exd"] = [(other(base_tag), z) for (_t, z) in s["exd"]]
        s["rr"] = [(base_tag, m) for (_t, m) in s["rr"]]
        s["rd"] = [(base_tag, z) for (_t, z) in s["rd"]]
    return s


def enc_tagged(s):
    k = lambda t: min(int(t), 1)        # the model only knows naive / aware
    a = [len(s["rr"])]
    for t, m in s["rr"]:
        a += [len(m["elems"]) + 1, k(t)] + m["elems"]
    a.append(2 * len(s["rd"]))
    for t, z in s["rd"]:
        a += [k(t), z]
    a.append(len(s["exr"]))
    for t, m in s["exr"]:
        a += [len(m["elems"]) + 1, k(t)] + m["elems"]
    a.append(2 * len(s["exd"]))
    for t, z in s["exd"]:
        a += [k(t), z]
    return a


def impl_tagged(s):
    """-> (first listing as the model encodes it, [second listing, third listing, count()] or None)"""
    r = guarded(lambda: (impl_tagged_(s), LATER[0]))
    if isinstance(r, tuple):
        return r
    return r, None


def impl_tagged_(s):
    from dateutil import rrule as R
    LATER[0] = None
    try:
        rs = R.rruleset(cache=bool(s.get("cache")))
        for t, m in s["rr"]:
            rs.rrule(build_member(m, aware=t))
        for t, z in s["rd"]:
            rs.rdate(to_dt(z, t))
        for t, m in s["exr"]:
            rs.exrule(build_member(m, aware=t))
        for t, z in s["exd"]:
            rs.exdate(to_dt(z, t))
    except TypeError:
        return [2]
    except Exception as ex:
        return ["EXC", type(ex).__name__]
    try:
        out = [to_z(d) for d in rs]
        ln = rs._len
        first = [1, -1 if ln is None else ln] + out
    except TypeError:
        first = [2]
    except Exception as ex:
        return ["EXC", type(ex).__name__]
    # the same object again: a second and a third listing, then count() -- every later observation has to
    # repeat the first one (the uncached set raises TypeError every time)
    later = []
    for _i in range(2):
        try:
            later.append([to_z(d) for d in rs])
        except TypeError:
            later.append("TypeError")
        except Exception as ex:
            later.append("EXC:" + type(ex).__name__)
    try:
        c = rs.count()
        later.append("None" if c is None else c)
    except TypeError:
        later.append("TypeError")
    except Exception as ex:
        later.append("EXC:" + type(ex).__name__)
    LATER[0] = later
    return first


LATER = [None]


def expected_later(first):
    """what the second and third listing and count() must be, given the first listing"""
    if first == [2]:
        return ["TypeError", "TypeError", "TypeError"]
    if isinstance(first, list) and first and first[0] == 1:
        return [first[2:], first[2:], len(first) - 2]
    return None


# ------------------------------------------------------------------------------------------
# histories
# op: ["rrule", member] ["rdate", z] ["exrule", member] ["exdate", z] ["iter"] ["next", k]
#     ["list"] ["count"] ["get", i] ["in", z] ["before", z, inc] ["after", z, inc] ["between", a, b, inc]

MUTATORS = ("rrule", "rdate", "exrule", "exdate")


def enc_ops(ops):
    a = []
    for op in ops:
        k = op[0]
        if k == "rrule" or k == "exrule":
            e = member_instants(op[1])
            a += [1 if k == "rrule" else 3, len(e)] + e
        elif k == "rdate":
            a += [2, op[1]]
        elif k == "exdate":
            a += [4, op[1]]
        elif k == "iter":
            a.append(5)
        elif k == "next":
            a += [6, op[1]]
        elif k == "list":
            a.append(7)
        elif k == "count":
            a.append(8)
        elif k == "get":
            a += [9, op[1]]
        elif k == "in":
            a += [10, op[1]]
        elif k == "before":
            a += [11, op[1], int(op[2])]
        elif k == "after":
            a += [12, op[1], int(op[2])]
        elif k == "between":
            a += [13, op[1], op[2], int(op[3])]
        else:
            raise ValueError(op)
    return a


def split_obs(flat, n):
    """decode the oracle's concatenated observations into n lists"""
    out, i = [], 0
    if not isinstance(flat, list):
        return [flat] * n
    while i < len(flat):
        c = flat[i]
        if c in (0, 2, 5, 7):
            out.append([c]); i += 1
        elif c in (1, 3, 6):
            out.append(flat[i:i + 2]); i += 2
        elif c == 4:
            k = flat[i + 1]
            out.append(flat[i:i + 2 + k]); i += 2 + k
        else:
            out.append(["BAD", c]); i += 1
    return out


def impl_history(cached, ops):
    r = guarded(lambda: impl_history_(cached, ops))
    return [["STALL"]] * len(ops) if r == ["STALL"] else r


def impl_history_(cached, ops):
    from dateutil import rrule as R
    rs = R.rruleset(cache=bool(cached))
    its = []
    out = []
    pool = {}
    for op in ops:
        k = op[0]
        try:
            if k == "rrule":
                rs.rrule(build_member(op[1], pool=pool)); out.append([0])
            elif k == "exrule":
                rs.exrule(build_member(op[1], pool=pool)); out.append([0])
            elif k == "rdate":
                rs.rdate(to_dt(op[1])); out.append([0])
            elif k == "exdate":
                rs.exdate(to_dt(op[1])); out.append([0])
            elif k == "iter":
                its.append(iter(rs)); out.append([0])
            elif k == "next":
                try:
                    out.append([1, to_z(next(its[op[1]]))])
                except StopIteration:
                    out.append([5])
            elif k == "list":
                l = [to_z(d) for d in rs]
                out.append([4, len(l)] + l)
            elif k == "count":
                n = rs.count()
                out.append([2] if n is None else [1, n])
            elif k == "get":
                out.append([1, to_z(rs[op[1]])])
            elif k == "in":
                out.append([3, int(to_dt(op[1]) in rs)])
            elif k == "before":
                d = rs.before(to_dt(op[1]), inc=bool(op[2]))
                out.append([2] if d is None else [1, to_z(d)])
            elif k == "after":
                d = rs.after(to_dt(op[1]), inc=bool(op[2]))
                out.append([2] if d is None else [1, to_z(d)])
            elif k == "between":
                l = [to_z(d) for d in rs.between(to_dt(op[1]), to_dt(op[2]), inc=bool(op[3]))]
                out.append([4, len(l)] + l)
            else:
                raise ValueError(op)
        except Exception as ex:
            out.append(exc_obs(ex))
    return out


def stale_use_index(ops):
    """index of the first next() on an iterator obtained before a later mutator, or None"""
    n_stale = n_iters = 0
    for i, op in enumerate(ops):
        if op[0] in MUTATORS:
            n_stale = n_iters
        elif op[0] == "iter":
            n_iters += 1
        elif op[0] == "next" and op[1] < n_stale:
            return i
    return None


def current_spec(members):
    inc = set(members["rd"])
    for m in members["rr"]:
        inc |= set(member_instants(m))
    exc = set(members["exd"])
    for m in members["exr"]:
        exc |= set(member_instants(m))
    return sorted(inc - exc)


def gen_history(r, stale):
    """random history; stale=False: iterators are only advanced while no mutator has intervened.
    stale=True: at least one iterator obtained before a mutator is advanced after it (dates are
    then only added before the first iter(), see notes/rset.md)."""
    cached = r.random() < 0.6
    ops = []
    members = {"rr": [], "rd": [], "exr": [], "exd": []}
    n_iters = n_stale = 0
    rule_pool = [gen_c01_rule(r) if r.random() < 0.2 else gen_rule(r) for _ in range(r.randrange(1, 4))]
    for i, m in enumerate(rule_pool):
        if r.random() < 0.3:
            m["share"] = i
    n_ops = r.randrange(3, 22)
    seen_iter = False
    want_stale = stale
    for _ in range(n_ops):
        x = r.random()
        pool = current_spec(members) or [0]
        if x < 0.32:
            role = r.choice(["rrule", "rrule", "rdate", "rdate", "exrule", "exdate"])
            if stale and seen_iter and role in ("rdate", "exdate"):
                role = "rrule" if role == "rdate" else "exrule"
            if role in ("rrule", "exrule"):
                m = dict(clean(r.choice(rule_pool))) if r.random() < 0.6 else gen_rule(r)
                if r.random() < 0.2:
                    m = {"kind": "list", "elems": sorted(set(pick_instant(r, pool) for _ in range(r.randrange(0, 5))))}
                ops.append([role, m])
                members["rr" if role == "rrule" else "exr"].append(m)
            else:
                allp = pool + [z for mm in members["rr"] + members["exr"] for z in member_instants(mm)]
                z = pick_instant(r, allp)
                ops.append([role, z])
                members["rd" if role == "rdate" else "exd"].append(z)
            n_stale = n_iters
        elif x < 0.42:
            ops.append(["iter"]); n_iters += 1; seen_iter = True
            if r.random() < 0.35:
                # two live iterators advanced alternately (one completes the cache under the other)
                ops.append(["iter"]); n_iters += 1
                a, b = n_iters - 2, n_iters - 1
                for _ in range(r.choice([3, 11, 25, 40])):
                    ops.append(["next", a if r.random() < 0.5 else b])
        elif x < 0.62:
            lo = 0 if stale else n_stale
            if n_iters > lo:
                k = r.randrange(lo, n_iters)
                for _ in range(r.choice([1, 1, 2, 3, 9, 10, 11, 25, 60])):
                    ops.append(["next", k])
            else:
                ops.append(["iter"]); n_iters += 1; seen_iter = True
        else:
            q = r.choice(["list", "count", "get", "in", "before", "after", "between", "count", "list"])
            z = pick_instant(r, pool)
            if q in ("list", "count"):
                ops.append([q])
            elif q == "get":
                n = len(pool)
                ops.append(["get", r.choice([0, 1, -1, n - 1, n, -n, -n - 1, r.randrange(-n - 2, n + 3), 9, 10, 11])])
            elif q == "in":
                ops.append(["in", z])
            elif q in ("before", "after"):
                ops.append([q, z, r.random() < 0.5])
            else:
                z2 = pick_instant(r, pool)
                ops.append(["between", min(z, z2), max(z, z2) if r.random() < 0.9 else min(z, z2) - 1, r.random() < 0.5])
    if want_stale and (stale_use_index(ops) is None or r.random() < 0.6):
        # force one: iterator, a few next(), a rule, drain the old iterator, then queries
        m = dict(clean(r.choice(rule_pool)))
        ops += [["iter"]]
        k = n_iters
        ops += [["next", k]] * r.choice([1, 2, 11])
        ops += [[r.choice(["rrule", "exrule"]), m]]
        ops += [["next", k]] * r.choice([1, 12, 40, 120, 120])
        ops += [[r.choice(["list", "count", "count", "get", "in"]) ] + []]
        if ops[-1][0] == "get":
            ops[-1] = ["get", r.choice([0, 1, 10, -1])]
        elif ops[-1][0] == "in":
            ops[-1] = ["in", pick_instant(r, current_spec(members) or [0])]
        ops += [["list"], ["count"]]
    return {"cached": cached, "ops": ops}


def hist_json(h):
    ops = []
    for op in h["ops"]:
        if op[0] in ("rrule", "exrule"):
            ops.append([op[0], clean(op[1])])
        else:
            ops.append(list(op))
    return {"cached": bool(h["cached"]), "ops": ops}


def eval_history(o, h):
    """returns (impl, model_first, model_last, spec) lists of per-op observations"""
    ops = h["ops"]
    a = [1 if h["cached"] else 0] + enc_ops(ops)
    n = len(ops)
    mf = split_obs(o.call(E_HIST_FIRST, a), n)
    ml = split_obs(o.call(E_HIST_LAST, a), n)
    mpy = split_obs(o.call(E_HIST_PY, a), n)
    if mpy != mf:
        ml = mpy      # reported as a tie-breaking disagreement (three disciplines must agree)
    sp = split_obs(o.call(E_HIST_SPEC, a), n)
    im = impl_history(h["cached"], ops)
    return im, mf, ml, sp


def first_spec_diff(im, sp):
    for i, (x, y) in enumerate(zip(im, sp)):
        if y == [7]:
            continue
        if x != y:
            return i
    if len(im) != len(sp):
        return min(len(im), len(sp))
    return None


def shrink_history(o, h):
    """greedy removal of operations while the implementation still differs from the spec"""
    def bad(hh):
        im, _mf, _ml, sp = eval_history(o, hh)
        return first_spec_diff(im, sp) is not None

    def without(ops, i):
        op = ops[i]
        rest = ops[:i] + ops[i + 1:]
        if op[0] != "iter":
            return rest
        idx = sum(1 for q in ops[:i] if q[0] == "iter")
        out = []
        for q in rest:
            if q[0] == "next":
                if q[1] == idx:
                    continue
                if q[1] > idx:
                    q = ["next", q[1] - 1]
            out.append(q)
        return out
    cur = {"cached": h["cached"], "ops": list(h["ops"])}
    budget = 400
    changed = True
    while changed and budget > 0:
        changed = False
        i = len(cur["ops"]) - 1
        while i >= 0 and budget > 0:
            cand = {"cached": cur["cached"], "ops": without(cur["ops"], i)}
            budget -= 1
            try:
                if bad(cand):
                    cur = cand
                    changed = True
            except Exception:
                pass
            i -= 1
    return cur


# ------------------------------------------------------------------------------------------
# known finding


def m_stale_iterator(payload):
    """F-C10-stale: the wrong observation comes after a next() on an iterator that was obtained
    before a later mutator (rrule/rdate/exrule/exdate)."""
    inp = payload.get("input") or {}
    ops = inp.get("ops")
    at = payload.get("first_wrong_op")
    if not isinstance(ops, list) or at is None:
        return False
    if payload.get("mild_in_model") is not False:
        # C10_rset_history_mild: while stale iterators leave the shared attributes alone nothing can go
        # wrong; the finding is a stale iterator that changes them (reaches the end of its generator)
        return False
    if payload.get("model_agrees_with_impl") is not True:
        # the faithful model of the unfixed code reproduces F-C10-stale exactly; a wrong observation
        # that the model does not predict is something else
        return False
    i = stale_use_index(ops)
    return i is not None and i < at


def m_raising_set(payload):
    """F-C10-raise: a CACHED rruleset whose generator raises TypeError (naive/aware mixture; the model predicts the
    TypeError) lists TypeError, TypeError, [] and count() None -- exactly that pattern, nothing else"""
    inp = payload.get("input") or {}
    return (str(payload.get("kind", "")).startswith("set whose generator raises TypeError")
            and inp.get("cache") is True and payload.get("first") == [2] and payload.get("model_first") == [2]
            and payload.get("later") == ["TypeError", [], "None"])


MATCHERS = {"stale_iterator_resumed": m_stale_iterator, "raising_set_generator": m_raising_set}


# ------------------------------------------------------------------------------------------
# streams


def small_scope_sets(tier):
    """every set over the instants {0,1,2}: inclusion rules from a fixed family of sublists,
    0-2 rdates (multisets), 0-1 exclusion rule, 0-2 exdates; members are plain lists"""
    subs = [[], [0], [1], [2], [0, 1], [0, 2], [1, 2], [0, 1, 2]]
    dates = [[]] + [[a] for a in range(3)] + [[a, b] for a in range(3) for b in range(3)]
    rule_sets = [[]] + [[s] for s in subs[1:]] + [[s, t] for s in subs[1:] for t in subs[1:]]
    ex_sets = [[]] + [[s] for s in subs[1:]]
    exdates = [[]] + [[a] for a in range(3)] + ([[a, b] for a in range(3) for b in range(a, 3)] if tier == "thorough" else [[0, 0], [1, 2]])
    for rr in rule_sets:
        for rd in dates:
            for exr in ex_sets:
                for exd in exdates:
                    yield {"rr": [{"kind": "list", "elems": s} for s in rr], "rd": rd,
                           "exr": [{"kind": "list", "elems": s} for s in exr], "exd": exd,
                           "cache": (len(rd) + len(exd)) % 2 == 0}


SMALL_ALPHABET = [
    ["rrule", {"kind": "list", "elems": [0, 1, 2, 3, 4, 5, 6, 7, 8, 9, 10, 11]}],   # crosses the batch of 10
    ["rdate", 5], ["exdate", 3], ["exrule", {"kind": "list", "elems": [3, 20]}],
    ["iter"], ["next", "last"], ["list"], ["count"], ["get", 10], ["in", 5],
    ["iter1"],            # iter() followed by one next(): a started iterator
    ["drain", "last"],    # 13 x next() on the most recent iterator: exhausts it
]


def small_scope_histories(first, length):
    """every history over SMALL_ALPHABET of exactly `length` operations starting with symbol `first`;
    ("next","last") advances the most recently created iterator (skipped when there is none)"""
    for tail in itertools.product(range(len(SMALL_ALPHABET)), repeat=length - 1):
        ops, n_it, ok = [], 0, True
        for k in (first,) + tail:
            op = SMALL_ALPHABET[k]
            if op[0] == "iter":
                n_it += 1
                ops.append(["iter"])
            elif op[0] == "iter1":
                n_it += 1
                ops += [["iter"], ["next", n_it - 1]]
            elif op[0] in ("next", "drain"):
                if n_it == 0:
                    ok = False
                    break
                ops += [["next", n_it - 1]] * (1 if op[0] == "next" else 13)
            else:
                ops.append(op)
        if ok:
            yield ops


def nontrivial_set(s, spec):
    """a set is non-trivial when it has at least two inclusion members or an exclusion member,
    and either a coincidence between members or an exclusion that hits"""
    inc_members = len(s["rr"]) + (1 if s["rd"] else 0)
    exc_members = len(s["exr"]) + (1 if s["exd"] else 0)
    return inc_members + exc_members >= 2 and len(spec) >= 3


def worker(job):
    """one shard; an exception escaping the shard (e.g. the implementation failing while a member
    rule is listed) is itself reported"""
    import traceback
    try:
        if job[0] == "cov":
            # four small shards in this process under coverage.py
            tier = job[3]
            cov_jobs = [("corpus", "cov", 0, tier), ("sets", "cov", 60, tier), ("hist", "cov", 120, tier),
                        ("stale", "cov", 60, tier), ("tagged", "cov", 60, tier)]
            parts, summary = measure_anchor_coverage(lambda: [worker_(j) for j in cov_jobs])
            return {"cov_parts": list(zip(cov_jobs, parts)), "cov_summary": summary}
        return worker_(job)
    except Exception as ex:
        return {"stats": {"evaluations": 0, "model_diff": 0, "spec_diff": 0, "tiebreak_diff": 0,
                          "nontrivial_keys": [], "hist": {}},
                "violations": [({"kind": "the check could not run a shard: %s" % type(ex).__name__,
                                 "input": None, "shard": list(job), "traceback": traceback.format_exc()[-3000:]},
                                False)],
                "samples": []}


def worker_(job):
    """one shard: returns dict(stats, violations, samples)"""
    kind, tag, n, tier = job
    r = C.rng("C10/%s/%s" % (kind, tag))
    o = C.Oracle(AREA)
    viol, samples = [], []
    st = {"evaluations": 0, "model_diff": 0, "spec_diff": 0, "tiebreak_diff": 0, "nontrivial_keys": set(),
          "hist": {}}

    def bump(key, k=1):
        st["hist"][key] = st["hist"].get(key, 0) + k

    if kind == "corpus":
        # the regression corpus once more inside the coverage shard: its deterministic histories reach the
        # rarely taken lines of _iter_cached whatever the seed
        run_corpus(o, st, viol, samples)
    elif kind in ("sets", "small", "c01sets"):
        it = (small_scope_sets(tier) if kind == "small" else
              (gen_set(r) for _ in range(n)) if kind == "sets" else (gen_c01_set(r) for _ in range(n)))
        for s in it:
            if STALLS[0] >= 3:
                break
            a = enc_set(s)
            im = impl_set(s)
            mf, ml, sp = o.call(E_MODEL_FIRST, a), o.call(E_MODEL_LAST, a), o.call(E_SPEC, a)
            lit = o.call(E_LITERAL, a)
            mpy = o.call(E_MODEL_PY, a)
            st["evaluations"] += 1
            if mpy != im:
                st["model_diff"] += 1
                viol.append(({"kind": "correspondence: model over the heapq.py algorithms (RSetHeapq.v) differs from the implementation",
                              "input": set_json(s), "impl": im, "model_heapq": mpy}, False))
            if lit != im:
                st["model_diff"] += 1
                viol.append(({"kind": "correspondence: literal model (object identity, RSetLit.v) differs from the implementation",
                              "input": set_json(s), "impl": im, "literal_model": lit}, False))
            bump("%s: rules=%d" % (kind, len(s["rr"])))
            bump("%s: exrules=%d" % (kind, len(s["exr"])))
            bump("%s: cache=%s" % (kind, bool(s.get("cache"))))
            if isinstance(sp, list) and nontrivial_set(s, sp[2:]):
                st["nontrivial_keys"].add(hashlib.sha1(json.dumps(a).encode()).hexdigest())
            if mf != ml:
                st["tiebreak_diff"] += 1
                viol.append(({"kind": "model output depends on heap tie-breaking", "input": set_json(s),
                              "model_first": mf, "model_last": ml}, False))
            if im != sp:
                st["spec_diff"] += 1
                viol.append(({"kind": "list(rruleset) differs from the specified recurrence set "
                                      "(format: 1, published _len, instants...)",
                              "input": set_json(s), "impl": im, "spec": sp, "model": mf}, True))
            elif im != mf:
                st["model_diff"] += 1
                viol.append(({"kind": "correspondence: model of rruleset._iter differs from the implementation",
                              "input": set_json(s), "impl": im, "model": mf}, False))
            if len(samples) < 3 and isinstance(sp, list) and len(sp) > 5:
                samples.append({"stream": kind, "input": set_json(s), "impl": im, "model": mf, "spec": sp})
    elif kind == "tagged":
        for _ in range(n):
            if STALLS[0] >= 3:
                break
            s = gen_tagged(r)
            a = enc_tagged(s)
            im, later = impl_tagged(s)
            mo = o.call(E_TAGGED, a)
            st["evaluations"] += 1
            bump("tagged: %s" % ("TypeError" if im == [2] else "ok"))
            exp = expected_later(im)
            if later is not None and exp is not None and later != exp:
                js = {"rr": [[t, m["elems"]] for t, m in s["rr"]], "rd": s["rd"],
                      "exr": [[t, m["elems"]] for t, m in s["exr"]], "exd": s["exd"], "cache": s["cache"]}
                st["spec_diff"] += 1
                bump("tagged: later listings differ from the first (cache=%s, first=%s)"
                     % (s["cache"], "TypeError" if im == [2] else "ok"))
                viol.append(({"kind": ("set whose generator raises TypeError: later listings / count() differ from the first "
                                       "listing (the uncached set raises TypeError every time)") if im == [2] else
                                      "later listings / count() of the same set differ from its first listing",
                              "input": js, "first": im, "later": later, "expected_later": exp, "model_first": mo}, True))
            if im != mo:
                st["model_diff"] += 1
                js = {"rr": [[t, m["elems"]] for t, m in s["rr"]], "rd": s["rd"],
                      "exr": [[t, m["elems"]] for t, m in s["exr"]], "exd": s["exd"], "cache": s["cache"]}
                viol.append(({"kind": "naive/aware mixture: exception class or result differs from the model",
                              "input": js, "impl": im, "model": mo}, False))
            if len(samples) < 2 and im == [2]:
                samples.append({"stream": "tagged", "input": {"rr": [[t, m["elems"]] for t, m in s["rr"]], "rd": s["rd"],
                                "exr": [[t, m["elems"]] for t, m in s["exr"]], "exd": s["exd"]}, "impl": im, "model": mo})
    elif kind in ("hist", "stale"):
        for _ in range(n):
            if STALLS[0] >= 3:
                break
            h = gen_history(r, stale=(kind == "stale"))
            check_history(o, h, kind, st, viol, samples, bump)
    elif kind == "smallhist":
        first = int(tag)
        for length in range(1, n + 1):
            for ops in small_scope_histories(first, length):
                if STALLS[0] >= 3:
                    break
                for cached in (False, True):
                    check_history(o, {"cached": cached, "ops": ops}, kind, st, viol, samples, bump, shrink=False)
    o.close()
    st["nontrivial_keys"] = sorted(st["nontrivial_keys"])
    return {"stats": st, "violations": viol, "samples": samples}


def check_history(o, h, kind, st, viol, samples, bump, shrink=True):
    im, mf, ml, sp = eval_history(o, h)
    st["evaluations"] += 1
    ops = h["ops"]
    bump("%s: cached=%s" % (kind, bool(h["cached"])))
    bump("%s: ops" % kind, len(ops))
    for op in ops:
        bump("%s op %s" % (kind, op[0]))
    n_mut_after_obs = 0
    seen_obs = False
    for op in ops:
        if op[0] in MUTATORS:
            if seen_obs:
                n_mut_after_obs += 1
        elif op[0] != "iter":
            seen_obs = True
    if n_mut_after_obs >= 1 and any(len(x) > 3 for x in sp):
        st["nontrivial_keys"].add(hashlib.sha1(json.dumps([h["cached"], enc_ops(ops)]).encode()).hexdigest())
    if mf != ml:
        st["tiebreak_diff"] += 1
        viol.append(({"kind": "model history depends on heap tie-breaking", "input": hist_json(h)}, False))
    d = first_spec_diff(im, sp)
    if d is not None:
        st["spec_diff"] += 1
        mild = o.call(E_MILD, [1 if h["cached"] else 0] + enc_ops(ops)) == [1]
        bump("%s: spec-diff with mild=%s" % (kind, mild))
        pre = {"input": hist_json(h), "first_wrong_op": d, "model_agrees_with_impl": im == mf, "mild_in_model": mild}
        stalled = any(x == ["STALL"] for x in im)
        hh = shrink_history(o, h) if (shrink and not stalled and not m_stale_iterator(pre)) else h
        im2, mf2, _ml2, sp2 = eval_history(o, hh)
        d2 = first_spec_diff(im2, sp2)
        if d2 is None:
            hh, im2, mf2, sp2, d2 = h, im, mf, sp, d
        viol.append(({"kind": "an observation differs from the recurrence set of the members present at that moment",
                      "input": hist_json(hh), "first_wrong_op": d2, "op": hist_json(hh)["ops"][d2] if d2 < len(hh["ops"]) else None,
                      "impl": im2[d2] if d2 < len(im2) else None, "spec": sp2[d2] if d2 < len(sp2) else None,
                      "model": mf2[d2] if d2 < len(mf2) else None,
                      "model_agrees_with_impl": im2 == mf2,
                      "mild_in_model": o.call(E_MILD, [1 if hh["cached"] else 0] + enc_ops(hh["ops"])) == [1]}, True))
    if im != mf:
        st["model_diff"] += 1
        k = next((i for i, (x, y) in enumerate(zip(im, mf)) if x != y), None)
        if d is None or k is None or k < d:
            viol.append(({"kind": "correspondence: history model differs from the implementation",
                          "input": hist_json(h), "first_wrong_op": k,
                          "impl": im[k] if k is not None else im, "model": mf[k] if k is not None else mf}, False))
    if kind == "stale":
        si = stale_use_index(ops)
        if si is not None:
            bump("stale: iterator advanced across a mutator, mild=%s" %
                 (o.call(E_MILD, [1 if h["cached"] else 0] + enc_ops(ops)) == [1]))
    if len(samples) < 2 and len(ops) >= 6:
        samples.append({"stream": kind, "input": hist_json(h), "impl": im, "model": mf, "spec": sp})


def anchor_ranges(path):
    """the anchored line ranges of rrule.py, derived from the AST of the file under test (function / class
    spans), never from constants: the decorator _invalidates_cache, the cache machinery of rrulebase
    (__init__, __iter__, _invalidate_cache, _iter_cached) and the whole class rruleset.  Also the lines that
    the streams are NOT expected to execute, each with its reason, and the span of rruleset._iter, in which
    every statement must be executed (a floor: a missing line there fails the check)."""
    import ast
    src = open(path).read()
    mod = ast.parse(src)
    span = lambda n: (min([n.lineno] + [d.lineno for d in getattr(n, "decorator_list", [])]), n.end_lineno)
    top = {n.name: n for n in mod.body if isinstance(n, (ast.FunctionDef, ast.ClassDef))}
    base, rset = top["rrulebase"], top["rruleset"]
    bm = {n.name: n for n in base.body if isinstance(n, ast.FunctionDef)}
    rm = {n.name: n for n in rset.body if isinstance(n, (ast.FunctionDef, ast.ClassDef))}
    gm = {n.name: n for n in rm["_genitem"].body if isinstance(n, ast.FunctionDef)}
    ranges = [("_invalidates_cache", span(top["_invalidates_cache"]))]
    ranges += [("rrulebase." + k, span(bm[k])) for k in ("__init__", "__iter__", "_invalidate_cache", "_iter_cached")]
    ranges.append(("rruleset", span(rset)))
    dead = {}
    # the else-branch of `if self.genlist[0] is self:` in _genitem.__next__ (remove + heapify): _iter only ever
    # advances the root of a heap list, so the branch is unreachable from _iter (RSetLitThm.v)
    for n in ast.walk(gm["__next__"]):
        if isinstance(n, ast.If) and n.orelse:
            for st in n.orelse:
                for x in ast.walk(st):
                    if hasattr(x, "lineno"):
                        dead[x.lineno] = "_genitem.__next__: remove + heapify branch, unreachable from _iter"
    for nm in ("__gt__", "__eq__"):
        if nm in gm:
            for st in gm[nm].body:
                dead[st.lineno] = "_genitem.%s is never called by _iter or heapq" % nm
    for n in ast.walk(bm["_invalidate_cache"]):
        if isinstance(n, ast.If) and isinstance(n.test, ast.Call) and getattr(n.test.func, "attr", "") == "locked":
            for st in n.body:
                dead[st.lineno] = "releases a lock left held: never in single-threaded histories"
    inner = [n for n in top["_invalidates_cache"].body if isinstance(n, ast.FunctionDef)]
    for st in top["_invalidates_cache"].body:
        if isinstance(st, ast.Return):
            dead[st.lineno] = "decorator body: runs at import time"
    return {"ranges": ranges, "expected_missing": dead, "iter_span": span(rm["_iter"]),
            "inner_defs": [n.lineno for n in inner]}


def measure_anchor_coverage(fn):
    """run fn() in-process under coverage.py restricted to rrule.py; report the anchored ranges"""
    try:
        import coverage
    except Exception:
        return fn(), {"available": False}
    path = os.path.join(C.SRC, "dateutil", "rrule.py")
    global NO_C01
    cov = coverage.Coverage(branch=True, include=[path], data_file=None)
    NO_C01 = True
    cov.start()
    try:
        res = fn()
    finally:
        cov.stop()
        NO_C01 = False
    try:
        an = cov._analyze(path)
        info = anchor_ranges(path)
        rngs = [r for (_n, r) in info["ranges"]]
        inr = lambda n: any(a <= n <= b for a, b in rngs)
        stmts = sorted(n for n in an.statements if inr(n))
        src_lines = open(path).read().splitlines()
        is_def = lambda n: src_lines[n - 1].strip().startswith(("def ", "@", "class ", "next = "))
        stmts = [n for n in stmts if not is_def(n)]     # definitions run at import time
        missing = sorted(n for n in an.missing if inr(n) and not is_def(n))
        unexpected = [n for n in missing if n not in info["expected_missing"]]
        a, b = info["iter_span"]
        return res, {"available": True, "file": "src/dateutil/rrule.py",
                     "ranges": [[nm, r[0], r[1]] for (nm, r) in info["ranges"]],
                     "ranges_derived_from": "AST of the file under test (function / class spans)",
                     "rruleset_iter_span": [a, b],
                     "statements_in_ranges": len(stmts), "missing_statements_in_ranges": len(missing),
                     "missing_lines": missing[:40],
                     "expected_missing": {str(k): v for k, v in sorted(info["expected_missing"].items())},
                     "unexpected_missing_lines": unexpected[:40],
                     "missing_in_rruleset_iter": [n for n in missing if a <= n <= b],
                     "note": "definitions (executed at import) are not counted; a missing statement inside "
                             "rruleset._iter, or any missing line without a stated reason, fails the check"}
    except Exception as ex:
        return res, {"available": False, "error": repr(ex)}


def corpus_cases():
    path = os.path.join(C.VERIF, "corpus", "regressions", "C10.jsonl")
    out = []
    if os.path.exists(path):
        for line in open(path):
            line = line.strip()
            if line and not line.startswith("#"):
                out.append(json.loads(line))
    return out


def run_corpus(o, st, viol, samples):
    def bump(key, k=1):
        st["hist"][key] = st["hist"].get(key, 0) + k
    for c in corpus_cases():
        if "ops" in c:
            check_history(o, {"cached": c["cached"], "ops": c["ops"]}, "corpus", st, viol, samples, bump, shrink=False)
        else:
            s = c
            a = enc_set(s)
            im, mf, sp = impl_set(s), o.call(E_MODEL_FIRST, a), o.call(E_SPEC, a)
            st["evaluations"] += 1
            bump("corpus: set")
            if im != sp:
                st["spec_diff"] += 1
                viol.append(({"kind": "list(rruleset) differs from the specified recurrence set",
                              "input": set_json(s), "impl": im, "spec": sp, "model": mf}, True))
            elif im != mf:
                st["model_diff"] += 1
                viol.append(({"kind": "correspondence: model differs from the implementation",
                              "input": set_json(s), "impl": im, "model": mf}, False))


def replay(path):
    data = json.load(open(path))
    C.ensure_built([AREA], VO)
    o = C.Oracle(AREA)
    inp = data.get("input")
    if isinstance(inp, dict) and "ops" in inp:
        h = {"cached": inp["cached"], "ops": inp["ops"]}
        im, mf, _ml, sp = eval_history(o, h)
        print("history   cached=%s" % inp["cached"])
        for i, op in enumerate(inp["ops"]):
            flag = "" if (sp[i] == [7] or im[i] == sp[i]) else "   <-- differs from spec"
            print("  %2d %-60s impl=%s model=%s spec=%s%s" % (i, json.dumps(op)[:60], im[i], mf[i], sp[i], flag))
    elif isinstance(inp, dict) and "rr" in inp and inp["rr"] and isinstance(inp["rr"][0], dict) or (isinstance(inp, dict) and "rd" in inp and not any(isinstance(x, list) for x in inp.get("rd", []))):
        a = enc_set(inp)
        print("input     ", json.dumps(inp))
        print("impl      ", impl_set(inp))
        print("model     ", o.call(E_MODEL_FIRST, a))
        print("model/last", o.call(E_MODEL_LAST, a))
        print("spec      ", o.call(E_SPEC, a))
    elif isinstance(inp, dict) and "rr" in inp and "rd" in inp:
        # naive/aware case: rr/exr = [[tag, instants]...], rd/exd = [[tag, instant]...]
        s = {"rr": [(t, {"kind": "list", "elems": e}) for t, e in inp["rr"]], "rd": [tuple(x) for x in inp["rd"]],
             "exr": [(t, {"kind": "list", "elems": e}) for t, e in inp["exr"]], "exd": [tuple(x) for x in inp["exd"]],
             "cache": inp.get("cache")}
        print("input     ", json.dumps(inp))
        im, later = impl_tagged(s)
        print("impl      ", im, " ([2] = TypeError)")
        print("later     ", later, " expected", expected_later(im), " (second listing, third listing, count())")
        print("model     ", o.call(E_TAGGED, enc_tagged(s)))
    else:
        print("replay names a broken obligation or a non-replayable input:", json.dumps(data, indent=1)[:3000])
    o.close()
    return 0


def translator_status(build_log):
    """harness/gen_rset.py (run by common.regenerate on every check) regenerates coq/gen/RSetGen.v from
    /repo's rrule.py; when it aborts the file is poisoned and rset/RSetGenThm.v, hence the C10_gen_*
    block and the whole props/C10.v, stop compiling"""
    log = build_log or ""
    failed = "GENERATOR FAILED: gen_rset.py" in log
    msg = None
    if failed:
        ms = re.findall(r"TRANSLATE-ERROR: ([^\n]*)", log[:log.index("GENERATOR FAILED: gen_rset.py")])
        msg = ms[-1] if ms else "generator exited non-zero"
    return {"script": "harness/gen_rset.py", "outputs": ["coq/gen/RSetGen.v"],
            "status": "aborted" if failed else "ok", "message": msg}


def main():
    argv = sys.argv[1:]
    if "--replay" in argv:
        return replay(argv[argv.index("--replay") + 1])
    tier = C.tier_from_argv(argv)
    t0 = time.time()
    verdict = C.Verdict(CID, MATCHERS)
    build_err = None
    build_log = ""
    try:
        _ok, build_log = C.ensure_built([AREA], VO)
    except C.BuildError as ex:
        build_err = ex
        build_log = ex.log or ""
    translator = translator_status(build_log)
    if build_err is not None:
        props = {"obligations": 1, "discharged": 0, "theorems": [], "assumptions": {},
                 "cmd": "coqc props/C10.v", "log": build_err.log, "ok": False}
    else:
        props = C.compile_props(CID)

    have_oracle = os.path.exists(os.path.join(C.BIN, "oracle_" + AREA))
    total = {"evaluations": 0, "model_diff": 0, "spec_diff": 0, "tiebreak_diff": 0, "hist": {}}
    nontriv = set()
    samples, viols = [], []
    per_stream = {}
    if have_oracle:
        # regression corpus first
        o = C.Oracle(AREA)
        st = {"evaluations": 0, "model_diff": 0, "spec_diff": 0, "tiebreak_diff": 0, "nontrivial_keys": set(), "hist": {}}
        run_corpus(o, st, viols, samples)
        o.close()
        for k in ("evaluations", "model_diff", "spec_diff", "tiebreak_diff"):
            total[k] += st[k]
        per_stream["corpus"] = st["evaluations"]
        for k, v in st["hist"].items():
            total["hist"][k] = total["hist"].get(k, 0) + v
        if tier == "quick":
            plan = {"sets": (4, 700), "c01sets": (4, 30), "tagged": (1, 1500), "hist": (4, 750), "stale": (2, 300)}
            procs = min(8, os.cpu_count() or 4)
        else:
            plan = {"sets": (16, 10000), "c01sets": (16, 300), "tagged": (4, 10000), "hist": (32, 9000), "stale": (8, 6000)}
            procs = min(16, os.cpu_count() or 4)
        jobs = [("small", "0", 0, tier)]
        jobs += [("smallhist", str(k), 4 if tier == "quick" else 5, tier) for k in range(len(SMALL_ALPHABET))]
        for kind, (shards, n) in plan.items():
            jobs += [(kind, str(i), n, tier) for i in range(shards)]
        # every shard runs in a pool worker under a wall-clock budget: a shard that does not come back
        # (a stall in the implementation or in the check) is reported, the check itself never hangs
        budget = 900 if tier == "quick" else 2400
        cov_summary = {"available": False}
        pool = multiprocessing.Pool(procs)
        t_pool = time.time()
        asyncs = [(job, pool.apply_async(worker, (job,))) for job in [("cov", "0", 0, tier)] + jobs]
        jobs, results = [], []
        timed_out = []
        for job, ar in asyncs:
            try:
                res = ar.get(timeout=max(1.0, budget - (time.time() - t_pool)))
            except multiprocessing.TimeoutError:
                timed_out.append(list(job))
                res = {"stats": {"evaluations": 0, "model_diff": 0, "spec_diff": 0, "tiebreak_diff": 0,
                                 "nontrivial_keys": [], "hist": {}},
                       "violations": [({"kind": "shard did not finish within the wall-clock budget (stall in the "
                                                "implementation or in the check)", "input": None, "shard": list(job),
                                        "budget_s": budget}, False)],
                       "samples": []}
            if "cov_parts" in res:
                cov_summary = res["cov_summary"]
                for j, part in res["cov_parts"]:
                    jobs.append(j)
                    results.append(part)
            else:
                jobs.append(job)
                results.append(res)
        pool.terminate()
        pool.join()
        for job, res in zip(jobs, results):
            st = res["stats"]
            for k in ("evaluations", "model_diff", "spec_diff", "tiebreak_diff"):
                total[k] += st[k]
            per_stream[job[0]] = per_stream.get(job[0], 0) + st["evaluations"]
            for k, v in st["hist"].items():
                total["hist"][k] = total["hist"].get(k, 0) + v
            nontriv.update(st["nontrivial_keys"])
            viols += res["violations"]
            if len(samples) < 10:
                samples += res["samples"][:2]
    # ---- floors: every stream must have evaluated what was planned, the measured shard must execute
    # every statement of rruleset._iter and leave no line unexecuted without a stated reason
    shard_report = {"available": False}
    if have_oracle:
        floors = {}
        for kind, (shards, n) in plan.items():
            floors[kind] = shards * n
        floors["corpus"] = len(corpus_cases())
        floors["small"] = 32000 if tier == "quick" else 53000
        floors["smallhist"] = 24000 if tier == "quick" else 278000
        cov_n = {"sets": 60, "hist": 120, "stale": 60, "tagged": 60}
        short = {k: {"floor": v, "evaluated": per_stream.get(k, 0)} for k, v in floors.items()
                 if per_stream.get(k, 0) < v}
        shard_report = {"available": True, "wall_clock_budget_s": budget, "pool_processes": procs,
                        "planned_shards": {k: {"shards": sh, "cases_per_shard": n} for k, (sh, n) in plan.items()},
                        "coverage_shard_cases": cov_n,
                        "floors_per_stream": floors, "evaluated_per_stream": dict(per_stream),
                        "streams_below_floor": short,
                        "shards_timed_out": timed_out, "stall_breaks": "a shard stops after 3 STALL outcomes "
                        "(each already a concrete violation); it then evaluates fewer cases than planned and the "
                        "stream falls below its floor"}
        if short:
            viols.append(({"kind": "a stream evaluated fewer cases than its floor (truncated shard)", "input": None,
                           "streams_below_floor": short}, False))
        if cov_summary.get("available"):
            bad = {"missing_in_rruleset_iter": cov_summary.get("missing_in_rruleset_iter"),
                   "unexpected_missing_lines": cov_summary.get("unexpected_missing_lines")}
            if bad["missing_in_rruleset_iter"] or bad["unexpected_missing_lines"]:
                viols.append(({"kind": "coverage floor: statements of the anchored code (rruleset / rrulebase cache) are "
                                       "never executed by the streams", "input": None, "lines": bad,
                               "ranges": cov_summary.get("ranges")}, False))
    viols.sort(key=lambda v: not v[1])      # concrete failing inputs first
    for payload, concrete in viols:
        verdict.violation(payload, concrete=concrete)

    if translator["status"] != "aborted":
        # compile_props regenerates once more under its own lock hold: look there too
        t2 = translator_status(props.get("log") or "")
        if t2["status"] == "aborted":
            translator = t2
    if not props["ok"] and not any(c for (_p, c) in verdict.violations):
        # a translator abort or a broken C10_gen_* / C10_* obligation is a violation by itself; the
        # concrete search above has run as usual (the oracle does not depend on coq/gen) and found
        # no failing input
        gen_broken = translator["status"] == "aborted" or "RSetGen" in (props.get("log") or "")
        verdict.violation({"kind": ("translator abort (harness/gen_rset.py: %s): the regenerated model of rruleset "
                                    "no longer exists, C10_gen_* obligations broken" % translator["message"])
                           if translator["status"] == "aborted" else
                           ("broken gen obligation: the model regenerated from the source (coq/gen/RSetGen.v) is no "
                            "longer the hand-written model (rset/RSetGenThm.v / C10_gen_*)" if gen_broken
                            else "broken proof obligation"),
                           "translator": translator, "theorem_file": "coq/props/C10.v",
                           "theorems": props["theorems"], "discharged": props["discharged"],
                           "input": None, "log_tail": props["log"][-3000:]}, concrete=False)
    if not have_oracle and not verdict.violations:
        verdict.violation({"kind": "oracle could not be built", "input": None,
                           "log_tail": (build_err.log if build_err else "")[-3000:]}, concrete=False)

    coqchk = None
    if tier == "thorough" and props["ok"]:
        # independent re-check of the compiled library by coqchk (kernel-only checker)
        try:
            crc, cout = C.sh(["timeout", "900", "coqchk", "-silent", "-o", "-R", C.COQ, "V", "V.props.C10"],
                             cwd=C.COQ, timeout=1000)
            m = [l.strip() for l in cout.splitlines() if l.strip().startswith("* ")]
            coqchk = {"rc": crc, "summary": m}
            if crc != 0:
                verdict.violation({"kind": "coqchk rejects the compiled proofs of props/C10.v", "input": None,
                                   "log_tail": cout[-2000:]}, concrete=False)
        except Exception as ex:
            coqchk = {"rc": None, "error": repr(ex)}
    rc = verdict.finish()
    partial = [t for t in props["theorems"] if t.endswith("_partial")]
    cov = {
        "evaluations": total["evaluations"],
        "distinct_nontrivial": len(nontriv),
        "rule": "streams: regression corpus; small-scope exhaustive sets over instants {0,1,2} (plain-list members); "
                "small-scope exhaustive histories (every sequence of <= 4 (quick) / 5 (thorough) operations over a "
                "12-symbol alphabet, cache on and off); "
                "sets whose rules come from C01's generator harness/rr_common.rand_case (BY-parts, wkst, until/count; made "
                "naive and finite) with varied copies as co-members and exclusions; "
                "random sets of 0-4 real rrule objects (HOURLY/DAILY/MINUTELY/WEEKLY/MONTHLY/SECONDLY, varied "
                "interval/count/until/byhour on a coarse grid so occurrences coincide) and 0-7 dates per role, members "
                "reused between inclusion and exclusion; naive/aware mixtures; random histories of "
                "rrule/rdate/exrule/exdate/iter/next/list/count/[i]/in/before/after/between with cache on/off. "
                "A set counts as non-trivial when it has >= 2 members and >= 3 surviving instants; a history when a "
                "mutator follows an observation and some observation lists >= 2 instants. Distinctness by SHA-1 of "
                "the encoded input.",
        "exhaustive": False,
        "small_scope_exhaustive_sets": per_stream.get("small", 0),
        "small_scope_exhaustive_histories": per_stream.get("smallhist", 0),
        "small_scope_history_alphabet": [json.dumps(x) for x in SMALL_ALPHABET],
        "samples": samples[:10],
        "input_distribution": dict(sorted(total["hist"].items())),
        "evaluations_per_stream": per_stream,
        "model_vs_impl_disagreements": total["model_diff"],
        "spec_vs_impl_disagreements": total["spec_diff"],
        "tie_breaking_disagreements": total["tiebreak_diff"],
        "traces_validated_against_impl": per_stream.get("hist", 0) + per_stream.get("stale", 0) + per_stream.get("smallhist", 0),
        "partial_theorems": partial,
        "differential_only": ["naive/aware TypeError class (tag_error of RSetModel.v is compared with the code, "
                              "no theorem); later listings of a raising cached set: finding F-C10-raise",
                              "lock handling of _iter_cached (not modelled; single-threaded histories)",
                              "RSetHist.v's model of __iter__/_iter_cached/query loops (see history_model_tie)"],
        "known_findings_hit": verdict.known_hits,
        "translator": translator,
        "model_tie": "rruleset (_genitem.__init__/__next__/comparisons, __init__, the four mutators through "
                     "_invalidates_cache, _iter) and rrulebase.__init__/_invalidate_cache are regenerated from /repo's AST by "
                     "harness/gen_rset.py on this run (coq/gen/RSetGen.v) and proved equal to the hand-written model for all "
                     "inputs (rset/RSetGenThm.v, C10_gen_*); accepted subset and call table: notes/rset.md",
        "history_model_tie": "the history theorems rest on RSetHist.v's hand model of rrulebase.__iter__/_iter_cached "
                             "(single-threaded, no lock) and of the query loops; this is a SECOND hand model of code that "
                             "C11/C12 model separately (RCacheModel/RQueryModel, regenerated by gen_rcache.py); it is neither "
                             "regenerated nor proved equal to those models and is tied to the implementation by the differential "
                             "history streams of this check only. Regenerated and proved for the history model: __init__, the four "
                             "mutators, _invalidate_cache (C10_gen_init_is_model, C10_gen_mutators_are_model, "
                             "C10_gen_invalidate_is_model)",
        "guarded_theorems": {"C10_rset_history_mild": "HEADLINE. mild_history: every next() names an existing iterator and no "
                                                      "next() on an iterator obtained before a later mutator changes "
                                                      "_cache_complete/_cache_gen/_len; decided by running the model (not an "
                                                      "input-level condition); guard = negation of the precondition of the "
                                                      "F-C10-stale matcher (mild_in_model, same extracted function)",
                             "C10_rset_history": "input-level corollary: fresh_history ops = true (no next() on an iterator obtained "
                                                 "before a later mutator) implies mild_history (C10_fresh_implies_mild); WIDER than "
                                                 "F-C10-stale: also excludes never-advanced and not-exhausted stale iterators",
                             "C10_rset_history_heapq": "same guard",
                             "C10_rset_iter_correct and all generator theorems": "members non-decreasing (Forall nondec); "
                                                 "heap discipline satisfies heap_contract (proved for heapq.py's algorithms)",
                             "C10_tagged_ok": "tag_error = false"},
        "coqchk": coqchk if coqchk is not None else "thorough tier only",
        "refuted_theorems": ["C10_history_unguarded_refuted (witness replayed on the implementation = F-C10-stale)"],
        "anchor_coverage_of_one_shard": cov_summary if have_oracle else {"available": False},
        "shards": shard_report,
    }
    C.write_evidence(CID, tier, t0, props, cov,
                     ["CPython's _heapq C accelerator implements the algorithms of Lib/heapq.py, which RSetHeapq.v models and "
                      "RSetHeapqThm.v proves to satisfy heap_contract (also proved for the two selection heaps); "
                      "all three disciplines are extracted and compared with the implementation",
                      "a member (rrule / date list) is the finite non-decreasing list of instants it produces",
                      "identity tests (`is`) in _genitem.__next__/_iter resolved statically as explained in RSetModel.v"],
                     len(verdict.violations))
    if translator["status"] == "aborted":
        print("C10 translator harness/gen_rset.py ABORTED (%s): coq/gen/RSetGen.v poisoned, C10_gen_* obligations broken"
              % translator["message"])
    elif not props["ok"] and "RSetGen" in (props.get("log") or ""):
        print("C10 gen obligations BROKEN: the model regenerated from the source (coq/gen/RSetGen.v) is no longer the "
              "hand-written model (rset/RSetGenThm.v)")
    print("C10 %s: obligations %d/%d, %d cases %s, model-diff %d, spec-diff %d, tiebreak-diff %d, known %s, %.1fs" % (
        tier, props["discharged"], props["obligations"], total["evaluations"], per_stream, total["model_diff"],
        total["spec_diff"], total["tiebreak_diff"], verdict.known_hits, time.time() - t0))
    return rc


if __name__ == "__main__":
    sys.exit(main())
