#!/usr/bin/env python3
"""C12 -- recurrence queries (__getitem__/__contains__/count/before/after/xafter/between) agree with
the listed sequence: Coq theorems (coq/props/C12.v) + differential correspondence of the real
rrulebase methods against (a) a list(rule)-based Python specification, (b) the extracted Coq model
of the methods (generator path / cache-complete path), (c) the extracted Coq specification."""
import itertools
import json
import re
import os
import sys
import time

sys.path.insert(0, os.path.dirname(os.path.abspath(__file__)))
import common as C

C.reexec_under_impl_python()

import rcache_rules as R
import rcache_replace as RP

CID = "C12"
AREA = "rcache"
VO = ["props/C12.vo", "rcache/PyList.vo", "rcache/RCacheModel.vo", "rcache/RCacheSpec.vo",
      "rcache/RQueryModel.vo", "rcache/RQuerySpec.vo", "rcache/RQueryThm.vo", "rcache/RCacheThm.vo",
      "rcache/RCacheQuery.vo", "base/Cal.vo", "rr/RRBase.vo", "rr/RRNorm.vo", "rcache/RReplace.vo", "rcache/RRInitBase.vo", "gen/RRInitGen.vo", "rcache/RRInitGenThm.vo", "rcache/RGenBase.vo", "gen/RQueryGen.vo", "gen/RCacheGen.vo", "rcache/RQueryGenThm.vo", "rcache/RReplaceThm.vo"]

MODES = ["uncached", "uncached_mid", "cached_fresh", "cached_mid", "cached_shared", "cached_complete"]


# ------------------------------------------------------------------ queries

def opt(v):
    return [0, 0] if v is None else [1, v]


def q_model(o_complete, L, q):
    """(model entry, spec entry, args) of a query"""
    head = [o_complete, len(L)] + L
    k = q[0]
    if k == "idx":
        return 20, 21, head + [0, q[1]]
    if k == "slice":
        return 20, 21, head + [1] + opt(q[1]) + opt(q[2]) + opt(q[3])
    if k == "contains":
        return 22, 23, head + [q[1]]
    if k == "count":
        return 24, 25, head
    if k == "before":
        return 26, 27, head + [q[1], int(q[2])]
    if k == "after":
        return 28, 29, head + [q[1], int(q[2])]
    if k == "between":
        return 30, 31, head + [q[1], q[2], int(q[3])]
    if k == "xafter":
        return 32, 33, head + [q[1]] + opt(q[2]) + [int(q[3])]
    raise ValueError(q)


def canon(v):
    if v is None:
        return [1]
    if isinstance(v, bool):
        return [3, int(v)]
    if isinstance(v, list):
        return [2] + [R.to_int(x) for x in v]
    return [0, R.to_int(v)]


def impl_query(rule, q):
    k = q[0]
    try:
        if k == "idx":
            return canon(rule[q[1]])
        if k == "slice":
            return canon(rule[slice(q[1], q[2], q[3])])
        if k == "contains":
            return canon(R.to_dt(q[1]) in rule)
        if k == "count":
            return [rule.count()]
        if k == "before":
            return canon(rule.before(R.to_dt(q[1]), inc=q[2]))
        if k == "after":
            return canon(rule.after(R.to_dt(q[1]), inc=q[2]))
        if k == "between":
            return canon(rule.between(R.to_dt(q[1]), R.to_dt(q[2]), inc=q[3]))
        if k == "xafter":
            return canon(list(rule.xafter(R.to_dt(q[1]), count=q[2], inc=q[3])))
    except IndexError:
        return [4]
    except ValueError:
        return [5]
    except Exception as ex:  # any other class is an observable difference
        return ["EXC", type(ex).__name__]
    raise ValueError(q)


def py_spec(L, q):
    """the property's own reading, on the integer list L = list(rule)"""
    k = q[0]
    try:
        if k == "idx":
            return [0, L[q[1]]]
        if k == "slice":
            return [2] + L[slice(q[1], q[2], q[3])]
        if k == "contains":
            return [3, int(q[1] in L)]
        if k == "count":
            return [len(L)]
        if k == "before":
            c = [y for y in L if (y <= q[1] if q[2] else y < q[1])]
            return [0, c[-1]] if c else [1]
        if k == "after":
            c = [y for y in L if (y >= q[1] if q[2] else y > q[1])]
            return [0, c[0]] if c else [1]
        if k == "between":
            if q[3]:
                return [2] + [y for y in L if q[1] <= y <= q[2]]
            return [2] + [y for y in L if q[1] < y < q[2]]
        if k == "xafter":
            c = [y for y in L if (y >= q[1] if q[3] else y > q[1])]
            return [2] + (c if q[2] is None else c[:max(q[2], 0)])
    except IndexError:
        return [4]
    except ValueError:
        return [5]
    raise ValueError(q)


def instants(L):
    """every element, its neighbours one second off, far before and after"""
    s = set()
    for y in L:
        s.update((y - 1, y, y + 1))
    lo = (L[0] if L else R.T0)
    hi = (L[-1] if L else R.T0)
    s.update((lo - 10 * 366 * R.DAY, hi + 10 * 366 * R.DAY, lo - 2, hi + 2))
    return sorted(s)


STEPS = [None, 1, -1, 2, -2, 3]


def queries(L, r, budget):
    """the query set of one rule: complete for small n, boundary-biased sample otherwise"""
    n = len(L)
    qs = [["count"]]
    qs += [["idx", k] for k in range(-(n + 2), n + 3)]
    comps = [None] + list(range(-(n + 1), n + 2))
    allsl = (len(comps) ** 2) * len(STEPS)
    if allsl <= budget:
        qs += [["slice", a, b, c] for a in comps for b in comps for c in STEPS]
        sl_full = True
    else:
        sl_full = False
        edge = [None, 0, 1, -1, n - 1, n, n + 1, -n, -(n + 1), -(n - 1), n // 2, -(n // 2)]
        seen = set()
        for a in edge:
            for b in edge:
                for c in STEPS:
                    seen.add((a, b, c))
        while len(seen) < budget:
            seen.add((r.choice(comps), r.choice(comps), r.choice(STEPS)))
        qs += [["slice", a, b, c] for (a, b, c) in sorted(seen, key=repr)]
    qs += [["slice", a, b, 0] for (a, b) in [(None, None), (0, n), (-1, None), (None, -1)]]
    qs += [["slice", 0, 10 ** 15, None], ["slice", 10 ** 15, None, None], ["idx", 10 ** 15], ["idx", -10 ** 15],
           ["slice", None, None, 10 ** 15], ["slice", -10 ** 15, 10 ** 15, -1]]
    ts = instants(L)
    for t in ts:
        qs.append(["contains", t])
        for inc in (False, True):
            qs.append(["before", t, inc])
            qs.append(["after", t, inc])
    pairs = list(itertools.product(ts, ts))
    if len(pairs) * 2 > budget:
        pairs = r.sample(pairs, budget // 2)
    for (a, b) in pairs:
        for inc in (False, True):
            qs.append(["between", a, b, inc])
    cnts = [None, 0, 1, 2, n - 1, n, n + 1, -1]
    xs = [(t, c) for t in ts for c in cnts]
    if len(xs) * 2 > budget:
        xs = r.sample(xs, budget // 2)
    for (t, c) in xs:
        for inc in (False, True):
            qs.append(["xafter", t, c, inc])
    return qs, sl_full


def recipes(tier, r):
    out = []
    # quick keeps the small scopes (all slices are enumerated only for small n anyway) and the lengths
    # around the cache batch; thorough runs every length 0..31 and more variant lengths
    for n in (list(range(0, 13)) + [19, 20, 21, 30, 31] if tier == "quick" else range(0, 32)):
        out.append(R.daily(n))
    for n in ((0, 1, 2, 10, 11, 21) if tier == "quick" else (0, 1, 2, 5, 9, 10, 11, 20, 21)):
        out += R.variants_of_length(n)[1:]
    # aware rules (fixed-offset zones): same queries with aware arguments
    out.append(R.aware(R.daily(12), "utc"))
    out.append(R.aware(R.set_of_length(11, 0), 19800))
    out.append(R.aware(R.setpos_rule(5, True), -34200))
    nrand = 20 if tier == "quick" else 1500
    for k in range(nrand):
        rec = R.random_recipe(r)
        out.append(R.aware(rec, r.choice(["utc", 3600, -18000])) if k % 10 == 9 else rec)
    return out


# ------------------------------------------------------------------ primitives vs CPython

def check_primitives(o, verdict, stats):
    """py_index / py_slice / islice of coq/rcache/PyList.v against the running CPython, exhaustively
    for list lengths 0..5 (they are trusted-base contracts: a difference is a machinery error)"""
    reqs, want = [], []
    for n in range(0, 6):
        L = list(range(100, 100 + n))
        comps = [None] + list(range(-(n + 2), n + 3))
        for k in range(-(n + 3), n + 4):
            reqs.append((36, [0, n] + L + [k]))
            try:
                want.append([0, L[k]])
            except IndexError:
                want.append([4])
        for a in comps:
            for b in comps:
                for c in [None, 1, -1, 2, -2, 3, -3, 0, 7, -7]:
                    reqs.append((34, [0, n] + L + opt(a) + opt(b) + opt(c)))
                    try:
                        want.append([2] + L[slice(a, b, c)])
                    except ValueError:
                        want.append([5])
                    if all(x is None or x >= 0 for x in (a, b, c)):
                        reqs.append((35, [0, n] + L + opt(a) + opt(b) + opt(c)))
                        try:
                            want.append([2] + list(itertools.islice(iter(L), a, b, c)))
                        except ValueError:
                            want.append([5])
    got = R.call_many(o, reqs)
    bad = 0
    for (e, a), g, w in zip(reqs, got, want):
        if g != w:
            bad += 1
            if bad <= 3:
                verdict.violation({"kind": "machinery: Coq model of a CPython primitive differs from CPython",
                                   "entry": e, "input": {"args": a}, "coq": g, "cpython": w}, concrete=False)
    stats["primitive_cases"] = len(reqs)
    stats["primitive_disagreements"] = bad


# ------------------------------------------------------------------ line coverage of the anchored methods

def anchored_coverage(r, tier="quick"):
    """line coverage (sys.settrace) of rrulebase's methods under this check's query set, measured on a
    few rules: a generator that stopped exercising a branch shows up as a missed line"""
    from dateutil import rrule as rr
    B = rr.rrulebase
    names = ["__init__", "__iter__", "_invalidate_cache", "_iter_cached", "__getitem__", "__contains__",
             "count", "before", "after", "xafter", "between"]
    codes = {}
    for nme in names:
        f = getattr(B, nme)
        f = getattr(f, "__wrapped__", f)
        codes[f.__code__] = nme
    # xafter's lambdas are nested code objects
    for c in list(codes):
        for k in c.co_consts:
            if hasattr(k, "co_code"):
                codes[k] = codes[c] + ".<lambda>"
    executable = set()
    for c in codes:
        for (_a, _b, ln) in c.co_lines():
            if ln is not None and ln != c.co_firstlineno:
                executable.add(ln)
    hit = set()

    def local(frame, event, arg):
        if event == "line":
            hit.add(frame.f_lineno)
        return local

    def glob(frame, event, arg):
        return local if frame.f_code in codes else None
    recs = [R.daily(12), R.daily(0), R.set_of_length(11, 0), R.until_rule(21)]
    if tier == "quick":
        recs = [R.daily(11), R.set_of_length(2, 0)]
    sys.settrace(glob)
    try:
        for rec in recs:
            L = [R.to_int(x) for x in R.build(rec, False)]
            qs, _full = queries(L, r, 120 if tier == "quick" else 300)
            for cache in (False, True):
                shared = R.build(rec, cache)
                for q in qs:
                    impl_query(R.build(rec, cache), q)
                    it = iter(R.build(rec, cache))
                    next(it, None)
                    impl_query(shared, q)
            two = R.build(rec, True)             # two live iterators: the second finds the cache complete
            a, b = iter(two), iter(two)
            next(b, None)
            list(a)
            list(b)
            list(two)                            # __iter__ fast path
            s = R.build(R.set_of_length(3, 0), True)
            list(s)
            s.rdate(R.to_dt(R.T0 + 5))      # _invalidate_cache on a used cached set
            list(s)
    finally:
        sys.settrace(None)
    missed = sorted(executable - hit)
    return {"file": "src/dateutil/rrule.py", "methods": names, "executable_lines": len(executable),
            "lines_hit": len(executable & hit), "missed_lines": missed,
            "note": "the release() inside _invalidate_cache is only reachable when a mutator runs while the lock "
                    "is held (another thread in its fill step, or the pre-bb46216 leak)"}


# ------------------------------------------------------------------ replace()

def check_replace(r, tier, verdict, stats, o=None):
    """replace(**kw) == constructor(original arguments + kw), structured small-scope stream
    (harness/rcache_replace.py); the extracted model of the `_original_rule` recording is compared on
    the same cases when the oracle has the entry"""
    nontriv = set()
    bad = [0, 0]

    def on_case(kw, ch, source, cache, a, b):
        inp = {"mode": "replace", "base_kw": kw, "replace": ch, "source": source, "cache": cache}
        if ch and isinstance(b, list) and len(b) >= 2 and b[0] != "EXC":
            nontriv.add(json.dumps([kw, ch, source], sort_keys=True))
        if a != b:
            bad[0] += 1
            verdict.violation({"kind": "replace() differs from the constructor applied to the original arguments "
                                       "with the named parameters changed",
                               "input": inp, "replace_result": a[:12], "constructor_result": b[:12]})
    rec = [0, 0]

    def on_rule(kw):
        """the recorded dictionary itself against the extracted recording model (RReplace.record)"""
        if o is None:
            return
        for source in (("ctor",) if RP.has_empty(kw) else ("ctor", "rrulestr")):
            try:
                impl = RP.record_impl(kw, source)
            except Exception as ex:
                impl = ["EXC", type(ex).__name__]
            model = o.call(40, RP.record_args(kw))
            rec[0] += 1
            if impl != model:
                rec[1] += 1
                verdict.violation({"kind": "correspondence: _original_rule recorded by the constructor differs from "
                                           "the extracted recording model",
                                   "input": {"mode": "replace", "base_kw": kw, "replace": {}, "source": source},
                                   "impl_original_rule": impl, "model_original_rule": model}, concrete=False)
    st = RP.run_stream(tier, C.rng("C12-replace"), 20 if tier == "quick" else 240, on_case, on_rule)
    stats["record_cases"] = rec[0]
    stats["record_disagreements"] = rec[1]
    stats["replace_stream"] = st
    stats["replace_cases"] = st["cases"]
    stats["replace_disagreements"] = bad[0]
    stats["replace_nontrivial"] = len(nontriv)


# ------------------------------------------------------------------ main comparison

def run_rule(recipe, r, o, tier, verdict, stats, samples):
    Ldt = list(R.build(recipe, False))
    L = [R.to_int(x) for x in Ldt]
    n = len(L)
    if any(x.microsecond for x in Ldt) or any(a >= b for a, b in zip(L, L[1:])) or \
            any((x.tzinfo is None) != (recipe.get("tz") is None) for x in Ldt):
        stats["rules_not_strictly_increasing"] += 1
        verdict.violation({"kind": "listed sequence is not strictly increasing (outside the theorems' hypothesis)",
                           "input": {"recipe": recipe}, "L": L}, concrete=False)
        return
    budget = 800 if tier == "quick" else 4000
    qs, sl_full = queries(L, r, budget)
    stats["rules"] += 1
    stats["len_hist"][str(min(n, 40))] = stats["len_hist"].get(str(min(n, 40)), 0) + 1
    stats["kind_hist"][recipe["kind"]] += 1
    if recipe.get("tz") is not None:
        stats["aware_rules"] = stats.get("aware_rules", 0) + 1
    if sl_full:
        stats["rules_with_all_slices"] += 1
    want = [py_spec(L, q) for q in qs]
    # extracted model (both paths) and extracted spec
    reqs = []
    for q in qs:
        m, s, a0 = q_model(0, L, q)
        _, _, a1 = q_model(1, L, q)
        reqs += [(m, a0), (m, a1), (s, a0)]
    res = R.call_many(o, reqs)
    model_gen, model_fast, spec = res[0::3], res[1::3], res[2::3]

    shared_unc = R.build(recipe, False)
    shared_mid = R.build(recipe, False)
    live = iter(shared_mid)
    for _ in range(r.randint(0, n + 1)):
        next(live, None)
    shared_c = R.build(recipe, True)
    complete_c = R.build(recipe, True)
    list(complete_c)
    order = list(range(len(qs)))
    r.shuffle(order)
    frac = 0.25 if n > 8 else 1.0
    for j in order:
        q = qs[j]
        stats["queries"] += 1
        stats["q_hist"][q[0]] += 1
        nontriv = want[j] not in ([2], [1], [4], [5], [3, 0], [0])
        outs = []
        outs.append(("uncached", impl_query(shared_unc, q), model_gen[j]))
        outs.append(("uncached_mid", impl_query(shared_mid, q), model_gen[j]))
        if r.random() < frac:
            outs.append(("cached_fresh", impl_query(R.build(recipe, True), q), model_gen[j]))
        if r.random() < frac:
            rule = R.build(recipe, True)
            it = iter(rule)
            k = r.randint(0, n + 1)
            pre = [next(it, None) for _ in range(k)]
            cflag = rule._cache_complete
            res_q = impl_query(rule, q)
            rest = list(it)
            outs.append(("cached_mid", res_q, model_fast[j] if cflag else model_gen[j]))
            adv_k = k
            seen = [R.to_int(x) for x in pre if x is not None] + [R.to_int(x) for x in rest]
            if seen != L:
                verdict.violation({"kind": "iterator live across a query no longer yields list(rule)",
                                   "input": {"recipe": recipe, "advanced": k, "query": q},
                                   "iterator_saw": seen, "L": L})
        cflag = shared_c._cache_complete
        outs.append(("cached_shared", impl_query(shared_c, q), model_fast[j] if cflag else model_gen[j]))
        outs.append(("cached_complete", impl_query(complete_c, q), model_fast[j]))
        for (mode, got, mod) in outs:
            inp_q = {"recipe": recipe, "query": q, "mode": mode}
            if mode == "cached_mid":
                inp_q["advanced"] = adv_k
            stats["evaluations"] += 1
            stats["mode_hist"][mode] += 1
            if nontriv:
                stats["nontrivial"].add((json.dumps(recipe, sort_keys=True), json.dumps(q), mode))
            if got != want[j]:
                stats["impl_vs_listspec"] += 1
                verdict.violation({"kind": "query disagrees with the listed sequence",
                                   "input": inp_q,
                                   "impl": got, "list_spec": want[j], "L": L})
            elif got != mod:
                stats["impl_vs_model"] += 1
                verdict.violation({"kind": "correspondence: extracted model of the query differs from implementation",
                                   "input": inp_q,
                                   "impl": got, "model": mod}, concrete=False)
        if spec[j] != want[j]:
            stats["coqspec_vs_listspec"] += 1
            verdict.violation({"kind": "machinery: extracted Coq spec differs from the Python list-level spec",
                               "input": {"L": L, "query": q}, "coq_spec": spec[j], "list_spec": want[j]},
                              concrete=False)
        if model_gen[j] != spec[j] or model_fast[j] != spec[j]:
            stats["model_vs_coqspec"] += 1
            if stats["model_vs_coqspec"] <= 3:
                verdict.violation({"kind": "machinery: extracted model and extracted spec disagree (contradicts a theorem "
                                           "unless L is not strictly increasing)", "input": {"L": L, "query": q},
                                   "model_generator_path": model_gen[j], "model_complete_path": model_fast[j],
                                   "spec": spec[j]}, concrete=False)
        if len(samples) < 14 and r.random() < 0.002:
            samples.append({"rule": R.describe(recipe), "n": n, "query": q, "impl_by_mode": {m: g for (m, g, _) in outs},
                            "model_generator_path": model_gen[j], "model_complete_path": model_fast[j],
                            "spec": spec[j]})
    # length learned first (count() / a full listing), then every int index -(2n+2)..n+2 on the SAME object,
    # uncached and cached
    for (mode, cache, learn) in (("uncached_len_known_by_count", False, "count"),
                                ("uncached_len_known_by_list", False, "list"),
                                ("cached_len_known_by_count", True, "count")):
        obj = R.build(recipe, cache)
        if learn == "count":
            obj.count()
        else:
            list(obj)
        ks = list(range(-(2 * n + 2), n + 3))
        reqs2 = []
        for k in ks:
            m, sp, a0 = q_model(1 if cache else 0, L, ["idx", k])
            reqs2.append((m, a0))
        mods = R.call_many(o, reqs2)
        for k, mod in zip(ks, mods):
            q = ["idx", k]
            got = impl_query(obj, q)
            want_k = py_spec(L, q)
            stats["evaluations"] += 1
            stats["mode_hist"][mode] = stats["mode_hist"].get(mode, 0) + 1
            if got != want_k:
                stats["impl_vs_listspec"] += 1
                verdict.violation({"kind": "query disagrees with the listed sequence",
                                   "input": {"recipe": recipe, "query": q, "mode": mode},
                                   "impl": got, "list_spec": want_k, "L": L})
            elif got != mod:
                stats["impl_vs_model"] += 1
                verdict.violation({"kind": "correspondence: extracted model of the query differs from implementation",
                                   "input": {"recipe": recipe, "query": q, "mode": mode},
                                   "impl": got, "model": mod}, concrete=False)
    return


def replay(path):
    data = json.load(open(path))
    C.ensure_built([AREA], VO)
    o = C.Oracle(AREA)
    inp = data.get("input") or {}
    if inp.get("mode") == "replace":
        kw, ch = inp["base_kw"], inp["replace"]
        a, b = RP.one_case(kw, ch, inp.get("source", "ctor"), inp.get("cache", False))
        print("rule       ", "rrulestr(%r)" % RP.render_rfc(kw) if inp.get("source") == "rrulestr" else kw)
        print("replace    ", ch)
        print("impl       ", a, " = list(rule.replace(**kw))[:30]")
        print("spec       ", b, " = list(rrule(**{**original_arguments, **kw}))[:30]")
        print("model      ", "recording model: see coq/rcache/RReplace.v (entry 40) when built")
    elif "recipe" in inp and "query" in inp:
        recipe, q, mode = inp["recipe"], inp["query"], inp.get("mode", "uncached")
        L = [R.to_int(x) for x in R.build(recipe, False)]
        print("rule      ", R.describe(recipe))
        print("L         ", L)
        print("query     ", q, "mode", mode)
        rule = R.build(recipe, mode.startswith("cached"))
        if mode == "cached_complete" or mode.endswith("_by_list"):
            list(rule)
        if mode.endswith("_by_count"):
            rule.count()
        if mode in ("cached_mid", "uncached_mid"):
            it = iter(rule)
            for _ in range(inp.get("advanced", len(L) // 2)):
                next(it, None)
        print("impl      ", impl_query(rule, q))
        m, s, a0 = q_model(0, L, q)
        _, _, a1 = q_model(1, L, q)
        print("model gen ", o.call(m, a0))
        print("model fast", o.call(m, a1))
        print("spec      ", o.call(s, a0))
        print("list spec ", py_spec(L, q))
    else:
        print("replay names a broken obligation or a machinery disagreement, no rule/query input:",
              json.dumps(data, indent=1)[:3000])
    o.close()
    return 0


def translator_status(build_log):
    """harness/gen_rcache.py (run by common.regenerate on every check) regenerates coq/gen/RQueryGen.v and
    coq/gen/RCacheGen.v from /repo's source; when it aborts the files are poisoned and the C11_gen_* /
    C12_gen_* obligations (and with them the whole props file) stop compiling"""
    log = build_log or ""
    out = {"scripts": {}, "status": "ok", "message": None}
    for script, outs in (("gen_rcache.py", ["coq/gen/RQueryGen.v", "coq/gen/RCacheGen.v"]),
                         ("gen_rr_init.py", ["coq/gen/RRInitGen.v"])):
        failed = ("GENERATOR FAILED: %s" % script) in log
        msg = None
        if failed:
            # the generator's own output precedes its GENERATOR FAILED line in the log
            head = log[:log.index("GENERATOR FAILED: %s" % script)]
            ms = re.findall(r"TRANSLATE-ERROR: ([^\n]*)", head)
            msg = ms[-1] if ms else "generator exited non-zero"
            out["status"] = "aborted"
            out["message"] = ("%s: %s" % (script, msg)) if out["message"] is None else out["message"] + "; %s: %s" % (script, msg)
        out["scripts"][script] = {"outputs": outs, "status": "aborted" if failed else "ok", "message": msg}
    return out


def main():
    argv = sys.argv[1:]
    if "--replay" in argv:
        return replay(argv[argv.index("--replay") + 1])
    tier = C.tier_from_argv(argv)
    t0 = time.time()
    verdict = C.Verdict(CID, {"replace_nth": RP.matcher_replace_nth})
    build_err = None
    build_log = ""
    try:
        _ok, build_log = C.ensure_built([AREA], VO)
    except C.BuildError as ex:
        build_err = ex
    translator = translator_status(build_log)
    if build_err is not None:
        props = {"obligations": 1, "discharged": 0, "theorems": [], "assumptions": {},
                 "cmd": "coqc props/C12.v", "log": build_err.log, "ok": False}
    else:
        props = C.compile_props(CID)

    t_built = time.time()
    r = C.rng("C12")
    stats = {"rules": 0, "queries": 0, "evaluations": 0, "impl_vs_listspec": 0, "impl_vs_model": 0,
             "coqspec_vs_listspec": 0, "model_vs_coqspec": 0, "rules_not_strictly_increasing": 0,
             "rules_with_all_slices": 0, "len_hist": {}, "kind_hist": {"rrule": 0, "rruleset": 0},
             "q_hist": {k: 0 for k in ("idx", "slice", "contains", "count", "before", "after", "between", "xafter")},
             "mode_hist": {m: 0 for m in MODES}, "nontrivial": set()}
    samples = []
    have_oracle = os.path.exists(os.path.join(C.BIN, "oracle_" + AREA))
    if have_oracle:
        o = C.Oracle(AREA)
        check_primitives(o, verdict, stats)
        corpus = os.path.join(C.VERIF, "corpus", "regressions", CID + ".jsonl")
        recs = []
        if os.path.exists(corpus):
            for line in open(corpus):
                line = line.strip()
                if line:
                    recs.append(json.loads(line)["recipe"])
        stats["regression_corpus_rules"] = len(recs)
        recs += recipes(tier, r)
        limit = 50 if tier == "quick" else 700
        for recipe in recs:
            if time.time() - t_built > limit:
                stats["stopped_by_time_budget"] = True
                break
            try:
                with R.watchdog(300):
                    run_rule(recipe, r, o, tier, verdict, stats, samples)
            except R.Timeout:
                stats["rule_timeouts"] = stats.get("rule_timeouts", 0) + 1
                verdict.violation({"kind": "a query never completes (rule not finished within 300 s)",
                                   "input": {"recipe": recipe, "query": ["count"], "mode": "uncached"}})
                try:
                    o.p.kill()
                except Exception:
                    pass
                o = C.Oracle(AREA)      # the line protocol may be out of step after the interrupt
                if stats["rule_timeouts"] >= 2:
                    break
            except Exception as ex:
                # the implementation raised outside a query (while listing / iterating the rule)
                stats["rule_level_exceptions"] = stats.get("rule_level_exceptions", 0) + 1
                verdict.violation({"kind": "listing or iterating the rule raised %s" % type(ex).__name__,
                                   "input": {"recipe": recipe, "query": ["count"], "mode": "cached_complete"},
                                   "exception": repr(ex)[:300]})
                if not isinstance(ex, (IndexError, TypeError, ValueError, RuntimeError, StopIteration)):
                    raise
        check_replace(r, tier, verdict, stats, o)
        o.close()
        try:
            stats["coverage"] = anchored_coverage(r, tier)
        except Exception as ex:
            stats["coverage"] = {"error": repr(ex)[:200]}
    else:
        verdict.violation({"kind": "no oracle: the extracted model could not be built", "input": None,
                           "log_tail": (build_err.log if build_err else "")[-2000:]}, concrete=False)

    if not props["ok"] and not any(c for (_p, c) in verdict.violations):
        verdict.violation({"kind": ("translator abort (harness/gen_rcache.py: %s): the regenerated model no longer "
                                    "exists, gen obligations broken" % translator["message"])
                           if translator["status"] == "aborted" else "broken proof obligation",
                           "translator": translator, "theorem_file": "coq/props/C12.v",
                           "theorems": props["theorems"], "discharged": props["discharged"],
                           "input": None, "log_tail": props["log"][-3000:]}, concrete=False)

    rs = stats.get("replace_stream") or {}
    trunc = {"rules_stopped_by_time_budget": bool(stats.get("stopped_by_time_budget")),
             "replace_stream_stopped_by_time_budget": bool(rs.get("stopped_by_time_budget")),
             "rules": stats["rules"], "replace_cases": stats.get("replace_cases", 0),
             "floor_rules": 40 if tier == "quick" else 150, "floor_replace_cases": 800 if tier == "quick" else 8000}
    trunc["truncated"] = bool(trunc["rules_stopped_by_time_budget"] or trunc["replace_stream_stopped_by_time_budget"])
    trunc["below_floor"] = bool(stats["rules"] < trunc["floor_rules"] or trunc["replace_cases"] < trunc["floor_replace_cases"])
    if have_oracle and (stats["rules"] == 0 or trunc["replace_cases"] == 0) and not verdict.violations:
        verdict.violation({"kind": "stream truncated: %d rules, %d replace() cases were run (time budget used up before "
                                   "the stream started: machine overloaded?)" % (stats["rules"], trunc["replace_cases"]),
                           "input": None, "truncation": trunc}, concrete=False)
    rc = verdict.finish()
    nontriv = len(stats.pop("nontrivial"))
    cov = {
        "evaluations": stats["evaluations"],
        "distinct_nontrivial": nontriv,
        "rule": "finite rrules (DAILY count 0..31 + random freq/interval/count/until/BY-parts) and rrulesets "
                "(overlapping members, exclusions); per rule: count, all int indices -(n+2)..n+2, all slices with "
                "components in {None,-(n+1)..n+1} x steps {None,1,-1,2,-2,3} (complete when <= budget, else "
                "boundary-biased sample) + step 0 + huge bounds, every element and +-1 s neighbours and far "
                "instants as contains/before/after (inc both) arguments, pairs of them for between, xafter with "
                "count in {None,0,1,2,n-1,n,n+1,-1}; each query in modes uncached / uncached with a live iterator "
                "/ fresh cached rule / cached rule with a live partially advanced iterator / one shared cached "
                "rule in random query order / cache complete. distinct = (rule, query, mode); non-trivial = the "
                "list-level answer is a value, a non-empty list, True or a non-zero count",
        "exhaustive": False,
        "truncation": trunc,
        "samples": samples[:12],
        "input_distribution": {"rules": stats["rules"], "by_kind": stats["kind_hist"],
                               "by_length": stats["len_hist"], "queries_by_kind": stats["q_hist"],
                               "evaluations_by_mode": stats["mode_hist"],
                               "rules_with_all_slices_enumerated": stats["rules_with_all_slices"],
                               "tz_aware_rules": stats.get("aware_rules", 0)},
        "impl_vs_list_spec_disagreements": stats["impl_vs_listspec"],
        "impl_vs_model_disagreements": stats["impl_vs_model"],
        "coq_spec_vs_python_list_spec_disagreements": stats["coqspec_vs_listspec"],
        "model_vs_coq_spec_disagreements": stats["model_vs_coqspec"],
        "anchored_line_coverage": stats.get("coverage"),
        "primitive_cases_vs_cpython": stats.get("primitive_cases", 0),
        "primitive_disagreements": stats.get("primitive_disagreements", 0),
        "replace_cases": stats.get("replace_cases", 0),
        "replace_distinct_nontrivial": stats.get("replace_nontrivial", 0),
        "replace_disagreements (incl. known findings)": stats.get("replace_disagreements", 0),
        "replace_stream": stats.get("replace_stream"),
        "original_rule_dict_vs_recording_model_cases": stats.get("record_cases", 0),
        "original_rule_dict_vs_recording_model_disagreements": stats.get("record_disagreements", 0),
        "only_differential_tested": ["replace() merging beyond the recording model (the recorded dictionary itself is "
                                     "compared with the extracted model RReplace.record on every base rule)",
                                     "count() publication of _len by rrule._iter/rruleset._iter",
                                     "DST zones (aware rules use fixed-offset zones), non-int / non-slice subscripts"],
        "partial_theorems": [t for t in props["theorems"] if "partial" in t],
        "tie_only": {
            "C12_count": "count l and spec_count l are both zlen l; the content is C12_count_is_number_yielded "
                         "(cached, `_len` field of the transition system) and C12_gen_count_after_any_history "
                         "(uncached, under the assumption `published`: an exhausted generator assigns "
                         "_len = number of items yielded)",
            "C12_getitem": "spec_getitem is py_getitem; x = x on the complete path, for negative ints and slices "
                           "with a negative component; the independent statement is C12_getitem_python_reference "
                           "(explicit index arithmetic + arithmetic-progression slices, rcache/RSliceSpec.v)",
            "C12_cached_path_eq_gen_path": "before/after/between/xafter conjuncts are reflexivity (same loop on "
                                           "either iterable); content: getitem and contains conjuncts",
            "C12_gen_count": "hypothesis `len = None or Some |L|` discharged by C12_gen_count_after_any_history",
        },
        "replace_guard_corner_bysetpos_empty": {
            "status": "proved (C12_replace_setpos_empty, C12_normalize_setpos_empty): the rule differs in the "
                      "attribute _bysetpos only (None instead of ()); rr/RRIter.v reads it through truthiness only",
            "differential_cases": (stats.get("replace_stream") or {}).get("bysetpos_empty_cases", 0)},
        "known_findings_hit": verdict.known_hits,
        "translator": translator,
        "model_tie": "query methods / _iter_cached table / _invalidate_cache / __init__ regenerated from /repo's AST "
                     "by harness/gen_rcache.py on this run and proved equal to the hand-written model (C1x_gen_* "
                     "theorems); plus the differential correspondence below",
    }
    C.write_evidence(CID, tier, t0, props, cov,
                     ["CPython list indexing/slicing and itertools.islice are modelled in coq/rcache/PyList.v "
                      "(compared with the running CPython exhaustively for lengths 0..5 on every run)",
                      "datetime comparison is the integer order of whole seconds since 1970 (naive datetimes; aware "
                      "datetimes of one fixed-offset zone by their wall reading)",
                      "iter(self) on the generator path yields list(rule) (C11 for cached rules)"],
                     len(verdict.violations))
    print("C12 %s: obligations %d/%d, %d rules, %d queries, %d evaluations, impl/list-spec diff %d, impl/model diff %d, %.1fs"
          % (tier, props["discharged"], props["obligations"], stats["rules"], stats["queries"],
             stats["evaluations"], stats["impl_vs_listspec"], stats["impl_vs_model"], time.time() - t0))
    return rc


if __name__ == "__main__":
    sys.exit(main())
