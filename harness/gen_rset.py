#!/usr/bin/env python3
"""Fail-closed translator:  /repo/src/dateutil/rrule.py, class rruleset (+ the two rrulebase methods and
the decorator its mutators go through)  ->  coq/gen/RSetGen.v

Regenerated on every check (harness/common.py runs every harness/gen_*.py).  coq/rset/RSetGenThm.v proves
that every generated definition IS the hand-written model (the literal twin coq/rset/RSetLit.v for
_genitem / _iter, coq/rset/RSetHist.v for the object-level methods) for ALL inputs; props/C10.v restates
these as C10_gen_*.  Anything outside the accepted subset raises TranslateError: the script prints
`TRANSLATE-ERROR: ...`, exits 2, harness/common.py poisons coq/gen/RSetGen.v and props/C10.v stops
compiling (a broken gen obligation of C10 only).

WHAT IS TRANSLATED
  rruleset._genitem.__init__, __next__ (both branches of the StopIteration handler), __lt__ __gt__ __eq__
  __ne__; rrulebase.__init__, rrulebase._invalidate_cache, the decorator _invalidates_cache;
  rruleset.__init__, rrule, rdate, exrule, exdate; rruleset._iter.

VOCABULARY (coq/rset/RSetLit.v, RSetHist.v, RSetGenBase.v)
  an instant is a Z; a member iterator (iter(rrule), iter(sorted dates)) is the `list Z` it still yields;
  a _genitem OBJECT is `litem = ((dt, gen), id)`: id is the serial number of the constructor call
  (object identity: `a is b` = `same a b`), the attribute genlist is the heap list the object was
  appended to (an alias, not stored); a heap list (rlist / exlist / self.genlist) is a `list litem`
  threaded through the code; assigning an attribute of an object updates it inside its heap list
  (`map (fun y => if same y self then .. else y)`); the rruleset object is RSetHist.obj.

CALL TABLE
  advance_iterator(<member iterator g>)     match g with x :: g' => (value x, iterator g') | [] => StopIteration
  advance_iterator(<_genitem o in heap L>)  L := gen_genitem_next L o        (needs `next = __next__` in the class)
  self._genitem(L, g)                       (L, n) := gen_genitem_init (L, n) g   (n: allocation counter)
  iter(self._rdate) / iter(self._exdate)    the (sorted) date list itself
  [iter(x) for x in self._rrule]            the list of member lists (for ..: self._genitem(L, gen) = fold_left)
  self._rdate.sort() / self._exdate.sort()  RSetModel.sortZ
  L.append(self)  L.remove(self)            L ++ [self]   RSetLit.py_remove self L   (list.remove uses __eq__)
  heapq.heapify(L)                          RSetLit.heapify_l HL L
  heapq.heappop(L)  (value dropped)         RSetLit.heappop_rest_l HL L
  heapq.heapreplace(L, o)                   RSetLit.heapreplace_l HL L   only under a test `L and L[0] is o`
  a < b, a > b, a == b, a != b on _genitem  gen_lt / gen_gt / gen_eq / gen_ne (the translated rich comparisons)
  self._invalidate_cache()                  gen_invalidate o
  super(rruleset, self).__init__(cache)     gen_base_init cache
  @_invalidates_cache                       gen_invalidates_cache (fun o => <body>)
  self._cache = []; self._cache_complete = False; self._cache_gen = self._iter()   (exactly these three, in
                                            this order)  RSetGenBase.fresh_cell o  (new cache list + new generator)
  self._cache = []  (alone)                 RSetGenBase.set_cached o ;  self._cache = None  set_uncached o
  self._cache_complete = False / self._len = None          field updates of RSetHist.obj
  self._cache_lock = _thread.allocate_lock(); `if self._cache_lock.locked(): self._cache_lock.release()`
                                            no effect (single-threaded model, RSetHist.v)
  self._len = total  after the loop         outcome FinishedL total  (required; nothing may follow it)
  yield ritem.dt                            outcome YieldedL value rlist exlist total (suspension); the code
                                            after the yield up to the loop head is gen_resume

ACCEPTED SUBSET
  statements: docstring, pass, `x = e`, `x += 1`, the calls of the table as expression statements,
    `try: self.dt = advance_iterator(g) [; more] except StopIteration: ..`, `if c: .. [else: ..]`,
    `while L:` (the generator loop) and `while L and L[0] < o:` (a loop without yield that changes one heap
    list), `for gen in [iter(x) for x in self.<members>]: self._genitem(L, gen)`, `yield o.dt`, `return rv`
  conditions: `L` (non-empty), `L[0] <cmp> o`, `o <cmp> L[0]`, `L[0] is o`, `not c`, `a and b`, `a or b`
    (`not v or ..` on the optional lastdt refines it), `cache`, `self._cache is not None`, `v != o.dt`
  Modelling conventions (as in RSetLit.v): datetimes are truthy (`not lastdt` = `lastdt is None`);
  `self.genlist[0]` in __next__ cannot raise IndexError (self is in its genlist): the empty case returns
  the list unchanged; loops get the fuel S (size_l L) of the list they consume; the attribute _cache of a
  cached set and its generator are the last cell of o_cells.
"""
import ast
import os
import sys


class TranslateError(Exception):
    pass


def fail(msg, node=None):
    where = " (rrule.py line %d)" % node.lineno if node is not None and hasattr(node, "lineno") else ""
    raise TranslateError(msg + where)


def is_name(n, name=None):
    return isinstance(n, ast.Name) and (name is None or n.id == name)


def is_attr(n, base, attr=None):
    return (isinstance(n, ast.Attribute) and is_name(n.value, base) and (attr is None or n.attr == attr))


def is_call(n, fname=None, nargs=None):
    if not isinstance(n, ast.Call) or n.keywords:
        return False
    if fname is not None:
        f = n.func
        if isinstance(fname, tuple):
            if not (isinstance(f, ast.Attribute) and is_name(f.value, fname[0]) and f.attr == fname[1]):
                return False
        elif not is_name(f, fname):
            return False
    return nargs is None or len(n.args) == nargs


def body_nodoc(fn):
    b = list(fn.body)
    if b and isinstance(b[0], ast.Expr) and isinstance(b[0].value, ast.Constant) and isinstance(b[0].value.value, str):
        b = b[1:]
    return b


def plain_args(fn, names, defaults=0):
    a = fn.args
    if a.vararg or a.kwarg or a.kwonlyargs or getattr(a, "posonlyargs", []):
        fail("unexpected signature of %s" % fn.name, fn)
    if [x.arg for x in a.args] != names or len(a.defaults) != defaults:
        fail("unexpected signature of %s: %r" % (fn.name, [x.arg for x in a.args]), fn)


def find(body, kind, name):
    for n in body:
        if isinstance(n, kind) and n.name == name:
            return n
    fail("%s %s not found" % (kind.__name__, name))


CMP = {ast.Lt: "gen_lt", ast.Gt: "gen_gt", ast.Eq: "gen_eq", ast.NotEq: "gen_ne"}
CMPZ = {ast.Lt: "(%s <? %s)", ast.Gt: "(%s >? %s)", ast.Eq: "(%s =? %s)", ast.NotEq: "negb (%s =? %s)"}


# ------------------------------------------------------------------------------------ _genitem
def tr_comparison(cls, name):
    fn = find(cls.body, ast.FunctionDef, name)
    plain_args(fn, ["self", "other"])
    b = body_nodoc(fn)
    if len(b) != 1 or not isinstance(b[0], ast.Return) or not isinstance(b[0].value, ast.Compare):
        fail("%s must be `return self.dt <op> other.dt`" % name, fn)
    c = b[0].value
    if len(c.ops) != 1 or type(c.ops[0]) not in CMPZ or not is_attr(c.left, "self", "dt") \
            or not is_attr(c.comparators[0], "other", "dt"):
        fail("%s must be `return self.dt <op> other.dt`" % name, fn)
    return CMPZ[type(c.ops[0])] % ("dt_of a", "dt_of b")


def split_try(st, node):
    """try: self.dt = advance_iterator(<it>); <more> except StopIteration: <handler>"""
    if not isinstance(st, ast.Try) or st.orelse or st.finalbody or len(st.handlers) != 1:
        fail("unsupported try statement", st)
    h = st.handlers[0]
    if not is_name(h.type, "StopIteration") or h.name is not None:
        fail("only `except StopIteration:` is supported", st)
    first = st.body[0]
    if not (isinstance(first, ast.Assign) and len(first.targets) == 1 and is_attr(first.targets[0], "self", "dt")
            and is_call(first.value, "advance_iterator", 1)):
        fail("a try block must start with `self.dt = advance_iterator(..)`", st)
    return first.value.args[0], st.body[1:], h.body


def tr_genitem_init(cls):
    fn = find(cls.body, ast.FunctionDef, "__init__")
    plain_args(fn, ["self", "genlist", "gen"])

    def finish(s):
        if s["appended"]:
            if s["f_dt"] is None or s["f_gen"] is None or not s["f_genlist"]:
                fail("_genitem.__init__: an object is appended to genlist without dt / gen / genlist being set", fn)
            return "(genlist ++ [((%s, %s), n)], S n)" % (s["f_dt"], s["f_gen"])
        return "(genlist, S n)"

    def stmts(lst, s, k):
        if not lst:
            return k(s)
        st, rest = lst[0], lst[1:]
        if isinstance(st, ast.Pass):
            return stmts(rest, s, k)
        if isinstance(st, ast.Try):
            it, more, handler = split_try(st, fn)
            if not is_name(it, "gen"):
                fail("_genitem.__init__: advance_iterator must be applied to the parameter gen", st)
            if s["gen"] != "gen":
                fail("_genitem.__init__: gen advanced twice", st)
            s1 = dict(s, f_dt="x", gen="gen'")
            ok = stmts(more, s1, lambda s2: stmts(rest, s2, k))
            ko = stmts(handler, dict(s), lambda s2: stmts(rest, s2, k))
            return "match gen with\n    | x :: gen' => %s\n    | [] => %s\n    end" % (ok, ko)
        if isinstance(st, ast.Expr) and is_call(st.value, ("genlist", "append"), 1) and is_name(st.value.args[0], "self"):
            if s["appended"]:
                fail("_genitem.__init__: appended twice", st)
            return stmts(rest, dict(s, appended=True), k)
        if isinstance(st, ast.Assign) and len(st.targets) == 1 and is_attr(st.targets[0], "self"):
            a = st.targets[0].attr
            if a == "genlist" and is_name(st.value, "genlist"):
                return stmts(rest, dict(s, f_genlist=True), k)
            if a == "gen" and is_name(st.value, "gen"):
                return stmts(rest, dict(s, f_gen=s["gen"]), k)
        fail("_genitem.__init__: unsupported statement", st)

    s0 = {"gen": "gen", "f_dt": None, "f_gen": None, "f_genlist": False, "appended": False}
    return stmts(body_nodoc(fn), s0, finish)


def tr_genitem_next(cls):
    fn = find(cls.body, ast.FunctionDef, "__next__")
    plain_args(fn, ["self"])
    ok_alias = any(isinstance(n, ast.Assign) and len(n.targets) == 1 and is_name(n.targets[0], "next")
                   and is_name(n.value, "__next__") for n in cls.body)
    if not ok_alias:
        fail("_genitem: `next = __next__` is missing (advance_iterator(item) would not reach __next__)", cls)

    def is_glist(n):
        return is_attr(n, "self", "genlist")

    def finish(s):
        if s["dirty"]:
            return "map (fun y => if same y self then ((%s, %s), snd y) else y) %s" % (s["dt"], s["gen"], s["L"])
        return s["L"]

    def stmts(lst, s, k):
        if not lst:
            return k(s)
        st, rest = lst[0], lst[1:]
        if isinstance(st, ast.Pass):
            return stmts(rest, s, k)
        if isinstance(st, ast.Try):
            it, more, handler = split_try(st, fn)
            if not is_attr(it, "self", "gen") or s["dirty"]:
                fail("_genitem.__next__: advance_iterator must be applied to self.gen, once", st)
            s1 = dict(s, dt="x", gen="gen'", dirty=True)
            ok = stmts(more, s1, lambda s2: stmts(rest, s2, k))
            ko = stmts(handler, dict(s), lambda s2: stmts(rest, s2, k))
            return "match snd (fst self) with\n    | x :: gen' => %s\n    | [] => %s\n    end" % (ok, ko)
        if isinstance(st, ast.If):
            t = st.test
            if not (isinstance(t, ast.Compare) and len(t.ops) == 1 and isinstance(t.ops[0], ast.Is)
                    and isinstance(t.left, ast.Subscript) and is_glist(t.left.value)
                    and isinstance(t.left.slice, ast.Constant) and t.left.slice.value == 0
                    and is_name(t.comparators[0], "self")):
                fail("_genitem.__next__: only `if self.genlist[0] is self:` is supported", st)
            if s["dirty"]:
                fail("_genitem.__next__: list surgery after the object was modified", st)
            a = stmts(st.body, dict(s), lambda s2: stmts(rest, s2, k))
            b = stmts(st.orelse, dict(s), lambda s2: stmts(rest, s2, k))
            return ("match %s with\n      | h :: _ => if same h self then %s else %s\n      | [] => %s\n      end"
                    % (s["L"], a, b, s["L"]))
        if isinstance(st, ast.Expr) and isinstance(st.value, ast.Call) and not s["dirty"]:
            c = st.value
            if is_call(c, ("heapq", "heappop"), 1) and is_glist(c.args[0]):
                return stmts(rest, dict(s, L="heappop_rest_l HL (%s)" % s["L"]), k)
            if is_call(c, ("heapq", "heapify"), 1) and is_glist(c.args[0]):
                return stmts(rest, dict(s, L="heapify_l HL (%s)" % s["L"]), k)
            if (isinstance(c.func, ast.Attribute) and is_glist(c.func.value) and c.func.attr == "remove"
                    and len(c.args) == 1 and not c.keywords and is_name(c.args[0], "self")):
                return stmts(rest, dict(s, L="py_remove self (%s)" % s["L"]), k)
        fail("_genitem.__next__: unsupported statement", st)

    s0 = {"L": "genlist", "dt": "dt_of self", "gen": "snd (fst self)", "dirty": False}
    return stmts(body_nodoc(fn), s0, finish)


# ------------------------------------------------------------------------------------ object-level methods
MEMBERS = {"_rrule": "m_rr", "_rdate": "m_rd", "_exrule": "m_exr", "_exdate": "m_exd"}
MORDER = ["m_rr", "m_rd", "m_exr", "m_exd"]


def with_member(o, field, new):
    """new may mention the object as `om`"""
    parts = [new if f == field else "%s (o_m om)" % f for f in MORDER]
    return "(let om := %s in with_members om (mkMembers (%s) (%s) (%s) (%s)))" % ((o,) + tuple(parts))


def tr_obj_stmts(lst, o, ctx, where):
    """statements that transform the rruleset object (term o : obj); returns the final term"""
    i = 0
    while i < len(lst):
        st = lst[i]
        tgt = st.targets[0] if isinstance(st, ast.Assign) and len(st.targets) == 1 else None
        # the triple: new cache list + new generator
        if (tgt is not None and is_attr(tgt, "self", "_cache") and isinstance(st.value, ast.List) and not st.value.elts):
            nxt = lst[i + 1:i + 3]
            if (len(nxt) == 2 and all(isinstance(x, ast.Assign) and len(x.targets) == 1 for x in nxt)
                    and is_attr(nxt[0].targets[0], "self", "_cache_complete")
                    and isinstance(nxt[0].value, ast.Constant) and nxt[0].value.value is False
                    and is_attr(nxt[1].targets[0], "self", "_cache_gen")
                    and is_call(nxt[1].value, ("self", "_iter"), 0)):
                o = "fresh_cell (%s)" % o
                i += 3
                continue
            o = "set_cached (%s)" % o
            i += 1
            continue
        if tgt is not None and is_attr(tgt, "self", "_cache") and isinstance(st.value, ast.Constant) and st.value.value is None:
            o = "set_uncached (%s)" % o
        elif tgt is not None and is_attr(tgt, "self", "_cache_complete") and isinstance(st.value, ast.Constant) \
                and st.value.value is False:
            o = "set_complete_false (%s)" % o
        elif tgt is not None and is_attr(tgt, "self", "_len") and isinstance(st.value, ast.Constant) \
                and st.value.value is None:
            o = "set_len_none (%s)" % o
        elif tgt is not None and is_attr(tgt, "self", "_cache_lock") and is_call(st.value, ("_thread", "allocate_lock"), 0):
            pass
        elif (isinstance(st, ast.If) and not st.orelse and is_call(st.test, None, 0)
              and isinstance(st.test.func, ast.Attribute) and st.test.func.attr == "locked"
              and is_attr(st.test.func.value, "self", "_cache_lock") and len(st.body) == 1
              and isinstance(st.body[0], ast.Expr) and is_call(st.body[0].value, None, 0)
              and isinstance(st.body[0].value.func, ast.Attribute) and st.body[0].value.func.attr == "release"
              and is_attr(st.body[0].value.func.value, "self", "_cache_lock")):
            pass
        elif isinstance(st, ast.Expr) and is_call(st.value, ("self", "_invalidate_cache"), 0):
            if not ctx.get("may_invalidate"):
                fail("%s: call of _invalidate_cache not expected here" % where, st)
            o = "gen_invalidate (%s)" % o
        elif (isinstance(st, ast.If) and isinstance(st.test, ast.Compare) and len(st.test.ops) == 1
              and isinstance(st.test.ops[0], ast.IsNot) and is_attr(st.test.left, "self", "_cache")
              and isinstance(st.test.comparators[0], ast.Constant) and st.test.comparators[0].value is None
              and not st.orelse):
            o = "(let o1 := %s in if o_cached o1 then %s else o1)" % (o, tr_obj_stmts(st.body, "o1", ctx, where))
        elif isinstance(st, ast.If) and is_name(st.test, "cache") and ctx.get("cache_param"):
            a = tr_obj_stmts(st.body, "o1", ctx, where)
            b = tr_obj_stmts(st.orelse, "o1", ctx, where)
            o = "(let o1 := %s in if cache then %s else %s)" % (o, a, b)
        elif (isinstance(st, ast.Expr) and isinstance(st.value, ast.Call) and ctx.get("super_init")
              and isinstance(st.value.func, ast.Attribute) and st.value.func.attr == "__init__"
              and is_call(st.value.func.value, "super", 2) and is_name(st.value.func.value.args[0], "rruleset")
              and is_name(st.value.func.value.args[1], "self") and len(st.value.args) == 1
              and not st.value.keywords and is_name(st.value.args[0], "cache")):
            if o != "blank_obj":
                fail("%s: super().__init__ must come first" % where, st)
            o = "gen_base_init cache"
        elif tgt is not None and is_attr(tgt, "self") and tgt.attr in MEMBERS and isinstance(st.value, ast.List) \
                and not st.value.elts and ctx.get("member_init"):
            o = with_member(o, MEMBERS[tgt.attr], "[]")
        elif (isinstance(st, ast.Expr) and isinstance(st.value, ast.Call) and ctx.get("arg")
              and isinstance(st.value.func, ast.Attribute) and st.value.func.attr == "append"
              and is_attr(st.value.func.value, "self") and st.value.func.value.attr in MEMBERS
              and len(st.value.args) == 1 and not st.value.keywords and is_name(st.value.args[0], ctx["arg"])):
            f = MEMBERS[st.value.func.value.attr]
            o = with_member(o, f, "%s (o_m om) ++ [a]" % f)
        else:
            fail("%s: unsupported statement" % where, st)
        i += 1
    return o


def tr_decorator(mod):
    fn = find(mod.body, ast.FunctionDef, "_invalidates_cache")
    plain_args(fn, ["f"])
    b = body_nodoc(fn)
    if len(b) != 2 or not isinstance(b[0], ast.FunctionDef) or not isinstance(b[1], ast.Return) \
            or not is_name(b[1].value, b[0].name):
        fail("_invalidates_cache: expected an inner function and `return` of it", fn)
    inner = b[0]
    if len(inner.decorator_list) != 1 or not is_call(inner.decorator_list[0], "wraps", 1) \
            or not is_name(inner.decorator_list[0].args[0], "f"):
        fail("_invalidates_cache: inner function must be decorated with wraps(f)", inner)
    a = inner.args
    if [x.arg for x in a.args] != ["self"] or a.vararg is None or a.kwarg is None or a.defaults or a.kwonlyargs:
        fail("_invalidates_cache: inner signature must be (self, *args, **kwargs)", inner)
    ib = body_nodoc(inner)
    if len(ib) != 3:
        fail("_invalidates_cache: inner body must be `rv = f(..); self._invalidate_cache(); return rv`", inner)
    c = ib[0]
    if not (isinstance(c, ast.Assign) and len(c.targets) == 1 and is_name(c.targets[0], "rv")
            and isinstance(c.value, ast.Call) and is_name(c.value.func, "f") and len(c.value.args) == 2
            and is_name(c.value.args[0], "self") and isinstance(c.value.args[1], ast.Starred)
            and is_name(c.value.args[1].value, a.vararg.arg) and len(c.value.keywords) == 1
            and c.value.keywords[0].arg is None and is_name(c.value.keywords[0].value, a.kwarg.arg)):
        fail("_invalidates_cache: first statement must be `rv = f(self, *args, **kwargs)`", c)
    if not (isinstance(ib[2], ast.Return) and is_name(ib[2].value, "rv")):
        fail("_invalidates_cache: must end with `return rv`", ib[2])
    return tr_obj_stmts([ib[1]], "f o", {"may_invalidate": True}, "_invalidates_cache")


def tr_mutator(cls, name, argname):
    fn = find(cls.body, ast.FunctionDef, name)
    plain_args(fn, ["self", argname])
    if len(fn.decorator_list) != 1 or not is_name(fn.decorator_list[0], "_invalidates_cache"):
        fail("%s must be decorated with @_invalidates_cache (only)" % name, fn)
    b = body_nodoc(fn)
    if len(b) != 1:
        fail("%s: exactly one statement expected" % name, fn)
    return tr_obj_stmts(b, "o", {"arg": argname}, "rruleset." + name)


# ------------------------------------------------------------------------------------ rruleset._iter
class Env(object):
    def __init__(self):
        self.heap = {}        # python name -> coq term
        self.ver = {}         # python name -> version (bumped on every change)
        self.head = {}        # python name -> coq name of the head when known non-empty at this version
        self.obj = {}         # python name -> (coq term, heap name, heap version at binding)
        self.z = {}           # total
        self.opt = {}         # lastdt -> coq term ; refined: ('Z', term)
        self.facts = set()    # ("head_is", heap, version, objname)
        self.dead = set()     # variables not available (resume function)
        self.n = [0]

    def copy(self):
        e = Env()
        e.heap, e.ver, e.head, e.obj = dict(self.heap), dict(self.ver), dict(self.head), dict(self.obj)
        e.z, e.opt, e.facts, e.dead, e.n = dict(self.z), dict(self.opt), set(self.facts), set(self.dead), self.n
        return e

    def fresh(self, base):
        self.n[0] += 1
        return "%s%d" % (base, self.n[0])

    def set_heap(self, name, term):
        e = self.copy()
        e.heap[name] = term
        e.ver[name] = e.ver.get(name, 0) + 1
        e.head.pop(name, None)
        return e


class IterTr(object):
    def __init__(self, fn):
        self.fn = fn
        self.loops = []       # generated inner-loop Fixpoints (text)
        self.resume = None

    # ---------------------------------------------------------------- conditions -> bool terms
    def obj_of(self, n, env):
        """an expression denoting a _genitem: a bound name or L[0] with known head"""
        if isinstance(n, ast.Name) and n.id in env.obj:
            return env.obj[n.id][0]
        if isinstance(n, ast.Subscript) and isinstance(n.value, ast.Name) and n.value.id in env.heap \
                and isinstance(n.slice, ast.Constant) and n.slice.value == 0:
            h = env.head.get(n.value.id)
            if h is None:
                fail("%s[0] where %s is not known to be non-empty (IndexError possible)" % (n.value.id, n.value.id), n)
            return h
        fail("expected a _genitem expression", n)

    def cond(self, t, env):
        """-> (bool term, facts that hold when true)"""
        if isinstance(t, ast.Name) and t.id in env.heap:
            return "(match %s with [] => false | _ :: _ => true end)" % env.heap[t.id], set()
        if isinstance(t, ast.UnaryOp) and isinstance(t.op, ast.Not):
            if isinstance(t.operand, ast.Name) and t.operand.id in env.heap:
                return "(match %s with [] => true | _ :: _ => false end)" % env.heap[t.operand.id], set()
            c, _ = self.cond(t.operand, env)
            return "(negb %s)" % c, set()
        if isinstance(t, ast.BoolOp) and len(t.values) == 2:
            a, b = t.values
            if isinstance(t.op, ast.And) and isinstance(a, ast.Name) and a.id in env.heap:
                h = env.heap[a.id] + "_h" if env.heap[a.id].isidentifier() else env.fresh("h")
                e2 = env.copy()
                e2.head[a.id] = h
                c, facts = self.cond(b, e2)
                return "(match %s with [] => false | %s :: _ => %s end)" % (env.heap[a.id], h, c), facts
            if isinstance(t.op, ast.Or) and isinstance(a, ast.UnaryOp) and isinstance(a.op, ast.Not) \
                    and isinstance(a.operand, ast.Name):
                v = a.operand.id
                if v in env.heap:
                    h = env.heap[v] + "_h" if env.heap[v].isidentifier() else env.fresh("h")
                    e2 = env.copy()
                    e2.head[v] = h
                    c, _ = self.cond(b, e2)
                    return "(match %s with [] => true | %s :: _ => %s end)" % (env.heap[v], h, c), set()
                if v in env.opt:
                    self.live(v, env, a)
                    e2 = env.copy()
                    e2.opt[v] = ("Z", v + "_v")
                    c, _ = self.cond(b, e2)
                    return "(match %s with None => true | Some %s_v => %s end)" % (env.opt[v], v, c), set()
            fail("unsupported and/or condition", t)
        if isinstance(t, ast.Compare) and len(t.ops) == 1:
            op, l, r = t.ops[0], t.left, t.comparators[0]
            if isinstance(op, ast.Is):
                if isinstance(l, ast.Subscript) and isinstance(l.value, ast.Name) and isinstance(r, ast.Name) \
                        and r.id in env.obj:
                    a = self.obj_of(l, env)
                    return "same %s %s" % (a, env.obj[r.id][0]), {("head_is", l.value.id, env.ver[l.value.id], r.id)}
                fail("unsupported `is` test", t)
            if type(op) in CMP:
                # datetime comparison: <refined lastdt> != o.dt
                if isinstance(l, ast.Name) and l.id in env.opt:
                    self.live(l.id, env, l)
                    v = env.opt[l.id]
                    if not (isinstance(v, tuple) and v[0] == "Z"):
                        fail("%s compared while it may be None" % l.id, t)
                    if not (isinstance(r, ast.Attribute) and r.attr == "dt" and isinstance(r.value, ast.Name)
                            and r.value.id in env.obj):
                        fail("unsupported datetime comparison", t)
                    return CMPZ[type(op)] % (v[1], "dt_of %s" % env.obj[r.value.id][0]), set()
                a = self.obj_of(l, env)
                b = self.obj_of(r, env)
                return "%s %s %s" % (CMP[type(op)], a, b), set()
        fail("unsupported condition", t)

    def live(self, v, env, node):
        if v in env.dead:
            fail("variable %s is read after the yield before being assigned: it is not part of the suspended state" % v, node)

    # ---------------------------------------------------------------- statements (CPS)
    def has_yield(self, nodes):
        return any(isinstance(x, (ast.Yield, ast.YieldFrom)) for n in nodes for x in ast.walk(n))

    def assigned(self, nodes, env):
        """python names of loop-carried variables changed by these statements (no yield inside)"""
        out = []
        for n in nodes:
            for x in ast.walk(n):
                name = None
                if isinstance(x, ast.Assign) and len(x.targets) == 1 and isinstance(x.targets[0], ast.Name):
                    name = x.targets[0].id
                elif isinstance(x, ast.AugAssign) and isinstance(x.target, ast.Name):
                    name = x.target.id
                elif isinstance(x, ast.Call):
                    if is_call(x, "advance_iterator", 1) and isinstance(x.args[0], ast.Name) and x.args[0].id in env.obj:
                        name = env.obj[x.args[0].id][1]
                    elif is_call(x, ("heapq", "heapreplace"), 2) and isinstance(x.args[0], ast.Name):
                        name = x.args[0].id
                if name is not None and (name in env.heap or name in env.z or name in env.opt) and name not in out:
                    out.append(name)
        return out

    def cur(self, name, env):
        if name in env.heap:
            return env.heap[name]
        if name in env.z:
            return env.z[name]
        v = env.opt[name]
        return v if not isinstance(v, tuple) else "Some %s" % v[1]

    def stmts(self, lst, env, k, ind):
        if not lst:
            return k(env)
        st, rest = lst[0], lst[1:]
        pad = "  " * ind
        nxt = lambda e: self.stmts(rest, e, k, ind)
        if isinstance(st, ast.Assign) and len(st.targets) == 1 and isinstance(st.targets[0], ast.Name):
            x, v = st.targets[0].id, st.value
            if isinstance(v, ast.Subscript) and isinstance(v.value, ast.Name) and v.value.id in env.heap:
                o = self.obj_of(v, env)
                e = env.copy()
                e.obj[x] = (x, v.value.id, env.ver[v.value.id])
                e.facts.add(("head_is", v.value.id, env.ver[v.value.id], x))
                return "%slet %s := %s in\n%s" % (pad, x, o, nxt(e))
            if x in env.opt and isinstance(v, ast.Attribute) and v.attr == "dt" and isinstance(v.value, ast.Name) \
                    and v.value.id in env.obj:
                e = env.copy()
                e.dead.discard(x)
                nm = env.fresh(x)
                e.opt[x] = nm
                return "%slet %s := Some (dt_of %s) in\n%s" % (pad, nm, env.obj[v.value.id][0], nxt(e))
            fail("unsupported assignment", st)
        if isinstance(st, ast.AugAssign) and isinstance(st.op, ast.Add) and isinstance(st.target, ast.Name) \
                and st.target.id in env.z and isinstance(st.value, ast.Constant) and st.value.value == 1:
            e = env.copy()
            e.z[st.target.id] = "(%s + 1)" % env.z[st.target.id]
            return nxt(e)
        if isinstance(st, ast.Expr) and isinstance(st.value, ast.Call):
            c = st.value
            if is_call(c, "advance_iterator", 1) and isinstance(c.args[0], ast.Name) and c.args[0].id in env.obj:
                o, hname, hver = env.obj[c.args[0].id]
                if env.ver[hname] != hver or ("head_is", hname, hver, c.args[0].id) not in env.facts:
                    fail("advance_iterator(%s): %s is not known to be in %s any more" % (c.args[0].id, c.args[0].id, hname), st)
                nm = env.fresh(hname)
                e = env.set_heap(hname, nm)
                return "%slet %s := gen_genitem_next %s %s in\n%s" % (pad, nm, env.heap[hname], o, nxt(e))
            if is_call(c, ("heapq", "heapreplace"), 2) and isinstance(c.args[0], ast.Name) and c.args[0].id in env.heap \
                    and isinstance(c.args[1], ast.Name) and c.args[1].id in env.obj:
                hname = c.args[0].id
                if ("head_is", hname, env.ver[hname], c.args[1].id) not in env.facts:
                    fail("heapq.heapreplace(%s, %s) outside a test `%s and %s[0] is %s`"
                         % (hname, c.args[1].id, hname, hname, c.args[1].id), st)
                nm = env.fresh(hname)
                e = env.set_heap(hname, nm)
                return "%slet %s := heapreplace_l HL %s in\n%s" % (pad, nm, env.heap[hname], nxt(e))
            fail("unsupported call statement", st)
        if isinstance(st, ast.Expr) and isinstance(st.value, ast.Yield):
            v = st.value.value
            if not (isinstance(v, ast.Attribute) and v.attr == "dt" and isinstance(v.value, ast.Name)
                    and v.value.id in env.obj):
                fail("only `yield <item>.dt` is supported", st)
            oname = v.value.id
            o, hname, hver = env.obj[oname]
            if hname != "rlist" or env.ver[hname] != hver:
                fail("yield: %s must still be rlist[0] at the yield" % oname, st)
            # the suspended state is (rlist, exlist, total); everything after the yield is gen_resume
            e = Env()
            e.n = env.n
            e.heap = {"rlist": "rlist", "exlist": "exlist"}
            e.ver = {"rlist": 0, "exlist": 0}
            e.head = {"rlist": "rlist_h"}
            e.obj = {oname: (oname, "rlist", 0)}
            e.facts = {("head_is", "rlist", 0, oname)}
            e.z = {"total": "total"}
            e.opt = {"lastdt": "lastdt"}
            e.dead = {"lastdt"}
            others = [n for n in env.obj if n != oname]
            self.mode = "resume"
            body = self.stmts(rest, e, k, 3)
            self.mode = "run"
            txt = ("Definition gen_resume (rlist exlist : list litem) (total : Z)\n"
                   "  : list litem * list litem * option Z * Z :=\n"
                   "  match rlist with\n  | [] => (rlist, exlist, None, total)\n  | rlist_h :: _ =>\n"
                   "      let %s := rlist_h in\n%s\n  end.\n" % (oname, body))
            if self.resume is not None and self.resume != txt:
                fail("two yield points with different continuations", st)
            self.resume = txt
            return "%sYieldedL (dt_of %s) %s %s %s" % (pad, o, env.heap["rlist"], env.heap["exlist"], env.z["total"])
        if isinstance(st, ast.If):
            c, facts = self.cond(st.test, env)
            if self.has_yield([st]):
                et = env.copy()
                et.facts |= facts
                a = self.stmts(st.body, et, lambda e: self.stmts(rest, e, k, ind + 1), ind + 1)
                b = self.stmts(st.orelse, env.copy(), lambda e: self.stmts(rest, e, k, ind + 1), ind + 1)
                return "%sif %s then\n%s\n%selse\n%s" % (pad, c, a, pad, b)
            vs = self.assigned([st], env)
            if not vs:
                fail("if statement without effect", st)
            tup = lambda e: ", ".join(self.cur(v, e) for v in vs) if len(vs) > 1 else self.cur(vs[0], e)
            et = env.copy()
            et.facts |= facts
            a = self.stmts(st.body, et, lambda e: "%s  (%s)" % (pad, tup(e)), ind + 1)
            b = self.stmts(st.orelse, env.copy(), lambda e: "%s  (%s)" % (pad, tup(e)), ind + 1)
            e = env.copy()
            names = []
            for v in vs:
                nm = env.fresh(v)
                names.append(nm)
                if v in e.heap:
                    e = e.set_heap(v, nm)
                elif v in e.z:
                    e.z[v] = nm
                else:
                    e.opt[v] = nm
                    e.dead.discard(v)
            pat = names[0] if len(names) == 1 else "'(%s)" % ", ".join(names)
            return "%slet %s :=\n%s  if %s then\n%s\n%s  else\n%s in\n%s" % (pad, pat, pad, c, a, pad, b, nxt(e))
        if isinstance(st, ast.While):
            return self.inner_loop(st, env, nxt, ind)
        fail("unsupported statement in _iter", st)

    # ---------------------------------------------------------------- `while L and L[0] < o:` (no yield)
    def inner_loop(self, st, env, nxt, ind):
        pad = "  " * ind
        if st.orelse or self.has_yield([st]):
            fail("unsupported inner loop", st)
        t = st.test
        if not (isinstance(t, ast.BoolOp) and isinstance(t.op, ast.And) and len(t.values) == 2
                and isinstance(t.values[0], ast.Name) and t.values[0].id in env.heap):
            fail("inner loop condition must be `L and <test on L[0]>`", st)
        hname = t.values[0].id
        vs = self.assigned(st.body, env)
        if vs != [hname]:
            fail("inner loop must change exactly the heap list %s (changes %r)" % (hname, vs), st)
        free = sorted(set(x.id for n in [t] + st.body for x in ast.walk(n) if isinstance(x, ast.Name) and x.id in env.obj))
        idx = len(self.loops) + 1
        fname = "gen_loop%d" % idx
        e = Env()
        e.n = env.n
        e.heap = {hname: hname}
        e.ver = {hname: 0}
        for f in free:
            e.obj[f] = (f, env.obj[f][1], -1)          # read-only object of another heap
            if env.obj[f][1] == hname:
                fail("inner loop reads an object of the list it changes", st)
        e2 = e.copy()
        e2.head[hname] = hname + "_h"
        c2, facts = self.cond(t.values[1], e2)
        e2.facts |= facts
        saved = self.mode
        self.mode = ("loop", fname)
        body = self.stmts(st.body, e2, lambda ee: "          %s fuel' %s %s" % (fname, ee.heap[hname], " ".join(free)), 5)
        self.mode = saved
        params = " ".join("(%s : litem)" % f for f in free)
        txt = ("Fixpoint %s (fuel : nat) (%s : list litem) %s {struct fuel} : option (list litem) :=\n"
               "  match fuel with\n  | O => None\n  | S fuel' =>\n      match %s with\n      | [] => Some %s\n"
               "      | %s_h :: _ =>\n        if %s then\n%s\n        else Some %s\n      end\n  end.\n"
               % (fname, hname, params, hname, hname, hname, c2, body, hname))
        self.loops.append(txt)
        nm = env.fresh(hname)
        e3 = env.set_heap(hname, nm)
        args = " ".join(env.obj[f][0] for f in free)
        return ("%smatch %s (S (size_l %s)) %s %s with\n%s| None => NoFuelL\n%s| Some %s =>\n%s\n%send"
                % (pad, fname, env.heap[hname], env.heap[hname], args, pad, pad, nm, nxt(e3), pad))

    # ---------------------------------------------------------------- the whole function
    def translate(self):
        fn = self.fn
        plain_args(fn, ["self"])
        body = body_nodoc(fn)
        # ---- set-up: everything before the `while`
        wi = [i for i, s in enumerate(body) if isinstance(s, ast.While)]
        if len(wi) != 1:
            fail("_iter: exactly one top-level while loop expected", fn)
        setup, loop, after = body[:wi[0]], body[wi[0]], body[wi[0] + 1:]
        heaps, out, members = [], [], {"_rdate": "rd", "_rrule": "rr", "_exdate": "exd", "_exrule": "exr"}
        init = {}
        for st in setup:
            tgt = st.targets[0] if isinstance(st, ast.Assign) and len(st.targets) == 1 else None
            if tgt is not None and isinstance(tgt, ast.Name) and isinstance(st.value, ast.List) and not st.value.elts:
                if tgt.id in heaps:
                    fail("_iter: %s re-initialised" % tgt.id, st)
                heaps.append(tgt.id)
                out.append("  let %s := @nil litem in" % tgt.id)
            elif (isinstance(st, ast.Expr) and is_call(st.value, None, 0) and isinstance(st.value.func, ast.Attribute)
                  and st.value.func.attr == "sort" and is_attr(st.value.func.value, "self")
                  and st.value.func.value.attr in ("_rdate", "_exdate")):
                m = members[st.value.func.value.attr]
                out.append("  let %s := sortZ %s in" % (m, m))
            elif isinstance(st, ast.Expr) and is_call(st.value, ("self", "_genitem"), 2):
                L, g = st.value.args
                if not (is_name(L) and L.id in heaps and is_call(g, "iter", 1) and is_attr(g.args[0], "self")
                        and g.args[0].attr in ("_rdate", "_exdate")):
                    fail("_iter: unsupported _genitem call", st)
                out.append("  let '(%s, n) := gen_genitem_init (%s, n) %s in" % (L.id, L.id, members[g.args[0].attr]))
            elif isinstance(st, ast.For):
                it = st.iter
                if not (is_name(st.target, "gen") and not st.orelse and isinstance(it, ast.ListComp)
                        and len(it.generators) == 1 and not it.generators[0].ifs
                        and is_name(it.generators[0].target, "x") and is_call(it.elt, "iter", 1)
                        and is_name(it.elt.args[0], "x") and is_attr(it.generators[0].iter, "self")
                        and it.generators[0].iter.attr in ("_rrule", "_exrule") and len(st.body) == 1
                        and isinstance(st.body[0], ast.Expr) and is_call(st.body[0].value, ("self", "_genitem"), 2)
                        and is_name(st.body[0].value.args[0]) and st.body[0].value.args[0].id in heaps
                        and is_name(st.body[0].value.args[1], "gen")):
                    fail("_iter: unsupported for loop", st)
                L = st.body[0].value.args[0].id
                out.append("  let '(%s, n) := fold_left gen_genitem_init %s (%s, n) in"
                           % (L, members[it.generators[0].iter.attr], L))
            elif tgt is not None and is_name(tgt, "lastdt") and isinstance(st.value, ast.Constant) and st.value.value is None:
                init["lastdt"] = "None"
            elif tgt is not None and is_name(tgt, "total") and isinstance(st.value, ast.Constant) and st.value.value == 0 \
                    and st.value.value is not False:
                init["total"] = "0"
            elif isinstance(st, ast.Expr) and is_call(st.value, ("heapq", "heapify"), 1) and is_name(st.value.args[0]) \
                    and st.value.args[0].id in heaps:
                L = st.value.args[0].id
                out.append("  let %s := heapify_l HL %s in" % (L, L))
            else:
                fail("_iter: unsupported set-up statement", st)
        if heaps != ["rlist", "exlist"] or set(init) != {"lastdt", "total"}:
            fail("_iter: set-up must create rlist, exlist, lastdt = None, total = 0", fn)
        setup_txt = ("Definition gen_setup (rr : list (list Z)) (rd : list Z) (exr : list (list Z)) (exd : list Z)\n"
                     "  : list litem * list litem * option Z * Z :=\n  let n := O in\n%s\n  (rlist, exlist, %s, %s).\n"
                     % ("\n".join(out), init["lastdt"], init["total"]))
        # ---- after the loop: self._len = total
        if not (len(after) == 1 and isinstance(after[0], ast.Assign) and len(after[0].targets) == 1
                and is_attr(after[0].targets[0], "self", "_len") and is_name(after[0].value, "total")):
            fail("_iter: the loop must be followed by exactly `self._len = total`", fn)
        # ---- the generator loop
        if not (is_name(loop.test, "rlist") and not loop.orelse):
            fail("_iter: the generator loop must be `while rlist:`", loop)
        env = Env()
        env.heap = {"rlist": "rlist", "exlist": "exlist"}
        env.ver = {"rlist": 0, "exlist": 0}
        env.head = {"rlist": "rlist_h"}
        env.z = {"total": "total"}
        env.opt = {"lastdt": "lastdt"}
        self.mode = "run"

        def loop_back(e):
            args = (e.heap["rlist"], e.heap["exlist"], self.cur("lastdt", e), e.z["total"])
            if self.mode == "resume":
                return "      (%s, %s, %s, %s)" % args
            return "      gen_run fuel' %s %s %s %s" % args
        body_txt = self.stmts(loop.body, env, loop_back, 3)
        if self.resume is None:
            fail("_iter: no yield found", fn)
        run_txt = ("Fixpoint gen_run (fuel : nat) (rlist exlist : list litem) (lastdt : option Z) (total : Z)\n"
                   "  {struct fuel} : outcome_l :=\n  match fuel with\n  | O => NoFuelL\n  | S fuel' =>\n"
                   "    match rlist with\n    | [] => FinishedL total\n    | rlist_h :: _ =>\n%s\n    end\n  end.\n" % body_txt)
        return setup_txt, self.loops, run_txt, self.resume


# ------------------------------------------------------------------------------------ driver
def translate(src):
    mod = ast.parse(src)
    imp = [n for n in mod.body if isinstance(n, ast.ImportFrom) and n.module == "six"
           and any(a.name == "advance_iterator" and a.asname is None for a in n.names)]
    if not imp:
        fail("`from six import advance_iterator` not found (the call table maps it to next())")
    if not any(isinstance(n, ast.Import) and any(a.name == "heapq" and a.asname is None for a in n.names) for n in mod.body):
        fail("`import heapq` not found")
    base = find(mod.body, ast.ClassDef, "rrulebase")
    rset = find(mod.body, ast.ClassDef, "rruleset")
    if len(rset.bases) != 1 or not is_name(rset.bases[0], "rrulebase"):
        fail("rruleset must derive from rrulebase", rset)
    gi = find(rset.body, ast.ClassDef, "_genitem")
    known = {"_genitem", "__init__", "rrule", "rdate", "exrule", "exdate", "_iter"}
    for n in rset.body:
        if isinstance(n, (ast.FunctionDef, ast.ClassDef)) and n.name not in known:
            fail("rruleset: unexpected member %s" % n.name, n)
        if isinstance(n, ast.Assign):
            fail("rruleset: unexpected class attribute", n)
    gknown = {"__init__", "__next__", "__lt__", "__gt__", "__eq__", "__ne__"}
    for n in gi.body:
        if isinstance(n, ast.FunctionDef) and n.name not in gknown:
            fail("_genitem: unexpected method %s" % n.name, n)
    o = []
    o.append("(* GENERATED by harness/gen_rset.py from /repo/src/dateutil/rrule.py (class rruleset) -- do not edit *)")
    o.append("From Coq Require Import ZArith List Bool.")
    o.append("From V Require Import rset.RSetModel rset.RSetLit rset.RSetHist rset.RSetGenBase.")
    o.append("Import ListNotations.")
    o.append("Open Scope Z_scope.")
    o.append("")
    o.append("(* ---- _genitem: rich comparisons *)")
    for nm in ("__lt__", "__gt__", "__eq__", "__ne__"):
        o.append("Definition gen_%s (a b : litem) : bool := %s." % (nm.strip("_"), tr_comparison(gi, nm)))
    o.append("")
    o.append("(* ---- _genitem.__init__(self, genlist, gen); n = serial number of this constructor call *)")
    o.append("Definition gen_genitem_init (st : list litem * nat) (gen : list Z) : list litem * nat :=")
    o.append("  let (genlist, n) := st in\n    %s." % tr_genitem_init(gi))
    o.append("")
    o.append("(* ---- rrulebase._invalidate_cache, rrulebase.__init__, the decorator *)")
    fi = find(base.body, ast.FunctionDef, "_invalidate_cache")
    plain_args(fi, ["self"])
    o.append("Definition gen_invalidate (o : obj) : obj :=\n  %s." % tr_obj_stmts(body_nodoc(fi), "o", {}, "rrulebase._invalidate_cache"))
    fb = find(base.body, ast.FunctionDef, "__init__")
    plain_args(fb, ["self", "cache"], 1)
    if not (isinstance(fb.args.defaults[0], ast.Constant) and fb.args.defaults[0].value is False):
        fail("rrulebase.__init__: default of cache must be False", fb)
    o.append("Definition gen_base_init (cache : bool) : obj :=\n  %s."
             % tr_obj_stmts(body_nodoc(fb), "blank_obj", {"may_invalidate": True, "cache_param": True}, "rrulebase.__init__"))
    o.append("Definition gen_invalidates_cache (f : obj -> obj) (o : obj) : obj :=\n  %s." % tr_decorator(mod))
    o.append("")
    o.append("(* ---- rruleset.__init__ and the four mutators *)")
    fr = find(rset.body, ast.FunctionDef, "__init__")
    plain_args(fr, ["self", "cache"], 1)
    if not (isinstance(fr.args.defaults[0], ast.Constant) and fr.args.defaults[0].value is False):
        fail("rruleset.__init__: default of cache must be False", fr)
    o.append("Definition gen_rruleset_init (cache : bool) : obj :=\n  %s."
             % tr_obj_stmts(body_nodoc(fr), "blank_obj", {"super_init": True, "member_init": True}, "rruleset.__init__"))
    for nm, ty in (("rrule", "list Z"), ("rdate", "Z"), ("exrule", "list Z"), ("exdate", "Z")):
        o.append("Definition gen_%s (o : obj) (a : %s) : obj :=\n  gen_invalidates_cache (fun o => %s) o."
                 % (nm, ty, tr_mutator(rset, nm, nm)))
    o.append("")
    o.append("Section WithHeapL.")
    o.append("Variable HL : heap_ops_l.")
    o.append("")
    o.append("(* ---- _genitem.__next__(self): returns self.genlist after the call *)")
    o.append("Definition gen_genitem_next (genlist : list litem) (self : litem) : list litem :=")
    o.append("    %s." % tr_genitem_next(gi))
    o.append("")
    o.append("(* ---- rruleset._iter: set-up, the exclusion loop, the generator loop up to the next yield /")
    o.append("   the end (self._len = total), and the code between the yield and the loop head *)")
    setup_txt, loops, run_txt, resume_txt = IterTr(find(rset.body, ast.FunctionDef, "_iter")).translate()
    o.append(setup_txt)
    for l in loops:
        o.append(l)
    o.append(run_txt)
    o.append(resume_txt)
    o.append("End WithHeapL.")
    return "\n".join(o) + "\n"


if __name__ == "__main__":
    here = os.path.dirname(os.path.dirname(os.path.abspath(__file__)))
    repo = os.environ.get("VERIF_REPO", "/repo")
    src_path = sys.argv[1] if len(sys.argv) > 1 else os.path.join(repo, "src/dateutil/rrule.py")
    out_path = sys.argv[2] if len(sys.argv) > 2 else os.path.join(here, "coq/gen/RSetGen.v")
    try:
        txt = translate(open(src_path).read())
    except TranslateError as ex:
        print("TRANSLATE-ERROR: %s" % ex)
        sys.exit(2)
    except RecursionError:
        print("TRANSLATE-ERROR: recursion limit")
        sys.exit(2)
    try:
        old = open(out_path).read()
    except OSError:
        old = None
    if old != txt:
        open(out_path, "w").write(txt)
        print("regenerated", out_path)
