#!/usr/bin/env python3
"""C15 -- parse() options: default fill-in, time-zone resolution and fuzzy modes.

Theorems (coq/props/C15.v) over the hand model coq/parse/*; correspondence of the real
dateutil.parser.parse with the extracted model; and the implementation compared directly with the
extracted executable SPEC (coq/parse/ParseSpec.v: spec_fill, spec_zone) and with the property's
self-checking relations (ignoretz, fuzzy_with_tokens vs fuzzy, strict => fuzzy, skipped text in
order, single-date sentences)."""
import json
import os
import re
import sys
import time

sys.path.insert(0, os.path.dirname(os.path.abspath(__file__)))
import common as C

# pinned environment (explicit, not inherited); the check switches TZ itself per stream
os.environ["TZ"] = "UTC"
os.environ["PYTHONINTMAXSTRDIGITS"] = "4300"
C.reexec_under_impl_python()
import parse_common as PC

CID = "C15"
VO = ["props/C15.vo"] + PC.VO_MODEL
E_FILL, E_ZONE = 10, 11
TZ_SETTINGS = ["UTC", "EST5EDT", "GMT0BST"]
DEFAULTS = [(2003, 9, 25, 0, 0, 0, 0), (2000, 1, 31, 0, 0, 0, 0), (2001, 3, 30, 12, 34, 56, 789),
            (2004, 2, 29, 1, 2, 3, 4), (2023, 5, 31, 0, 0, 0, 0), (2003, 1, 29, 0, 0, 0, 0),
            (2003, 7, 31, 8, 0, 0, 0), (2003, 12, 31, 23, 59, 59, 999999), (1999, 10, 30, 0, 0, 0, 0),
            (9999, 12, 31, 0, 0, 0, 0), (9999, 12, 27, 0, 0, 0, 0), (1, 1, 1, 0, 0, 0, 0), (2100, 2, 28, 0, 0, 0, 0)]


# ---------------------------------------------------------------------------- known finding (D15)

def m_second_ampm(payload):
    """strict parse succeeds, fuzzy differs, AND the guard of theorem C15_fuzzy_conservative_guarded fails on
    this input: evaluated on the extracted model (strict_clash = the strict run reaches an AM/PM word while
    an AM/PM flag is already set; C15_guard_computable), so matcher = complement of the theorem's guard"""
    inp = payload.get("input")
    if not (payload.get("kind", "").startswith("fuzzy_conservative") and isinstance(inp, dict)):
        return False
    if PC.ampm_word_count(inp.get("s", "")) < 2:
        return False
    # ... and the two results differ ONLY by the second word's hour adjustment: same date, minute, second,
    # microsecond, fold, warning and zone; hours 12 apart (pm adds 12 below 12, am turns 12 into 0)
    st, fz = payload.get("impl_strict"), payload.get("impl_fuzzy")
    if not (st and fz and st[0] == "ok" and fz[0] == "ok"):
        return False
    d1, d2 = list(st[1]), list(fz[1])
    if not (d1[:3] == d2[:3] and d1[4:] == d2[4:] and abs(d1[3] - d2[3]) == 12 and list(st[2:5]) == list(fz[2:5])):
        return False
    return PC.model_strict_clash(PC.opts_from_json(inp.get("opts")), inp["s"])


def m_tzlocal_range(payload):
    """zone resolution fails ONLY by OverflowError where the table says local zone, AND the guard of
    C15_tz_cascade_lz fails: the text resolves to tz.tzlocal under the case's process time zone and the
    extracted Local.tzlocal_raises is true at the wall time (daylight-saving zone, standard time in force,
    wall time within |dst_saved| of datetime.min / datetime.max)"""
    inp = payload.get("input")
    if not (payload.get("kind", "").startswith("zone resolution") and isinstance(inp, dict) and inp.get("tz")):
        return False
    impl, spec = payload.get("impl"), payload.get("spec")
    if not (impl and list(impl) == ["OverflowError"] and spec and spec[0] == "ok"):
        return False
    return PC.tzlocal_range_hit(PC.opts_from_json(inp.get("opts")), inp["s"], inp["tz"])


MATCHERS = {"m_second_ampm": m_second_ampm, "m_tzlocal_range": m_tzlocal_range}


# ---------------------------------------------------------------------------- stream 1: default fill

def gen_fill(r):
    """partial date/time text built from a chosen subset of fields"""
    y = r.choice([1000, 1999, 2000, 2003, 2004, 2024, 2100, 9999]) if r.random() < 0.6 else r.randint(1000, 9999)
    mo = r.randint(1, 12)
    d = r.choice([1, 10, 13, 28, 29, 30, 31]) if r.random() < 0.6 else r.randint(1, 31)
    h, mi, s = r.randint(0, 23), r.randint(0, 59), r.randint(0, 59)
    us = r.choice([0, 5, 250000, 999999, 123456, 100])
    wd = r.randint(0, 6)
    mon = r.choice([PC.MON3[mo - 1], PC.MONFULL[mo - 1]])
    dshape = r.choice(["", "", "Y", "M", "D", "YM", "YM2", "YM3", "MD", "DM", "YMD", "MDY", "DMY"])
    f = {"y": None, "mo": None, "d": None, "h": None, "mi": None, "s": None, "us": None, "wd": None}
    dtxt = ""
    if dshape == "Y":
        dtxt, f["y"] = "%04d" % y, y
    elif dshape == "M":
        dtxt, f["mo"] = mon, mo
    elif dshape == "D":
        dtxt, f["d"] = "%d" % d, d
    elif dshape == "YM":
        dtxt, f["y"], f["mo"] = "%s %04d" % (mon, y), y, mo
    elif dshape == "YM2":
        dtxt, f["y"], f["mo"] = "%04d %s" % (y, mon), y, mo
    elif dshape == "YM3":
        dtxt, f["y"], f["mo"] = "%04d-%02d" % (y, mo), y, mo
    elif dshape == "MD":
        dtxt, f["mo"], f["d"] = "%s %d" % (mon, d), mo, d
    elif dshape == "DM":
        dtxt, f["mo"], f["d"] = "%d %s" % (d, mon), mo, d
    elif dshape == "YMD":
        dtxt, f["y"], f["mo"], f["d"] = "%04d-%02d-%02d" % (y, mo, d), y, mo, d
    elif dshape == "MDY":
        dtxt, f["y"], f["mo"], f["d"] = "%s %d, %04d" % (mon, d, y), y, mo, d
    elif dshape == "DMY":
        dtxt, f["y"], f["mo"], f["d"] = "%d %s %04d" % (d, mon, y), y, mo, d
    tshape = r.choice(["", "", "h", "hm", "hms", "hmsu"])
    ttxt = ""
    if tshape == "h":
        ttxt, f["h"] = "%dh" % h, h
    elif tshape == "hm":
        ttxt, f["h"], f["mi"] = "%02d:%02d" % (h, mi), h, mi
    elif tshape == "hms":
        # a seconds field carries its fraction: "SS" means SS.000000
        ttxt, f["h"], f["mi"], f["s"], f["us"] = "%02d:%02d:%02d" % (h, mi, s), h, mi, s, 0
    elif tshape == "hmsu":
        ttxt, f["h"], f["mi"], f["s"], f["us"] = "%02d:%02d:%02d.%06d" % (h, mi, s, us), h, mi, s, us
    wtxt = ""
    if r.random() < 0.35:
        wtxt, f["wd"] = r.choice([PC.WD3[wd], PC.WEEKDAYS[2 * wd + 1]]), wd
    parts = [p for p in (wtxt, dtxt, ttxt) if p]
    if not parts:
        return gen_fill(r)
    text = " ".join(parts)
    o = PC.default_opts()
    o["default"] = r.choice(DEFAULTS)
    return o, text, f


def fill_args(f, default):
    out = []
    for k in ("y", "mo", "d", "h", "mi", "s", "us", "wd"):
        out += [0, 0] if f[k] is None else [1, f[k]]
    return out + list(default)


def dec_fill(r):
    if isinstance(r, list) and r and r[0] == 0:
        return ("ok", tuple(r[1:8]))
    if r == [1]:
        return ("ParserError",)
    if r == [2]:
        return ("OverflowError",)
    return ("ORACLE", r)


# ---------------------------------------------------------------------------- stream 2: zones

TZNAMES = ["UTC", "GMT", "Z", "z", "EST", "EDT", "BST", "BRST", "AAA", "BBB", "CCC", "X", "CEST", "PST", "ABCDE"]


def gen_zone_text(r):
    """(text after the time, name | None, offset seconds as written | None, posix_form)"""
    hh = r.choice([0, 0, 1, 3, 5, 9, 10, 12, 14, 23]) if r.random() < 0.7 else r.randint(0, 23)
    mm = r.choice([0, 0, 0, 30, 45, 59, 1])
    sign = r.choice(["+", "-"])
    sg = 1 if sign == "+" else -1
    name = r.choice(TZNAMES)
    shape = r.choice(["none", "name", "name", "off2", "off4", "offc", "posix", "paren", "zattached", "off1"])
    if shape == "none":
        return "", None, None, False
    if shape == "name":
        return " " + name, name, None, False
    if shape == "zattached":
        return "Z", "Z", None, False
    if shape == "off1":
        h1 = hh % 10
        return " %s%d" % (sign, h1), None, sg * h1 * 3600, False
    if shape == "off2":
        return " %s%02d" % (sign, hh), None, sg * hh * 3600, False
    if shape == "off4":
        return "%s%s%02d%02d" % (r.choice(["", " "]), sign, hh, mm), None, sg * (hh * 3600 + mm * 60), False
    if shape == "offc":
        return " %s%02d:%02d" % (sign, hh, mm), None, sg * (hh * 3600 + mm * 60), False
    if shape == "posix":
        h1 = r.choice([0, 1, 3, 5, 9, 11, 12])
        return " %s%s%d" % (name, sign, h1), name, sg * h1 * 3600, True
    if shape == "paren":
        if len(name) < 3:
            name = "BRST"
        return " %s%02d%02d (%s)" % (sign, hh, mm, name), name, sg * (hh * 3600 + mm * 60), False
    raise AssertionError(shape)


def gen_zone_case(r):
    o = PC.default_opts()
    o["default"] = r.choice([(2003, 1, 15, 0, 0, 0, 0), (2003, 7, 15, 0, 0, 0, 0), (2003, 10, 26, 0, 0, 0, 0),
                             (2003, 3, 30, 0, 0, 0, 0), (2003, 1, 15, 0, 0, 0, 0), (2003, 7, 15, 0, 0, 0, 0),
                             (2003, 10, 26, 0, 0, 0, 0), (2003, 3, 30, 0, 0, 0, 0),
                             (1, 1, 1, 0, 0, 0, 0), (9999, 12, 31, 0, 0, 0, 0)])   # the ends of the datetime range
    o["tzinfos"] = r.choice(PC.TZINFOS_CHOICES)
    h, mi = r.choice([(10, 30), (1, 30), (0, 0), (23, 59), (2, 15), (0, 59), (1, 0)])
    ztxt, name, off, posix = gen_zone_text(r)
    return o, "%02d:%02d%s" % (h, mi, ztxt), (h, mi, name, off, posix)


def zone_args(o, sem, nm):
    h, mi, name, off, posix = sem
    return PC.enc_opts(o, nm) + [0 if name is None else 1] + PC.enc_str(name or "") + \
        [0 if off is None else 1, off or 0, int(posix)]


def dec_zone(r):
    if isinstance(r, list) and r and r[0] == 0:
        warned, zk, za, hn = r[1], r[2], r[3], r[4]
        k = r[5]
        name = "".join(map(chr, r[6:6 + k])) if hn else None
        return ("ok", warned, (zk, za, name if zk == 2 else None))
    if r == [2]:
        return ("OverflowError",)
    if isinstance(r, list) and r and r[0] == 3:
        return ("escape", "TypeError")
    return ("ORACLE", r)


def local_matches(o, sem):
    """does the local zone report the effective abbreviation at the wall time (either fold)?"""
    import datetime as _dt
    from dateutil import tz
    h, mi, name, off, posix = sem
    eff = name
    if posix and eff is not None and eff.lower() in ("utc", "gmt", "z"):
        eff = None          # NAME+h with a UTC alias: the alias is dropped
    if eff in ("Z", "z") or (eff is None and off == 0):
        eff = "UTC"
    y, mo, d = o["default"][:3]
    # from the `time` module only (parse_common.local_tzname_bits), not from dateutil's tz.tzlocal
    return PC.local_tzname_bits((y, mo, d, h, mi, 0, 0), eff)


# ---------------------------------------------------------------------------- stream 4: fuzzy

def gen_sentence(r):
    dt = PC.gen_dt(r)
    y, mo, d, h, mi, s, us = dt
    if y < 1000:
        y = 1000 + y % 9000
        import calendar
        d = min(d, calendar.monthrange(y, mo)[1])
    forms = [
        ("%s %d, %04d %02d:%02d" % (PC.MONFULL[mo - 1], d, y, h, mi), (y, mo, d, h, mi, None, None)),
        ("%04d-%02d-%02d %02d:%02d:%02d" % (y, mo, d, h, mi, s), (y, mo, d, h, mi, s, 0)),
        ("%d %s %04d" % (d, PC.MON3[mo - 1], y), (y, mo, d, None, None, None, None)),
        ("%04d-%02d-%02d" % (y, mo, d), (y, mo, d, None, None, None, None)),
        ("%s %d, %04d" % (PC.MON3[mo - 1], d, y), (y, mo, d, None, None, None, None)),
        ("%02d/%02d/%04d %02d:%02d" % (mo, d, y, h, mi), (y, mo, d, h, mi, None, None)),
    ]
    txt, fields = r.choice(forms)
    pre = " ".join(r.choice(PC.FILLER) for _ in range(r.randint(0, 4)))
    post = " ".join(r.choice(PC.FILLER) for _ in range(r.randint(0, 4)))
    s_ = " ".join(p for p in (pre, txt, post) if p)
    o = PC.default_opts()
    o["fuzzy"] = True
    o["default"] = r.choice(DEFAULTS[:8])
    f = dict(zip(("y", "mo", "d", "h", "mi", "s", "us"), fields))
    f["wd"] = None
    return o, s_, f


def norm_text(s):
    # the lexer maps every white-space character to ' ', drops NUL, and rewrites the decimal comma of a
    # digits,digits token to '.' (also inside tokens that end up skipped): compare modulo these
    return "".join(" " if ch.isspace() else ("." if ch == "," else ch) for ch in s if ch != "\x00")


def tokens_in_order(s, toks):
    """every skipped string occurs in the (whitespace-normalised) text, after the previous one"""
    t = norm_text(s)
    pos = 0
    for tok in toks:
        tok = tok.replace(",", ".")
        k = t.find(tok, pos)
        if k < 0:
            return False
        pos = k + len(tok)
    return True


# ---------------------------------------------------------------------------- main

def replay(path):
    data = json.load(open(path))
    C.ensure_built([PC.AREA], VO)
    PC.install_watchdog()
    inp = data.get("input")
    if isinstance(inp, dict) and "s" in inp:
        if inp.get("tz"):
            PC.set_tz(inp["tz"])
        o = PC.opts_from_json(inp.get("opts"))
        s = inp["s"]
        print("input  %r  opts=%r tz=%s" % (s, PC.opts_public(o), inp.get("tz", "UTC")))
        orc = C.Oracle(PC.AREA)
        print("impl   ", PC.run_impl(o, s))
        print("model  ", PC.run_model(orc, [(o, s)])[0])
        if "fill" in inp:
            print("spec   ", dec_fill(orc.call(E_FILL, fill_args(inp["fill"], o["default"]))))
        if "sem" in inp:
            nm = local_matches(o, inp["sem"])
            print("spec   ", dec_zone(orc.call(E_ZONE, zone_args(o, inp["sem"], nm))))
        if data.get("kind", "").startswith("fuzzy_conservative"):
            o2 = dict(o)
            o2["fuzzy"] = True
            print("impl fuzzy=True ", PC.run_impl(o2, s))
        orc.close()
    else:
        print("replay names a broken obligation, no concrete input:", json.dumps(data, indent=1)[:2000])
    return 0


def main():
    argv = sys.argv[1:]
    if "--replay" in argv:
        return replay(argv[argv.index("--replay") + 1])
    tier = C.tier_from_argv(argv)
    t0 = time.time()
    verdict = C.Verdict(CID, MATCHERS)
    build_err = None
    try:
        C.ensure_built([PC.AREA], VO)
    except C.BuildError as ex:
        build_err = ex
    if build_err is not None:
        props = {"obligations": 0, "discharged": 0, "theorems": [], "assumptions": {},
                 "cmd": "coqc props/C15.v", "log": build_err.log, "ok": False}
    else:
        props = C.compile_props(CID)
    PC.install_watchdog()
    scale = 1 if tier == "quick" else 25
    orc = C.Oracle(PC.AREA)
    hist = {}
    samples = []
    nontrivial = set()
    stats = {"fill_spec_diff": 0, "zone_spec_diff": 0, "ignoretz_diff": 0, "fwt_vs_fuzzy_diff": 0,
             "skipped_order_diff": 0, "fuzzy_conservative_diff": 0, "sentence_diff": 0, "model_diff": 0}
    all_cases = []   # (opts, s, impl outcome, tz) for the model correspondence

    def note(kind):
        hist[kind] = hist.get(kind, 0) + 1

    PC.set_tz("UTC")
    # regression corpus first
    reg = os.path.join(C.VERIF, "corpus", "regressions", CID + ".jsonl")
    if os.path.exists(reg):
        for line in open(reg):
            if line.strip():
                d = json.loads(line)
                o = PC.opts_from_json(d.get("opts"))
                all_cases.append((o, d["s"], PC.run_impl(o, d["s"]), "UTC"))
                note("regression")

    # ---- stream 1: default fill-in vs spec_fill
    PC.set_tz("UTC")
    r = C.rng("C15-fill")
    fills = [gen_fill(r) for _ in range(6000 * scale)]
    spec = orc.call_many([(E_FILL, fill_args(f, o["default"])) for (o, s, f) in fills])
    for (o, s, f), sp in zip(fills, spec):
        a = PC.run_impl(o, s)
        e = dec_fill(sp)
        note("fill")
        all_cases.append((o, s, a, "UTC"))
        ok = (a[0] == e[0]) and (a[0] != "ok" or (a[1] == e[1] and a[4][0] == 0))
        if not ok:
            stats["fill_spec_diff"] += 1
            verdict.violation({"kind": "default fill-in: implementation differs from spec_fill",
                               "input": {"s": s, "opts": o, "fill": f}, "impl": a, "spec": e})
        if sum(v is not None for v in f.values()) < 7:
            nontrivial.add(("fill", s, o["default"]))
        if len(samples) < 4:
            samples.append({"stream": "fill", "s": s, "default": o["default"], "impl": a, "spec": e})

    # ---- stream 2/3: zone resolution vs spec_zone under several process time zones; ignoretz
    for tzname in TZ_SETTINGS:
        PC.set_tz(tzname)
        r = C.rng("C15-zone-" + tzname)
        zs = [gen_zone_case(r) for _ in range(2500 * scale)]
        nms = [local_matches(o, sem) for (o, s, sem) in zs]
        spec = orc.call_many([(E_ZONE, zone_args(o, sem, nm)) for (o, s, sem), nm in zip(zs, nms)])
        model = PC.run_model(orc, [(o, s) for (o, s, sem) in zs])
        for (o, s, sem), sp, mdl in zip(zs, spec, model):
            a = PC.run_impl(o, s)
            e = dec_zone(sp)
            note("zone/" + tzname)
            y, mo, d = o["default"][:3]
            exp_dt = (y, mo, d, sem[0], sem[1], 0, 0)
            if e[0] == "ok":
                ok = a[0] == "ok" and a[1] == exp_dt and a[3] == e[1] and a[4] == e[2]
            else:
                ok = a[:2] == e[:2]
            if not ok:
                stats["zone_spec_diff"] += 1
                verdict.violation({"kind": "zone resolution: implementation differs from spec_zone",
                                   "input": {"s": s, "opts": o, "sem": list(sem), "tz": tzname}, "impl": a, "spec": e})
            if not PC.same_outcome(a, mdl, False):
                stats["model_diff"] += 1
                verdict.violation({"kind": "correspondence: implementation and extracted model disagree",
                                   "input": {"s": s, "opts": o, "tz": tzname}, "impl": a, "model": mdl},
                                  concrete=False)
            # ignoretz: same wall time, no zone
            o2 = dict(o)
            o2["ignoretz"] = True
            b = PC.run_impl(o2, s)
            good = (b == a) if a[0] != "ok" and a[0] != "OverflowError" else True
            if a[0] == "ok":
                good = b[0] == "ok" and b[1] == a[1] and b[4] == (0, 0, None)
            if not good:
                stats["ignoretz_diff"] += 1
                verdict.violation({"kind": "ignoretz: wall time differs or a zone is attached",
                                   "input": {"s": s, "opts": o, "tz": tzname}, "impl": a, "impl_ignoretz": b})
            if sem[2] is not None or sem[3] is not None:
                nontrivial.add(("zone", tzname, s, json.dumps(o["tzinfos"], default=str), o["default"]))
            if hist["zone/" + tzname] <= 2:
                samples.append({"stream": "zone", "tz": tzname, "s": s, "tzinfos": o["tzinfos"], "impl": a, "spec": e})
    PC.set_tz("UTC")

    # ---- stream 4: fuzzy relations
    r = C.rng("C15-fuzzy")
    sents = [gen_sentence(r) for _ in range(3000 * scale)]
    spec = orc.call_many([(E_FILL, fill_args(f, o["default"])) for (o, s, f) in sents])
    for (o, s, f), sp in zip(sents, spec):
        a = PC.run_impl(o, s)
        e = dec_fill(sp)
        note("fuzzy-sentence")
        all_cases.append((o, s, a, "UTC"))
        if not (a[0] == e[0] and (a[0] != "ok" or a[1] == e[1])):
            stats["sentence_diff"] += 1
            verdict.violation({"kind": "fuzzy: sentence with one date does not give that date",
                               "input": {"s": s, "opts": o, "fill": f}, "impl": a, "spec": e})
        nontrivial.add(("sentence", s, o["default"]))
        if hist["fuzzy-sentence"] <= 3:
            samples.append({"stream": "fuzzy-sentence", "s": s, "impl": a, "spec": e})
    # fuzzy_with_tokens vs fuzzy, skipped text in order, strict => fuzzy on arbitrary texts
    r = C.rng("C15-rel")
    texts = []
    for _ in range(12000 * scale):
        c = r.random()
        if c < 0.3:
            texts.append(PC.gen_fuzz(r))
        elif c < 0.5:
            texts.append(gen_sentence(r)[1])
        elif c < 0.75:
            texts.append(PC.render_some(r, PC.gen_dt(r)))
        else:
            texts.append(PC.mutate(r, PC.render_some(r, PC.gen_dt(r))))
    texts += ["10:00 am pm", "10 am pm", "3 pm am", "12:00 a p"]
    for s in texts:
        o = PC.default_opts()
        o["default"] = r.choice(DEFAULTS[:8])
        if r.random() < 0.3:
            o["dayfirst"] = r.choice([True, False])
            o["yearfirst"] = r.choice([True, False])
        strict = PC.run_impl(o, s)
        of = dict(o)
        of["fuzzy"] = True
        fz = PC.run_impl(of, s)
        ot = dict(o)
        ot["fwt"] = True
        ft = PC.run_impl(ot, s)
        note("fuzzy-relations")
        all_cases.append((o, s, strict, "UTC"))
        all_cases.append((of, s, fz, "UTC"))
        all_cases.append((ot, s, ft, "UTC"))
        if fz[:5] != ft[:5]:
            stats["fwt_vs_fuzzy_diff"] += 1
            verdict.violation({"kind": "fuzzy_with_tokens: datetime differs from fuzzy=True",
                               "input": {"s": s, "opts": o}, "impl_fuzzy": fz, "impl_fwt": ft})
        if ft[0] == "ok" and not tokens_in_order(s, ft[5]):
            stats["skipped_order_diff"] += 1
            verdict.violation({"kind": "fuzzy_with_tokens: skipped text is not in order of appearance",
                               "input": {"s": s, "opts": o}, "impl_fwt": ft})
        if strict[0] == "ok" and fz[:5] != strict[:5]:
            stats["fuzzy_conservative_diff"] += 1
            verdict.violation({"kind": "fuzzy_conservative: text accepted without fuzzy gives a different "
                                       "result with fuzzy=True",
                               "input": {"s": s, "opts": o}, "impl_strict": strict, "impl_fuzzy": fz})
        if strict[0] == "ok":
            nontrivial.add(("rel", s))

    # ---- correspondence with the extracted model on everything generated under TZ=UTC
    model = PC.run_model_parallel([(o, s) for (o, s, a, tzn) in all_cases])
    for (o, s, a, tzn), b in zip(all_cases, model):
        if not PC.same_outcome(a, b, o["fwt"]):
            stats["model_diff"] += 1
            verdict.violation({"kind": "correspondence: implementation and extracted model disagree",
                               "input": {"s": s, "opts": o}, "impl": a, "model": b}, concrete=False)
    orc.close()

    for key in ["fill", "fuzzy-sentence", "fuzzy-relations"] + ["zone/" + z for z in TZ_SETTINGS]:
        if hist.get(key, 0) == 0:
            verdict.violation({"kind": "stream %r evaluated no case (broken generator or oracle entry)" % key,
                               "input": None}, concrete=False)
    if not props["ok"] and not verdict.violations:
        verdict.violation({"kind": "broken proof obligation", "theorem_file": "coq/props/C15.v",
                           "theorems": props["theorems"], "discharged": props["discharged"],
                           "input": None, "log_tail": props["log"][-3000:]}, concrete=False)
    rc = verdict.finish()
    n_eval = sum(hist.values())
    cov = {
        "evaluations": n_eval,
        "distinct_nontrivial": len(nontrivial),
        "rule": "stream fill: partial texts from a chosen field subset (13 date shapes x 6 time shapes x optional "
                "weekday) x 13 defaults incl. days 29-31, 9999-12-27/31, non-trivial = at least one field absent; "
                "stream zone: HH:MM + zone text (name / +H / +HH / +HHMM / +HH:MM / NAME+h / +HHMM (NAME) / Z) x "
                "tzinfos dict / callable / offset-callable / none x process TZ in %r, non-trivial = has a zone "
                "text; stream fuzzy: filler + one rendered date + filler, where the filler is drawn from a FIXED list of "
                "34 neutral words (coverage.fuzzy_filler_vocabulary) that contain none of the parser's trigger words (no "
                "a/am/p/pm/at/on/and/of, no month or weekday names or abbreviations, no h/m/s, no ALL-CAPS word of <= 5 "
                "letters, no digits): 'a sentence containing one date' is tested for neutral filler only; arbitrary texts "
                "for the fuzzy relations, non-trivial = accepted without fuzzy.  Distinct = distinct (stream, text, options)"
                % (TZ_SETTINGS,),
        "fuzzy_filler_vocabulary": list(PC.FILLER),
        "theorem_scope_notes": [
            "C15_tz_cascade relates validate + _build_tzaware to spec_zone with posix_form = false ONLY: the 'GMT+h' sign "
            "reversal is done by the scan (_parse rewrites the sign token), not by validate/_build_tzaware; it is proved for "
            "the single text '10:00 GMT+h', h = 1..23, default options (C15_gmt_plus_h_is_behind); 'UTC+3', 'BRST+3', "
            "'GMT-0', 'GMT+3:30' are differential-only (zone stream, posix forms)",
            "C15_default_fill / C15_build_naive_refines_spec_fill start from the result record; 'fields absent from the "
            "TEXT' is covered by C02's template theorems and the fill stream",
            "spec_fill / spec_zone are decision tables written next to the code and share dict_get, call_get, tzoffset_ok, "
            "tbl_utczone with the model; they are not derived from the documentation independently",
            "the zone stream uses 9 (h, mi) pairs and 6 default dates (incl. both ends of the datetime range)"],
        "minimum_stream_sizes": "each stream (fill, zone/<TZ> for every TZ setting, fuzzy-sentence, fuzzy-relations) must "
                                "have evaluated at least one case, else the run is a violation",
        "exhaustive": False,
        "samples": samples[:14],
        "input_distribution": hist,
        "disagreements": stats,
        "model_correspondence_cases": len(all_cases) + sum(v for k, v in hist.items() if k.startswith("zone/")),
        "differential_only": ["the local zone's tzname() enters the model and the spec as two oracle bits computed from the "
                              "`time` module (time.tzname / timezone / altzone / localtime), not from dateutil's tz.tzlocal; "
                              "user tzinfo objects and tzstr zones: bits read from the object handed to parse()",
                              "UnknownTimezoneWarning emission compared as a flag"],
        "guard_matcher_correspondence": {
            "F-C15-ampm": {
                "theorem": "C15_fuzzy_conservative_guarded, C15_guard_computable, C15_fuzzy_conservative_refuted, C15_d15_outside_guard",
                "guard": "strict_no_clash: the strict run never reaches an AM/PM word while an AM/PM flag is already set "
                         "(computable twin strict_clash = false, C15_guard_computable)",
                "matcher": "m_second_ampm: strict parse succeeded and the fuzzy result differs AND the text has >= 2 AM/PM words "
                           "AND strict_clash (oracle entry 22) is TRUE on the extracted model for the same input and options",
                "relation": "matcher = complement of the theorem's guard, evaluated on the extracted model for the very input"},
            "F-C15-tzlocal-range": {
                "theorem": "C15_tz_cascade_lz (the table with the failing tz.tzlocal: spec_zone_lz = spec_zone when "
                           "tzlocal_raises is false, OverflowError on the local-zone row otherwise), C15_tz_cascade "
                           "(runs in which tzname() answers)",
                "guard": "tzlocal_raises lz naive = false (NOT: daylight-saving local zone AND standard time in force AND "
                         "wall time - dst_saved outside datetime.min..datetime.max), relevant on the local-zone row only",
                "matcher": "m_tzlocal_range: the implementation raises OverflowError where spec_zone answers a zone AND on "
                           "the model the text resolves to the local zone AND the extracted tzlocal_raises is true",
                "relation": "matcher = complement of the guard on the local-zone row, evaluated by the extracted predicate"}},
        "known_findings_hit": verdict.known_hits,
        "known_finding_examples": {k: v for k, v in verdict.known_examples.items()},
    }
    C.write_evidence(CID, tier, t0, props, cov,
                     ["see C14 for the model's trusted primitives (Decimal/float/int acceptance, datetime.replace, "
                      "monthrange, relativedelta(weekday=))",
                      "the process time zone is switched with os.environ['TZ'] + time.tzset() inside the check"],
                     len(verdict.violations))
    print("C15 %s: obligations %d/%d, %d evaluations, %s, %.1fs" % (
        tier, props["discharged"], props["obligations"], n_eval, stats, time.time() - t0))
    return rc


if __name__ == "__main__":
    sys.exit(main())
