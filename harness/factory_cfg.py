"""C18: fail-closed translation of the factory bodies (Python `ast`) into statement-level
control-flow tables over the program counters of coq/factory/FacModel.v, and into the
line -> program-counter-label table the thread scheduler uses.  Used by harness/gen_factory.py
(-> coq/gen/FacCfgGen.v) and by harness/factory_lib.py.

A body is accepted only if it is built, by sequence / `with <lock>:` / `if` / `while` / `return`,
from exactly the statement TEMPLATES below (compared as `ast.dump`, i.e. up to layout and
comments only).  Each template stands for the program counter(s) whose step in FacModel.v
implements that statement:

  key_off / key_str    the computation of `key`                                   PKey
  get / gget           instance = cls.__instances.get(key, None)                  PGet / GGet
  IF is None           if instance is None: / if rv is None:                      PChk / GChk
  setdefault           instance = cls.__instances.setdefault(key, cls.instance(..))
                       = constructor call, dict read, dict write                  PCons PSdRead PSdWrite
  touch                cache[key] = cache.pop(key, instance)                      PTouch
  IF len               if len(cache) > size:                                      PLen
  pop                  cache.popitem(last=False)                                  PPop
  noc                  rv = self.nocache(name=name)                               GNoc
  IF cacheable         if not (name is None or isinstance(rv, tzlocal_classes) or rv is None):  GCacheable
  gset                 self.__instances[name] = rv                                GSet
  cnew / cclr          the two statements of cache_clear                          CNew / CClr
  sset                 self.__strong_cache_size = size                            SSet
  WHILE len>size: pop  the loop of set_cache_size (test + popitem = one step)     SLoop
  IF instance None / unew / uret   _TzSingleton.__call__                          UChk UNew URet
  with <lock>:         acquire on entry; release on normal exit, on `return` inside, on exception
  return x             after the with: PRet; inside it: the early-return pair
Statements that may raise inside a `with` (constructor, nocache, popitem on an empty dict) get
an edge to the exception release.  GNoc additionally has the edge to the nested tzstr body
(PKey), justified by check_nocache(): nocache contains `tz = tzstr(name)` inside
`try: ... except ValueError: pass`.
"""
import ast
import inspect
import os


class TranslateError(ValueError):
    pass


PCS = ["PIdle", "PKey", "PAcq", "PGet", "PChk", "PCons", "PSdRead", "PSdWrite", "PTouch", "PLen",
       "PPop", "PRel", "PRet", "PExcRel", "PExc", "GAcq", "GGet", "GChk", "GNoc", "GCacheable", "GSet",
       "GEarlyRel", "GEarlyRet", "GExcRel", "CAcq", "CNew", "CClr", "CRel", "SAcq", "SSet", "SLoop",
       "SRel", "SExcRel", "UChk", "UNew", "URet", "UDel", "PDone"]
LABEL = {"PKey": "key", "PGet": "get", "GGet": "get", "PChk": "chk", "GChk": "chk", "PTouch": "touch",
         "PLen": "len", "PPop": "pop", "GNoc": "noc", "GCacheable": "cacheable", "GSet": "set", "CNew": "cnew",
         "CClr": "cclr", "SSet": "sset", "SLoop": "sloop", "UChk": "uchk", "UNew": "unew", "URet": "uret"}


def d(src, mode="stmt"):
    node = ast.parse(src).body[0]
    return ast.dump(node.value if mode == "expr" else node)


# ---- statement templates (name -> (dump, pcs))
def stmt_templates(flavour):
    if flavour == "off":
        c, lockless = "cls", None
        return {
            "key": (d("if isinstance(offset, timedelta):\n    key = (name, offset.total_seconds())\n"
                      "else:\n    key = (name, offset)"), "PKey"),
            "get": (d("instance = cls.__instances.get(key, None)"), "PGet"),
            "setdefault": (d("instance = cls.__instances.setdefault(key, cls.instance(name, offset))"), "PCons"),
            "touch": (d("cls.__strong_cache[key] = cls.__strong_cache.pop(key, instance)"), "PTouch"),
            "pop": (d("cls.__strong_cache.popitem(last=False)"), "PPop"),
        }
    if flavour == "str":
        return {
            "key": (d("key = (s, posix_offset)"), "PKey"),
            "get": (d("instance = cls.__instances.get(key, None)"), "PGet"),
            "setdefault": (d("instance = cls.__instances.setdefault(key, cls.instance(s, posix_offset))"), "PCons"),
            "touch": (d("cls.__strong_cache[key] = cls.__strong_cache.pop(key, instance)"), "PTouch"),
            "pop": (d("cls.__strong_cache.popitem(last=False)"), "PPop"),
        }
    if flavour == "gettz":
        return {
            "get": (d("rv = self.__instances.get(name, None)"), "GGet"),
            "noc": (d("rv = self.nocache(name=name)"), "GNoc"),
            "gset": (d("self.__instances[name] = rv"), "GSet"),
            "touch": (d("self.__strong_cache[name] = self.__strong_cache.pop(name, rv)"), "PTouch"),
            "pop": (d("self.__strong_cache.popitem(last=False)"), "PPop"),
        }
    if flavour == "clear":
        return {"cnew": (d("self.__instances = weakref.WeakValueDictionary()"), "CNew"),
                "cclr": (d("self.__strong_cache.clear()"), "CClr")}
    if flavour == "size":
        return {"sset": (d("self.__strong_cache_size = size"), "SSet")}
    if flavour == "single":
        return {"unew": (d("cls.__instance = super(_TzSingleton, cls).__call__()"), "UNew")}
    raise TranslateError(flavour)


TESTS = {
    "off": {d("instance is None", "expr"): "PChk",
            d("len(cls.__strong_cache) > cls.__strong_cache_size", "expr"): "PLen"},
    "str": {d("instance is None", "expr"): "PChk",
            d("len(cls.__strong_cache) > cls.__strong_cache_size", "expr"): "PLen"},
    "gettz": {d("rv is None", "expr"): "GChk",
              d("not (name is None or isinstance(rv, tzlocal_classes) or rv is None)", "expr"): "GCacheable",
              d("len(self.__strong_cache) > self.__strong_cache_size", "expr"): "PLen"},
    "clear": {}, "size": {}, "single": {d("cls.__instance is None", "expr"): "UChk"},
}
WHILE = {"size": (d("len(self.__strong_cache) > size", "expr"), d("self.__strong_cache.popitem(last=False)"), "SLoop")}
LOCKS = {"off": ["cls._cache_lock"], "str": ["cls.__cache_lock"], "gettz": ["self._cache_lock"],
         "clear": ["self._cache_lock"], "size": ["self._cache_lock"], "single": []}
RETURNS = {"off": "instance", "str": "instance", "gettz": "rv", "single": "cls.__instance"}
ARGS = {"off": ["cls", "name", "offset"], "str": ["cls", "s", "posix_offset"], "gettz": ["self", "name"],
        "clear": ["self"], "size": ["self", "size"], "single": ["cls"]}
# program counters of the lock / exits, per context
CTX = {
    "factory": dict(acq="PAcq", rel="PRel", excrel="PExcRel", after_exc=["PExc"], ret="PRet", start="PKey"),
    "nested": dict(acq="PAcq", rel="PRel", excrel="PExcRel", after_exc=None, ret=None, start="PKey"),
    "gettz": dict(acq="GAcq", rel="PRel", excrel="GExcRel", after_exc=["PExc"], ret="PRet",
                  earlyrel="GEarlyRel", earlyret="GEarlyRet"),
    "clear": dict(acq="CAcq", rel="CRel", excrel=None, after_exc=None, ret=None, done="PDone"),
    "size": dict(acq="SAcq", rel="SRel", excrel="SExcRel", after_exc=["PExc"], ret=None, done="PDone"),
    "single": dict(ret=None),
}
RAISING = {"PCons", "GNoc", "SLoop"}


def strip_doc(body):
    if body and isinstance(body[0], ast.Expr) and isinstance(body[0].value, ast.Constant) \
            and isinstance(body[0].value.value, str):
        return body[1:]
    return body


class Builder:
    """walks one body; collects edges pc -> set(pc) and line -> label"""

    def __init__(self, flavour, ctx):
        self.fl, self.ctx = flavour, CTX[ctx]
        self.ctxname = ctx
        self.templates = stmt_templates(flavour)
        self.edges = {}
        self.lines = {}
        self.seen = []

    def edge(self, a, b):
        self.edges.setdefault(a, [])
        if b not in self.edges[a]:
            self.edges[a].append(b)

    def first_pc(self, body, cont, lock):
        """pc at which `body` starts (cont if empty)"""
        if not body:
            return cont
        return self.stmt_entry(body[0])

    def stmt_entry(self, s):
        dump = ast.dump(s)
        for name, (tpl, pc) in self.templates.items():
            if dump == tpl:
                return pc
        if isinstance(s, ast.If):
            t = TESTS[self.fl].get(ast.dump(s.test))
            if t is None:
                raise TranslateError("unmodelled `if` test at line %d: %s" % (s.lineno, ast.unparse(s.test)))
            return t
        if isinstance(s, ast.While):
            w = WHILE.get(self.fl)
            if w is None or ast.dump(s.test) != w[0] or s.orelse or len(s.body) != 1 or ast.dump(s.body[0]) != w[1]:
                raise TranslateError("unmodelled `while` at line %d" % s.lineno)
            return w[2]
        if isinstance(s, ast.With):
            return self.ctx["acq"]
        if isinstance(s, ast.Return):
            return "RETURN"
        raise TranslateError("unmodelled statement at line %d: %s" % (s.lineno, ast.unparse(s)[:120]))

    def mark(self, pc, lineno):
        if pc in LABEL:
            self.lines[lineno] = LABEL[pc]
        if pc in self.seen and pc not in ("PTouch", "PLen", "PPop"):
            raise TranslateError("statement for %s occurs twice" % pc)
        self.seen.append(pc)

    def seq(self, body, cont, lock):
        """edges for a statement list whose normal continuation is pc `cont`"""
        for i, s in enumerate(body):
            nxt = self.first_pc(body[i + 1:], cont, lock)
            if nxt == "RETURN":
                nxt = self.return_pc(body[i + 1], lock)
            self.stmt(s, nxt, lock, last=(i == len(body) - 1))
            if isinstance(s, ast.Return) and i != len(body) - 1:
                raise TranslateError("statements after return at line %d" % s.lineno)

    def return_pc(self, s, lock):
        want = RETURNS.get(self.fl)
        if want is None or s.value is None or ast.unparse(s.value) != want:
            raise TranslateError("unmodelled return at line %d" % s.lineno)
        if self.fl == "single":
            return "URet"
        if lock:
            if "earlyrel" not in self.ctx:
                raise TranslateError("return inside the lock at line %d" % s.lineno)
            return self.ctx["earlyrel"]
        if self.ctx.get("ret") is None:
            raise TranslateError("unexpected return at line %d" % s.lineno)
        return self.ctx["ret"]

    def raising(self, pc, lock):
        if pc in RAISING:
            if not lock or not self.ctx.get("excrel"):
                raise TranslateError("%s may raise outside the lock" % pc)
            self.edge(pc, self.ctx["excrel"])

    def stmt(self, s, cont, lock, last):
        dump = ast.dump(s)
        for name, (tpl, pc) in self.templates.items():
            if dump == tpl:
                if name == "key" and isinstance(s, ast.If):
                    for sub in s.body + s.orelse:
                        self.mark(pc, sub.lineno) if sub is s.body[0] else self.lines.__setitem__(sub.lineno, LABEL[pc])
                else:
                    self.mark(pc, s.lineno)
                if name == "setdefault":
                    self.edge("PCons", "PSdRead")
                    self.raising("PCons", lock)
                    self.edge("PSdRead", "PSdWrite")
                    self.edge("PSdRead", cont)
                    self.edge("PSdWrite", cont)
                else:
                    self.edge(pc, cont)
                    self.raising(pc, lock)
                    if pc == "GNoc":
                        self.edge(pc, "PKey")
                return
        if isinstance(s, ast.If):
            pc = self.stmt_entry(s)
            self.mark(pc, s.lineno)
            then_first = self.first_pc(s.body, cont, lock)
            if then_first == "RETURN":
                then_first = self.return_pc(s.body[0], lock)
            self.edge(pc, then_first)
            self.seq(s.body, cont, lock)
            if s.orelse:
                else_first = self.first_pc(s.orelse, cont, lock)
                if else_first == "RETURN":
                    else_first = self.return_pc(s.orelse[0], lock)
                self.edge(pc, else_first)
                self.seq(s.orelse, cont, lock)
            else:
                self.edge(pc, cont)
            return
        if isinstance(s, ast.While):
            pc = self.stmt_entry(s)
            self.mark(pc, s.lineno)
            self.edge(pc, pc)
            self.edge(pc, cont)
            self.raising(pc, lock)
            return
        if isinstance(s, ast.With):
            if lock:
                raise TranslateError("nested with at line %d" % s.lineno)
            if (len(s.items) != 1 or s.items[0].optional_vars is not None
                    or ast.unparse(s.items[0].context_expr) not in LOCKS[self.fl]):
                raise TranslateError("unmodelled with-item at line %d" % s.lineno)
            acq, rel = self.ctx["acq"], self.ctx["rel"]
            self.mark(acq, s.lineno)
            self.edge(acq, self.first_pc(s.body, rel, True))
            self.seq(s.body, rel, True)
            self.edge(rel, cont)
            if self.ctx.get("excrel") and self.ctx["excrel"] in sum(self.edges.values(), []):
                for a in (self.ctx["after_exc"] or [cont]):
                    self.edge(self.ctx["excrel"], a)
            if self.ctx.get("earlyrel") and self.ctx["earlyrel"] in sum(self.edges.values(), []):
                self.edge(self.ctx["earlyrel"], self.ctx["earlyret"])
                self.edge(self.ctx["earlyret"], "PIdle")
            return
        if isinstance(s, ast.Return):
            pc = self.return_pc(s, lock)
            if self.fl == "single":
                self.mark("URet", s.lineno)
                self.edge("URet", "UDel")
                self.edge("UDel", "PIdle")
            return
        raise TranslateError("unmodelled statement at line %d: %s" % (s.lineno, ast.unparse(s)[:120]))


def find_func(tree, path):
    """path like ['_TzOffsetFactory', '__call__'] or ['__get_gettz', 'GettzFunc', '__call__']"""
    node = tree
    for name in path:
        found = [n for n in ast.walk(node) if isinstance(n, (ast.ClassDef, ast.FunctionDef)) and n.name == name
                 and n is not node]
        if len(found) != 1:
            raise TranslateError("cannot locate %s" % ".".join(path))
        node = found[0]
    return node


def build(func, flavour, ctx):
    if [a.arg for a in func.args.args] != ARGS[flavour]:
        raise TranslateError("%s: unexpected parameters %r" % (func.name, [a.arg for a in func.args.args]))
    if func.args.vararg or func.args.kwarg or func.args.kwonlyargs:
        raise TranslateError("%s: unexpected parameters" % func.name)
    if [x for x in func.decorator_list]:
        raise TranslateError("%s: decorators are not accepted" % func.name)
    b = Builder(flavour, ctx)
    body = strip_doc(func.body)
    c = CTX[ctx]
    if flavour == "single":
        b.edge("PIdle", "UChk")
        b.seq(body, "END", False)
    elif ctx == "nested":
        # called from nocache while the gettz lock is held: returns (or raises ValueError, caught) into
        # GettzFunc.__call__ at the cacheability test
        b.ctx = dict(c, rel="PRel", excrel="PExcRel", after_exc=["GCacheable"], ret="GCacheable")
        b.seq(body, "END", False)
        b.edges["PRel"] = ["GCacheable"]
        b.edges.pop("GCacheable", None)
    else:
        start = c.get("start") or c["acq"]
        b.edge("PIdle", start)
        b.seq(body, c.get("done", "END"), False)
        if c.get("ret"):
            b.edge(c["ret"], "PIdle")
        if c.get("after_exc"):
            for a in c["after_exc"]:
                if a in sum(b.edges.values(), []):
                    b.edge(a, "PIdle")
        if c.get("done"):
            b.edge(c["done"], "PIdle")
    for a, succ in b.edges.items():
        if "END" in succ or "RETURN" in succ:
            raise TranslateError("%s: control reaches the end of the body after %s" % (func.name, a))
    return b


def check_nocache(func):
    """nocache calls tzstr(name) inside try/except ValueError: pass (the nested factory call)"""
    for t in ast.walk(func):
        if isinstance(t, ast.Try) and len(t.body) == 1 and ast.dump(t.body[0]) == d("tz = tzstr(name)"):
            hs = t.handlers
            if (len(hs) == 1 and isinstance(hs[0].type, ast.Name) and hs[0].type.id == "ValueError"
                    and len(hs[0].body) == 1 and isinstance(hs[0].body[0], ast.Pass)):
                return
    raise TranslateError("nocache: `try: tz = tzstr(name) / except ValueError: pass` not found")


BODIES = [  # (generated name, file, path, flavour, context)
    ("gen_cfg_single", "tz/_factories.py", ["_TzSingleton", "__call__"], "single", "single"),
    ("gen_cfg_offset", "tz/_factories.py", ["_TzOffsetFactory", "__call__"], "off", "factory"),
    ("gen_cfg_str", "tz/_factories.py", ["_TzStrFactory", "__call__"], "str", "factory"),
    ("gen_cfg_str_nested", "tz/_factories.py", ["_TzStrFactory", "__call__"], "str", "nested"),
    ("gen_cfg_gettz", "tz/tz.py", ["__get_gettz", "GettzFunc", "__call__"], "gettz", "gettz"),
    ("gen_cfg_clear", "tz/tz.py", ["__get_gettz", "GettzFunc", "cache_clear"], "clear", "clear"),
    ("gen_cfg_size", "tz/tz.py", ["__get_gettz", "GettzFunc", "set_cache_size"], "size", "size"),
]


def all_builders(src):
    trees = {}
    out = []
    for name, rel, path, fl, ctx in BODIES:
        if rel not in trees:
            trees[rel] = ast.parse(open(os.path.join(src, rel)).read())
        func = find_func(trees[rel], path)
        out.append((name, rel, func, build(func, fl, ctx)))
    check_nocache(find_func(trees["tz/tz.py"], ["__get_gettz", "GettzFunc", "nocache"]))
    inst = find_func(trees["tz/_factories.py"], ["_TzFactory", "instance"])
    body = strip_doc(inst.body)
    if len(body) != 1 or ast.dump(body[0]) != d("return type.__call__(cls, *args, **kwargs)"):
        raise TranslateError("_TzFactory.instance is not `return type.__call__(cls, *args, **kwargs)`")
    out.append(("instance", "tz/_factories.py", inst, None))
    return out


def coq_cfg(edges):
    items = sorted(edges.items(), key=lambda kv: PCS.index(kv[0]))
    return "[" + "; ".join("(%s, [%s])" % (a, "; ".join(sorted(s, key=PCS.index))) for a, s in items) + "]"


def translate_cfg(src):
    out = ["(* GENERATED by harness/gen_factory.py (harness/factory_cfg.py) from dateutil/tz/_factories.py and",
           "   tz/tz.py -- do not edit.  Statement-level control flow of the factory bodies. *)",
           "From Coq Require Import List.", "From V Require Import factory.FacModel.", "Import ListNotations.", ""]
    for name, _rel, _func, b in all_builders(src):
        if b is None:
            continue
        out.append("Definition %s : list (pc * list pc) :=\n  %s.\n" % (name, coq_cfg(b.edges)))
    return "\n".join(out) + "\n"


def line_tables(src):
    """{(relative file, first line of the def): {lineno: label}} for the scheduler"""
    tabs = {}
    for name, rel, func, b in all_builders(src):
        key = (rel, func.lineno)
        if b is None:
            tabs[key] = {strip_doc(func.body)[0].lineno: "cons"}
        elif name != "gen_cfg_str_nested":
            tabs[key] = dict(b.lines)
    return tabs


def lines_for(func, src):
    """line table of a live function object (matched by file and first line)"""
    path = inspect.getsourcefile(func)
    rel = os.path.relpath(path, src).replace(os.sep, "/")
    tabs = line_tables(src)
    key = (rel, func.__code__.co_firstlineno)
    if key not in tabs:
        raise TranslateError("no translated body for %s (%s:%d)" % (func.__qualname__, rel, key[1]))
    return tabs[key]
