"""Deterministic line-level thread scheduler for rrulebase's result cache (DESIGN.md 5.5).

Real threading threads run real dateutil code under sys.settrace.  The trace function parks a
thread at every `line` event of `_iter_cached`, at the `_cache_complete` test of `__iter__` and of
the query methods, and at count()'s two reads of `_len`, until the controller grants it one step;
so a schedule is a list of thread ids and is replayable.  `rule._cache_lock` is replaced by an
instrumented lock that reports "would block" to the controller instead of blocking in C, so a
deadlock is an observable outcome, never a hang.  Every wait has a timeout; a step that does not
come back is reported as a hang and all threads are aborted through their trace functions.

Program-counter codes are the ones of coq/extract/ExtractRcache.v (pc_code):
  1..25  line offsets inside _iter_cached      100 query `if self._cache_complete:`
  101 count `if self._len is None:`  102 __iter__ `if self._cache_complete:`  103 count `return self._len`
  104 done
"""
import inspect
import queue
import sys
import threading

import rcache_rules as R


class _Abort(BaseException):
    pass


class DeadlockDetected(Exception):
    pass


class STLock(object):
    """single-threaded stand-in for rule._cache_lock: acquiring a held lock can never succeed"""

    def __init__(self):
        self.held = False

    def acquire(self, *a, **k):
        if self.held:
            raise DeadlockDetected()
        self.held = True
        return True

    def release(self):
        if not self.held:
            raise RuntimeError("release unlocked lock")
        self.held = False

    def locked(self):
        return self.held


# ------------------------------------------------------------------ operations (model: RCacheModel.op)

def op_code(op):
    k = op[0]
    if k == "list":
        return [0, 0, 0, 0]
    if k == "take":
        return [1, op[1], 0, 0]
    if k == "get":
        return [2, op[1], 0, 0]
    if k == "count":
        return [3, 0, 0, 0]
    if k == "contains":
        return [4, op[1], 0, 0]
    if k == "between":
        return [5, op[1], op[2], int(op[3])]
    if k == "before":
        return [6, op[1], 0, int(op[2])]
    if k == "after":
        return [7, op[1], 0, int(op[2])]
    if k == "sliceto":
        return [8, op[1], 0, 0]
    if k == "negidx":
        return [9, op[1], 0, 0]
    if k == "xafter":
        return [10, op[1], 0 if op[2] is None else op[2], int(op[3]) + (0 if op[2] is None else 2)]
    raise ValueError(op)


def _opt(v):
    return [1, 2, 1, R.to_int(v)] if v is not None else [1, 1, 0]


def run_op(rule, op):
    """run one operation on the real rule; result in the encoding of enc_outcome"""
    k = op[0]
    try:
        if k == "list":
            l = [R.to_int(x) for x in rule]
            return [1, len(l)] + l
        if k == "take":
            it = iter(rule)
            l = []
            for _ in range(op[1]):
                try:
                    l.append(R.to_int(next(it)))
                except StopIteration:
                    break
            return [1, len(l)] + l
        if k == "get":
            return [1, 1, R.to_int(rule[op[1]])]
        if k == "count":
            return [1, 1, rule.count()]
        if k == "contains":
            return [1, 1, int(R.to_dt(op[1]) in rule)]
        if k == "between":
            l = [R.to_int(x) for x in rule.between(R.to_dt(op[1]), R.to_dt(op[2]), inc=op[3])]
            return [1, len(l)] + l
        if k == "before":
            return _opt(rule.before(R.to_dt(op[1]), inc=op[2]))
        if k == "after":
            return _opt(rule.after(R.to_dt(op[1]), inc=op[2]))
        if k == "sliceto":
            l = [R.to_int(x) for x in rule[:op[1]]]
            return [1, len(l)] + l
        if k == "negidx":
            return [1, 1, R.to_int(rule[-(op[1] + 1)])]
        if k == "xafter":
            l = [R.to_int(x) for x in rule.xafter(R.to_dt(op[1]), count=op[2], inc=op[3])]
            return [1, len(l)] + l
    except IndexError:
        return [2, 1]
    except TypeError:
        return [2, 2]
    except ValueError:
        return [2, 3]
    except DeadlockDetected:
        return ["DEADLOCK"]
    except _Abort:
        raise
    except Exception as ex:
        return ["EXC", type(ex).__name__]
    raise ValueError(op)


# ------------------------------------------------------------------ scheduling points

_POINTS = []


def sched_points():
    """computed once per process (the source file may be edited on disk while a check runs)"""
    if not _POINTS:
        _POINTS.append(_sched_points())
    return _POINTS[0]


def _sched_points():
    from dateutil import rrule as RR
    B = RR.rrulebase
    pts = {}
    ic = B._iter_cached.__code__
    for off in range(1, 26):
        pts[(ic, off)] = off
    pts[(B.__iter__.__code__, 1)] = 102

    def find(f, text, code, which=0):
        src, _first = inspect.getsourcelines(f)
        hits = [k for k, line in enumerate(src) if line.strip() == text]
        if len(hits) > which:
            pts[(f.__code__, hits[which])] = code
    for name in ("__getitem__", "__contains__", "before", "after", "between", "xafter"):
        find(getattr(B, name), "if self._cache_complete:", 100)
    find(B.count, "if self._len is None:", 101)
    find(B.count, "return self._len", 103)
    return pts, ic


class SLock(object):
    """instrumented rule._cache_lock: reports `would block` to the controller instead of blocking"""

    def __init__(self, sched):
        self.sched = sched
        self.owner = None

    def acquire(self, *a, **k):
        tid = self.sched.current_tid()
        while self.owner is not None:
            self.sched.report(tid, "blocked", 8)
        self.owner = tid
        return True

    def release(self):
        if self.owner is None:
            raise RuntimeError("release unlocked lock")
        self.owner = None

    def locked(self):
        return self.owner is not None


class Run(object):
    """one scheduled execution of `ops` (one thread each) over one cached rule"""

    def __init__(self, rule, ops, step_timeout=60.0):
        self.rule = rule
        self.ops = ops
        self.T = step_timeout
        self.pts, self.ic = sched_points()
        self.codes = set(c for (c, _o) in self.pts)
        self.lock = SLock(self)
        rule._cache_lock = self.lock
        n = len(ops)
        self.go = [threading.Semaphore(0) for _ in range(n)]
        self.back = queue.Queue()
        self.status = ["new"] * n      # new / at / blocked / done
        self.pc = [None] * n
        self.frames = [None] * n
        self.results = [None] * n
        self.idents = {}
        self.abort = False
        self.threads = []
        self.log = []                  # executed entries
        self.problem = None            # "hang" / "deadlock" / "livelock"

    # ---- thread side
    def current_tid(self):
        return self.idents[threading.get_ident()]

    def report(self, tid, kind, code):
        self.back.put((kind, tid, code))
        while True:
            if self.go[tid].acquire(timeout=0.5):
                break
            if self.abort:
                raise _Abort()
        if self.abort:
            raise _Abort()

    def _body(self, tid):
        self.idents[threading.get_ident()] = tid
        pts, codes, ic = self.pts, self.codes, self.ic

        def local(frame, event, arg):
            if event == "line":
                code = pts.get((frame.f_code, frame.f_lineno - frame.f_code.co_firstlineno))
                if code is not None:
                    if frame.f_code is ic:
                        self.frames[tid] = frame
                    self.report(tid, "at", code)
            return local

        def glob(frame, event, arg):
            # only frames whose `self` is the rule under test (an rruleset's generator calls
            # __iter__ of its member rules: those are part of the atomic advance_iterator step)
            if frame.f_code in codes and frame.f_locals.get("self") is self.rule:
                return local
            return None
        out = None
        sys.settrace(glob)
        try:
            out = run_op(self.rule, self.ops[tid])
        except _Abort:
            out = ["ABORT"]
        except BaseException as ex:
            out = ["EXC", type(ex).__name__]
        finally:
            sys.settrace(None)
        self.frames[tid] = None
        self.results[tid] = out
        self.back.put(("done", tid, 104))

    # ---- controller side
    def _wait(self, tid):
        try:
            kind, t, code = self.back.get(timeout=self.T)
        except queue.Empty:
            self.problem = "hang"
            return False
        self.status[t] = kind
        self.pc[t] = code
        return True

    def start(self):
        for tid in range(len(self.ops)):
            th = threading.Thread(target=self._body, args=(tid,), daemon=True)
            self.threads.append(th)
            th.start()
            if not self._wait(tid):
                return False
        return True

    def snapshot(self, tid):
        r = self.rule
        ln = r._len
        i = None
        if self.status[tid] in ("at", "blocked") and self.pc[tid] is not None and self.pc[tid] <= 25:
            fr = self.frames[tid]
            if fr is not None:
                i = fr.f_locals.get("i", 0)
        return [len(r._cache), int(bool(r._cache_complete)), int(r._cache_gen is not None),
                0 if self.lock.owner is None else self.lock.owner + 1,
                0 if ln is None else ln + 1, i, self.pc[tid]]

    def grant(self, tid):
        """one step of thread tid; returns False when the thread is done (nothing granted) or on a hang"""
        if self.status[tid] == "done" or self.problem:
            return False
        before = self.pc[tid]
        self.go[tid].release()
        if not self._wait(tid):
            return False
        enabled = 0 if self.status[tid] == "blocked" else 1
        self.log.append([tid, enabled, before] + self.snapshot(tid))
        return True

    def all_done(self):
        return all(s == "done" for s in self.status)

    def run_plan(self, plan, max_steps):
        """plan: [[tid, count], ...]; count < 0 = until the thread is done or blocked.
        Afterwards round-robin until everything is done, or nobody can move (deadlock)."""
        if not self.start():
            self.finish()
            return
        steps = 0
        for (tid, cnt) in plan:
            k = 0
            while (cnt < 0 or k < cnt) and self.status[tid] != "done" and not self.problem:
                if not self.grant(tid):
                    break
                steps += 1
                k += 1
                if self.status[tid] == "blocked" or steps > max_steps:
                    break
        n = len(self.ops)
        while not self.all_done() and not self.problem:
            progressed = False
            for tid in range(n):
                if self.status[tid] == "done":
                    continue
                if self.grant(tid):
                    steps += 1
                    if self.status[tid] != "blocked":
                        progressed = True
                        # let it run on: fewer context switches, same reachable behaviours
                        while self.status[tid] == "at" and steps <= max_steps and self.grant(tid):
                            steps += 1
                if self.problem:
                    break
            if self.problem:
                break
            if not progressed:
                self.problem = "deadlock"
            elif steps > max_steps:
                self.problem = "livelock"
        self.finish()

    def finish(self):
        self.abort = True
        for tid, th in enumerate(self.threads):
            self.go[tid].release()
        for th in self.threads:
            th.join(timeout=3.0)
        self.leaked = sum(1 for th in self.threads if th.is_alive())
        self.schedule = [e[0] for e in self.log]
