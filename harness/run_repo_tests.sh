#!/bin/bash
# run dateutil's pinned test suite in $1 (default /repo) and compare the failure list with the baseline
R="${1:-/repo}"
cd "$R" && /venv/bin/python -m pytest -q -p no:cacheprovider --timeout=900 --continue-on-collection-errors -q 2>&1 > /tmp/repo_tests.$$ 
grep -E "^(FAILED|ERROR)" /tmp/repo_tests.$$ | sed 's/ - .*//' | sort > /tmp/repo_fail.$$
sed 's/ - .*//' /verif/harness/baseline_fail.txt | sort | diff - /tmp/repo_fail.$$ && echo "SAME-AS-BASELINE: $(tail -1 /tmp/repo_tests.$$)"
rm -f /tmp/repo_tests.$$ /tmp/repo_fail.$$
