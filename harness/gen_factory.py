#!/usr/bin/env python3
"""Fail-closed translator (Python `ast`) for the C18 code that is small decision logic:

  /repo/src/dateutil/tz/tz.py, tz/_common.py, tz/_factories.py
      ->  coq/gen/FacEqGen.v    the equality layer (__eq__, __ne__, __hash__ of tzutc, tzoffset,
                                tzlocal, tzrange(base), tzfile) in the vocabulary of factory/FacEq.v
      ->  coq/gen/FacCfgGen.v   the statement-level control-flow tables of _TzSingleton.__call__,
                                _TzOffsetFactory.__call__, _TzStrFactory.__call__,
                                GettzFunc.__call__ / cache_clear / set_cache_size in the program
                                counters of factory/FacModel.v

Run by common.regenerate() on every check.  Any AST node outside the accepted subset raises
TranslateError -> exit 1 -> common.py replaces both outputs by files that do not compile, so the
C18_gen_* obligations (and only C18) break.  Output is rewritten only when its text changes.

ACCEPTED SUBSET, equality layer
  methods        `def __eq__(self, other)`, `def __ne__(self, other)`, no decorators; the class body
                 must contain `__hash__ = None`
  __ne__         exactly `return not (self == other)`   (-> negb of the hand-written == driver, which
                 implements Python's reflected-operand protocol)
  statements     docstring; `if c: <stmts> [elif ...] [else: <stmts>]` where every arm ends in
                 `return`; `return e`; `return NotImplemented`
  conditions     `isinstance(other, C)` / `isinstance(other, (C1, C2))` with C among tzutc, tzoffset,
                 tzlocal, tzrange, tzfile; `not c`; `a and b`; `a or b`; `x == y`; `x in {k1, k2}`
  values         `self.<attr>` / `other.<attr>` -- accepted only where the operand is KNOWN, from the
                 enclosing isinstance tests (flow typing through `and`, if/elif arms and
                 `if not isinstance(..): return NotImplemented` guards), to be of a class that has
                 the attribute (table ATTRS; self is of the method's class);
                 `self._tznames[0]`; the module constant ZERO (timedelta(0) = 0); the strings
                 'UTC' (1) and 'GMT' (2) as elements of an `in {..}` set
  Semantics: attribute values are the numbers of their ==-classes (FacEq.zone), `==` is Z.eqb,
  `and`/`or`/`not` on bools are andb/orb/negb, NotImplemented is None.

ACCEPTED SUBSET, control flow: each body must consist of exactly the statement templates listed in
TEMPLATES below (compared as normalised AST dumps, so an operator, a keyword argument, a default or
a swapped operand is a mismatch); structure = sequence, `with <lock>:`, `if c: ... [else: ...]`,
`while c: ...`, `return x`.
"""
import ast
import os
import sys

VERIF = os.path.dirname(os.path.dirname(os.path.abspath(__file__)))
SRC = os.path.join(os.environ.get("VERIF_REPO", "/repo"), "src", "dateutil")
OUT_EQ = os.path.join(VERIF, "coq", "gen", "FacEqGen.v")      # coq/gen/FacEqGen.v
OUT_CFG = os.path.join(VERIF, "coq", "gen", "FacCfgGen.v")    # coq/gen/FacCfgGen.v


class TranslateError(Exception):
    pass


# ----------------------------------------------------------------------------------------
# equality layer

CLASSES = ["tzutc", "tzoffset", "tzlocal", "tzrange", "tzfile"]
ATTRS = {
    "tzutc": [],
    "tzoffset": ["_name", "_offset"],
    "tzlocal": ["_std_offset", "_dst_offset", "_hasdst", "_tznames"],
    "tzrange": ["_std_abbr", "_dst_abbr", "_std_offset", "_dst_offset", "_start_delta", "_end_delta"],
    "tzfile": ["_trans_list", "_trans_idx", "_ttinfo_list"],
}
GETTER = {"_name": "a_name", "_offset": "a_offset", "_std_offset": "a_std_offset", "_dst_offset": "a_dst_offset",
          "_hasdst": "a_hasdst", "_std_abbr": "a_std_abbr", "_dst_abbr": "a_dst_abbr",
          "_start_delta": "a_start_delta", "_end_delta": "a_end_delta", "_trans_list": "a_trans_list",
          "_trans_idx": "a_trans_idx", "_ttinfo_list": "a_ttinfo_list"}
BOOL_ATTRS = {"_hasdst"}
STRINGS = {"UTC": 1, "GMT": 2}
ALL = frozenset(CLASSES)


def find_class(tree, name):
    for n in tree.body:
        if isinstance(n, ast.ClassDef) and n.name == name:
            return n
    raise TranslateError("class %s not found" % name)


def find_method(cls, name):
    found = [n for n in cls.body if isinstance(n, ast.FunctionDef) and n.name == name]
    if len(found) != 1:
        raise TranslateError("%s.%s: expected exactly one definition" % (cls.name, name))
    f = found[0]
    if f.decorator_list:
        raise TranslateError("%s.%s: decorators are not accepted" % (cls.name, name))
    a = f.args
    if ([x.arg for x in a.args] != ["self", "other"] or a.vararg or a.kwarg or a.kwonlyargs or a.defaults
            or getattr(a, "posonlyargs", [])):
        raise TranslateError("%s.%s: signature must be (self, other)" % (cls.name, name))
    return f


def strip_doc(body):
    if body and isinstance(body[0], ast.Expr) and isinstance(body[0].value, ast.Constant) \
            and isinstance(body[0].value.value, str):
        return body[1:]
    return body


def isinstance_classes(e):
    """isinstance(other, C | (C1, C2)) -> frozenset of class names, else None"""
    if not (isinstance(e, ast.Call) and isinstance(e.func, ast.Name) and e.func.id == "isinstance"
            and len(e.args) == 2 and not e.keywords):
        return None
    if not (isinstance(e.args[0], ast.Name) and e.args[0].id == "other"):
        raise TranslateError("isinstance is accepted on `other` only: " + ast.dump(e))
    t = e.args[1]
    names = [t] if isinstance(t, ast.Name) else (list(t.elts) if isinstance(t, ast.Tuple) else None)
    if names is None or not all(isinstance(n, ast.Name) and n.id in CLASSES for n in names):
        raise TranslateError("isinstance against something other than the named zone classes: " + ast.dump(e))
    return frozenset(n.id for n in names)


class Env:
    def __init__(self, self_cls, other):
        self.self_cls = self_cls
        self.other = other          # frozenset of classes `other` may belong to

    def narrow(self, classes):
        return Env(self.self_cls, self.other & classes)

    def exclude(self, classes):
        return Env(self.self_cls, self.other - classes)


def value(e, env):
    """-> (Gallina term : Z or bool, kind 'z'|'b')"""
    if isinstance(e, ast.Name) and e.id == "ZERO":
        return "0", "z"
    if (isinstance(e, ast.Subscript) and isinstance(e.value, ast.Attribute) and e.value.attr == "_tznames"
            and isinstance(e.slice, ast.Constant) and e.slice.value == 0):
        base, _k = attribute(e.value, env, raw=True)
        return "(a_tznames0 %s)" % base, "z"
    if isinstance(e, ast.Attribute):
        return attribute(e, env)
    raise TranslateError("unsupported value: " + ast.dump(e))


def attribute(e, env, raw=False):
    if not (isinstance(e.value, ast.Name) and e.value.id in ("self", "other")):
        raise TranslateError("attribute of something other than self/other: " + ast.dump(e))
    who = e.value.id
    classes = frozenset([env.self_cls]) if who == "self" else env.other
    if not classes:
        raise TranslateError("attribute read in unreachable code: " + ast.dump(e))
    for c in classes:
        if e.attr not in ATTRS[c]:
            raise TranslateError("%s.%s is read where %s may be a %s, which has no such attribute"
                                 % (who, e.attr, who, c))
    if raw:
        return who, None
    if e.attr == "_tznames":
        raise TranslateError("_tznames is accepted only as _tznames[0]")
    return "(%s %s)" % (GETTER[e.attr], who), ("b" if e.attr in BOOL_ATTRS else "z")


def cond(e, env):
    """-> (Gallina bool term, classes `other` is known to be in when the condition is TRUE or None)"""
    cl = isinstance_classes(e)
    if cl is not None:
        return "(" + " || ".join("is_%s other" % c for c in sorted(cl, key=CLASSES.index)) + ")", cl
    if isinstance(e, ast.UnaryOp) and isinstance(e.op, ast.Not):
        t, _ = cond(e.operand, env)
        return "(negb %s)" % t, None
    if isinstance(e, ast.BoolOp) and isinstance(e.op, ast.And):
        parts, cur, known = [], env, None
        for v in e.values:
            t, k = cond(v, cur)
            parts.append(t)
            if k is not None:
                cur = cur.narrow(k)
                known = k if known is None else (known & k)
        return "(" + " && ".join(parts) + ")", known
    if isinstance(e, ast.BoolOp) and isinstance(e.op, ast.Or):
        parts = [cond(v, env)[0] for v in e.values]
        return "(" + " || ".join(parts) + ")", None
    if isinstance(e, ast.Compare) and len(e.ops) == 1 and isinstance(e.ops[0], ast.Eq):
        a, ka = value(e.left, env)
        b, kb = value(e.comparators[0], env)
        if ka != "z" or kb != "z":
            raise TranslateError("== between non-attribute values: " + ast.dump(e))
        return "(%s =? %s)" % (a, b), None
    if isinstance(e, ast.Compare) and len(e.ops) == 1 and isinstance(e.ops[0], ast.In):
        a, ka = value(e.left, env)
        s = e.comparators[0]
        if ka != "z" or not isinstance(s, ast.Set) or not all(
                isinstance(x, ast.Constant) and x.value in STRINGS for x in s.elts):
            raise TranslateError("unsupported membership test: " + ast.dump(e))
        return "(" + " || ".join("(%s =? %d)" % (a, STRINGS[x.value]) for x in s.elts) + ")", None
    if isinstance(e, ast.Attribute):
        t, k = attribute(e, env)
        if k != "b":
            raise TranslateError("non-boolean attribute used as a condition: " + ast.dump(e))
        return t, None
    raise TranslateError("unsupported condition: " + ast.dump(e))


def stmts(body, env, ind):
    """statement list that always returns -> Gallina term : option bool"""
    if not body:
        raise TranslateError("control reaches the end of the method without `return`")
    s, rest = body[0], body[1:]
    pad = "  " * ind
    if isinstance(s, ast.Return):
        if rest:
            raise TranslateError("statements after return")
        if isinstance(s.value, ast.Name) and s.value.id == "NotImplemented":
            return pad + "None"
        if s.value is None:
            raise TranslateError("bare return")
        t, _ = cond(s.value, env)
        return pad + "Some " + t
    if isinstance(s, ast.If):
        t, known = cond(s.test, env)
        env_then = env.narrow(known) if known is not None else env
        # `if not isinstance(other, X): return ...` : afterwards other is an X
        neg = None
        if isinstance(s.test, ast.UnaryOp) and isinstance(s.test.op, ast.Not):
            neg = isinstance_classes(s.test.operand)
        env_else = env.narrow(neg) if neg is not None else (env.exclude(known) if known is not None else env)
        then = stmts(s.body, env_then, ind + 1)
        other = stmts(s.orelse if s.orelse else rest, env_else, ind + 1)
        if s.orelse and rest:
            raise TranslateError("statements after an if/else whose arms all return")
        return "%sif %s then\n%s\n%selse\n%s" % (pad, t, then, pad, other)
    raise TranslateError("unsupported statement: " + ast.dump(s)[:200])


def gen_eq_class(tree, cname):
    cls = find_class(tree, cname)
    f = find_method(cls, "__eq__")
    body = stmts(strip_doc(f.body), Env(cname, ALL), 1)
    return "Definition gen_eq_%s (self other : zone) : option bool :=\n%s.\n" % (cname, body)


def gen_ne_class(tree, cname, label):
    cls = find_class(tree, cname)
    f = find_method(cls, "__ne__")
    body = strip_doc(f.body)
    want = ast.dump(ast.parse("return not (self == other)").body[0])
    if len(body) != 1 or ast.dump(body[0]) != want:
        raise TranslateError("%s.__ne__ is not `return not (self == other)`" % cname)
    return "Definition gen_ne_%s (self other : zone) : bool := negb (zone_eq self other).\n" % label


def gen_hash_class(tree, cname, label):
    cls = find_class(tree, cname)
    vals = [n.value for n in cls.body if isinstance(n, ast.Assign) and len(n.targets) == 1
            and isinstance(n.targets[0], ast.Name) and n.targets[0].id == "__hash__"]
    if any(isinstance(n, ast.FunctionDef) and n.name == "__hash__" for n in cls.body):
        raise TranslateError("%s defines __hash__ as a method" % cname)
    if len(vals) != 1 or not (isinstance(vals[0], ast.Constant) and vals[0].value is None):
        raise TranslateError("%s: expected exactly `__hash__ = None`" % cname)
    return "Definition gen_hashable_%s : bool := false.\n" % label


def translate_eq():
    tz = ast.parse(open(os.path.join(SRC, "tz", "tz.py")).read())
    common = ast.parse(open(os.path.join(SRC, "tz", "_common.py")).read())
    out = ["(* GENERATED by harness/gen_factory.py from dateutil/tz/tz.py and tz/_common.py -- do not edit. *)",
           "From Coq Require Import ZArith List Bool.",
           "From V Require Import factory.FacEq factory.FacEqGenBase.",
           "Open Scope Z_scope.", ""]
    for c in CLASSES:
        out.append(gen_eq_class(tz, c))
    # __ne__ / __hash__: tzrange inherits them from tzrangebase (tz/_common.py)
    for c in ("tzutc", "tzoffset", "tzlocal", "tzfile"):
        out.append(gen_ne_class(tz, c, c))
        out.append(gen_hash_class(tz, c, c))
    rng = find_class(tz, "tzrange")
    if [b.id for b in rng.bases if isinstance(b, ast.Name)] != ["tzrangebase"]:
        raise TranslateError("tzrange no longer derives from tzrangebase only")
    for m in ("__ne__", "__hash__"):
        if any((isinstance(n, ast.FunctionDef) and n.name == m) or
               (isinstance(n, ast.Assign) and any(isinstance(t, ast.Name) and t.id == m for t in n.targets))
               for n in rng.body):
            raise TranslateError("tzrange overrides %s" % m)
    out.append(gen_ne_class(common, "tzrangebase", "tzrange"))
    out.append(gen_hash_class(common, "tzrangebase", "tzrange"))
    # subclasses that must not override the layer
    for cname, tree in (("tzstr", tz),):
        cls = find_class(tree, cname)
        for n in cls.body:
            if isinstance(n, ast.FunctionDef) and n.name in ("__eq__", "__ne__", "__hash__"):
                raise TranslateError("%s overrides %s" % (cname, n.name))
    return "\n".join(out) + "\n"


# ----------------------------------------------------------------------------------------

def write_if_changed(path, txt):
    os.makedirs(os.path.dirname(path), exist_ok=True)
    if not os.path.exists(path) or open(path).read() != txt:
        open(path, "w").write(txt)


def main():
    try:
        eq = translate_eq()
        import factory_cfg
        cfg = factory_cfg.translate_cfg(SRC)
    except TranslateError as ex:
        print("TRANSLATE-ERROR (gen_factory.py): %s" % ex)
        return 1
    except Exception as ex:
        if type(ex).__name__ == "TranslateError":
            print("TRANSLATE-ERROR (gen_factory.py): %s" % ex)
            return 1
        raise
    write_if_changed(OUT_EQ, eq)
    write_if_changed(OUT_CFG, cfg)
    return 0


if __name__ == "__main__":
    sys.path.insert(0, os.path.dirname(os.path.abspath(__file__)))
    sys.exit(main())
