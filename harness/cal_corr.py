#!/usr/bin/env python3
"""Exhaustive correspondence of the shared calendar model coq/base/Cal.v with CPython's datetime /
calendar: every ordinal 1..3652059 (ymd, weekday, isocalendar, ord_of_ymd inverse), every year
1..9999 (leap, days before year, month lengths), date validity on a boundary grid.
Not a property check: it backs the 'CPython datetime modelled, not verified' item of the trusted
base.  Run by setup (quick: every 97th chunk + boundaries) and `./check C19 thorough` (all)."""
import calendar
import datetime
import os
import sys

sys.path.insert(0, os.path.dirname(os.path.abspath(__file__)))
import common as C


def run(full=True):
    C.ensure_built(["cal"], ["base/Cal.vo"])
    o = C.Oracle("cal")
    bad = []
    n_ord = 0
    CH = 1000
    los = list(range(1, 3652060, CH))
    if not full:
        los = [lo for i, lo in enumerate(los) if i % 97 == 0 or i < 3 or i > len(los) - 4]
    for lo in los:
        n = min(CH, 3652059 - lo + 1)
        got = o.call(0, [lo, n])
        exp = []
        for k in range(lo, lo + n):
            d = datetime.date.fromordinal(k)
            iy, iw, idw = d.isocalendar()
            exp += [d.year * 10000 + d.month * 100 + d.day, d.weekday(), iy * 1000 + iw * 10 + idw, k]
        n_ord += n
        if got != exp:
            j = next(i for i in range(len(exp)) if i >= len(got) or got[i] != exp[i])
            bad.append(("ordinal", lo + j // 4, j % 4))
            break
    got = o.call(1, [1, 9999])
    exp = []
    for y in range(1, 10000):
        exp += [1 if calendar.isleap(y) else 0, datetime.date(y, 1, 1).toordinal() - 1, 366 if calendar.isleap(y) else 365]
        exp += [calendar.monthrange(y, m)[1] for m in range(1, 13)]
    if got != exp:
        bad.append(("year table",))
    nv = 0
    for y in (0, 1, 4, 100, 400, 1900, 2000, 2023, 2024, 9999, 10000):
        for m in range(0, 14):
            for d in (0, 1, 28, 29, 30, 31, 32):
                try:
                    datetime.date(y, m, d)
                    e = 1
                except ValueError:
                    e = 0
                nv += 1
                if o.call(2, [y, m, d]) != [e]:
                    bad.append(("valid_ymd", y, m, d))
    o.close()
    return {"ordinals_compared": n_ord, "years_compared": 9999, "validity_cases": nv, "exhaustive": full,
            "disagreements": bad}


if __name__ == "__main__":
    C.reexec_under_impl_python()
    r = run(full="quick" not in sys.argv[1:])
    print(r)
    sys.exit(1 if r["disagreements"] else 0)
