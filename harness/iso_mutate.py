#!/usr/bin/env python3
"""Developer tool (not used by the checks): apply one textual mutation to a scratch copy of
/repo/src/dateutil/parser/isoparser.py and run a check against it.
usage: iso_mutate.py <scratch-root> <Cnn> <tier> <index|all>"""
import os, shutil, subprocess, sys

MUTS = [
    ("weekdate off by one", "week_offset = (week - 1) * 7 + (day - 1)", "week_offset = (week - 1) * 7 + day"),
    ("comma fraction dropped", "re.compile(b'[\\\\.,]([0-9]+)')", "re.compile(b'[\\\\.]([0-9]+)')"),
    ("24:00 carry dropped", "return datetime(*components) + timedelta(days=1)", "return datetime(*components)"),
    ("zero offset test ignores minutes", "if zero_as_utc and hours == 0 and minutes == 0:", "if zero_as_utc and hours == 0:"),
    ("negative offset minutes sign", "mult * (hours * 60 + minutes) * 60", "(mult * hours * 60 + minutes) * 60"),
    ("ordinal 366 boundary", "ordinal_day > (365 + calendar.isleap(year))", "ordinal_day >= (365 + calendar.isleap(year))"),
    ("configured separator not enforced", "if self._sep is None or dt_str[pos:pos + 1] == self._sep:", "if True:"),
    ("fraction truncation at 7 digits", "us_str = frac.group(1)[:6]", "us_str = frac.group(1)[:7]"),
    ("fraction scaled with wrong exponent for short fractions", "10**(6 - len(us_str))", "10**(6 - min(len(us_str), 5))"),
    ("offset hour limit 23 -> 24 accepted", "if hours > 23:", "if hours > 24:"),
    ("offset minutes limit off by one", "if minutes > 59:", "if minutes > 60:"),
    ("24:00 nonzero minutes allowed", "if any(component != 0 for component in components[1:4]):", "if any(component != 0 for component in components[2:4]):"),
    ("digit check dropped (int() leniency)", "if len(field) != width or not field.isdigit():", "if len(field) != width:"),
    ("width check dropped", "if len(field) != width or not field.isdigit():", "if not field.isdigit():"),
    ("week 53 existence check dropped", "if result.isocalendar()[1] != week:", "if False:"),
    ("bytes ASCII gate dropped", "elif any(b >= 128 for b in bytearray(str_in)):", "elif False:"),
    ("leftover after time ignored", "if pos < len_str:\n            raise ValueError('Unused components in ISO string')", "if False:\n            pass"),
    ("colon consistency dropped", "if timestr[pos:pos+1] != self._TIME_SEP:\n                    raise ValueError('Inconsistent use of colon separator')", "if False:\n                    pass"),
    ("OverflowError leak at 9999-12-31T24:00", "except OverflowError as e:\n                six.raise_from(ValueError('Date out of range'), e)\n\n        return datetime(*components)", "except ZeroDivisionError as e:\n                pass\n\n        return datetime(*components)"),
    ("dash consistency in week dates dropped", "if (dt_str[pos:pos + 1] == self._DATE_SEP) != has_sep:", "if False:"),
    ("tz boundary also at comp 0 (bare offset as time)", "if comp > 0 and timestr[pos:pos + 1] in b'-+Zz':", "if timestr[pos:pos + 1] in b'-+Zz':"),
    ("lower-case z not accepted", "if tzstr == b'Z' or tzstr == b'z':", "if tzstr == b'Z':"),
    ("weekday range 0 accepted", "if not 0 < day < 8:", "if not -1 < day < 8:"),
    ("parse_isodate leftover check off by one", "if pos < len(datestr):", "if pos + 1 < len(datestr):"),
    ("stream not read", "str_in = getattr(str_in, 'read', lambda: str_in)()", "str_in = str_in"),
    ("week-1 Monday off by one (dropped -1)", "timedelta(days=jan_4.isocalendar()[2] - 1)", "timedelta(days=jan_4.isocalendar()[2])"),
    ("week range 53 excluded", "if not 0 < week < 54:", "if not 0 < week < 53:"),
    ("dash consistency in calendar dates dropped", "if dt_str[pos:pos + 1] != self._DATE_SEP:\n                raise ValueError('Invalid separator in ISO string')", "if False:\n                pass"),
    ("colon accepted late (hhmm:ss)", "if comp == 1 and timestr[pos:pos+1] == self._TIME_SEP:", "if comp >= 1 and timestr[pos:pos+1] == self._TIME_SEP:"),
    ("digit separator allowed in constructor", "if (len(sep) != 1 or ord(sep) >= 128 or sep in '0123456789'):", "if (len(sep) != 1 or ord(sep) >= 128):"),
    ("parse_isotime keeps hour 24", "if components[0] == 24:\n            components[0] = 0\n        return time(*components)", "return time(*components)"),
    ("ordinal day off by one", "timedelta(days=ordinal_day - 1)", "timedelta(days=ordinal_day)"),
    ("YYYY-MM without day rejected / boundary", "if pos >= len_str:\n            if has_sep:\n                return components, pos", "if pos > len_str:\n            if has_sep:\n                return components, pos"),
    ("month width boundary", "if len_str - pos < 2:\n            raise ValueError('Invalid common month')", "if len_str - pos < 1:\n            raise ValueError('Invalid common month')"),
    ("second colon swallowed without has_sep", "elif comp == 2 and has_sep:", "elif comp == 2:"),
    ("fraction: 5 digits kept instead of 6", "us_str = frac.group(1)[:6]", "us_str = frac.group(1)[:5]"),
    ("zero_as_utc ignored", "if zero_as_utc and hours == 0 and minutes == 0:", "if hours == 0 and minutes == 0:"),
    ("leap test for ordinal uses wrong year", "ordinal_day > (365 + calendar.isleap(year))", "ordinal_day > (365 + calendar.isleap(year + 1))"),
]

def main():
    root, cid, tier, which = sys.argv[1:5]
    idxs = range(len(MUTS)) if which == "all" else [int(which)]
    for i in idxs:
        name, old, new = MUTS[i]
        if os.path.exists(root):
            shutil.rmtree(root)
        os.makedirs(root)
        shutil.copytree("/repo/src", os.path.join(root, "src"))
        p = os.path.join(root, "src/dateutil/parser/isoparser.py")
        s = open(p).read()
        if s.count(old) != 1:
            print("MUT %2d %-55s NOT APPLICABLE (count %d)" % (i, name, s.count(old))); continue
        open(p, "w").write(s.replace(old, new))
        env = dict(os.environ, VERIF_REPO=root)
        r = subprocess.run(["./check", cid, tier], cwd="/verif", env=env, stdout=subprocess.PIPE, stderr=subprocess.STDOUT, text=True)
        v = [l for l in r.stdout.splitlines() if l.startswith("VIOLATION")]
        print("MUT %2d %-55s exit=%d %s" % (i, name, r.returncode, (v[0] if v else "")))
        for l in v[:1]:
            path = l.split("replay=")[1].split()[0]
            import json
            d = json.load(open(path))
            print("        kind=%s input=%s" % (d.get("kind", "")[:70], (d.get("input") or {}).get("text") if isinstance(d.get("input"), dict) else None))
    shutil.rmtree(root, ignore_errors=True)

main()
