"""Shared pieces of the C13 check (area rstr): integer encodings of arguments / results that mirror
coq/extract/ExtractRstr.v, projection of the real dateutil objects, generators."""
import datetime
import itertools
import signal
import warnings

warnings.simplefilter("ignore")

E_MODEL, E_CTOR, E_STR, E_SPELL, E_WF, E_PRIM, E_DATE, E_KW = 0, 1, 2, 3, 4, 5, 6, 7

_tz = None
POOL = None          # tag -> tz object
POOL_NAMES = None    # TZID name -> tag (0 = lookup returns None)


def init():
    global _tz, POOL, POOL_NAMES
    from dateutil import tz
    _tz = tz
    POOL = {1: tz.UTC, 2: tz.gettz("America/New_York"), 3: tz.gettz("Europe/Berlin"),
            4: tz.tzoffset("PLUS530", 19800)}
    POOL_NAMES = {"America/New_York": 2, "Europe/Berlin": 3, "UTC": 1, "Nowhere/Land": 0, "PLUS530": 4}
    for k in (2, 3):
        if POOL[k] is None:
            raise RuntimeError("system zone missing")
    u = tz.gettz("UTC")
    if u is not None and not isinstance(u, tz.tzutc):
        POOL[5] = u
        POOL_NAMES["UTC"] = 5


def tztag(tzinfo):
    if tzinfo is None:
        return 0
    for k, v in POOL.items():
        if tzinfo is v:
            return k
    if isinstance(tzinfo, _tz.tzutc):
        return 1
    return 99


def tzobj(tag):
    return None if tag == 0 else POOL[tag]


# ---------------------------------------------------------------- encoders (Python -> oracle args)

def e_str(s):
    return [len(s)] + [ord(c) for c in s]


def e_dt(d):
    return [d.year, d.month, d.day, d.hour, d.minute, d.second, d.microsecond, tztag(d.tzinfo)]


def e_optdt(d):
    return [0] if d is None else [1] + e_dt(d)


def e_optint(v):
    return [0] if v is None else [1, int(v)]


def _aslist(v):
    if isinstance(v, int):
        return [v]
    return list(v)


def e_optlist(v):
    if v is None:
        return [-1]
    v = _aslist(v)
    return [len(v)] + [int(x) for x in v]


def e_wdlist(v):
    if v is None:
        return [-1]
    if isinstance(v, int) or hasattr(v, "n"):
        v = [v]
    out = [len(v)]
    for w in v:
        if isinstance(w, int):
            out += [w, 0, 0]
        elif w.n is None:
            out += [w.weekday, 0, 0]
        else:
            out += [w.weekday, 1, w.n]
    return out


LIST_KEYS = ["bysetpos", "bymonth", "bymonthday", "byyearday", "byeaster", "byweekno",
             "byhour", "byminute", "bysecond"]


def e_kw(kw):
    w = kw.get("wkst")
    if w is not None and not isinstance(w, int):
        w = w.weekday
    out = e_optint(kw.get("freq")) + e_optint(kw.get("interval")) + e_optint(w) + e_optint(kw.get("count"))
    out += e_optdt(kw.get("until"))
    for k in LIST_KEYS:
        out += e_optlist(kw.get(k))
    out += e_wdlist(kw.get("byweekday"))
    return out


def e_env(fwd, now):
    return [fwd] + e_dt(now)


def e_opts(o):
    """o: dict with dtstart, cache, unfold, forceset, compatible, ignoretz, tzmap (name -> tag)."""
    out = e_optdt(o.get("dtstart"))
    for k in ("cache", "unfold", "forceset", "compatible", "ignoretz"):
        out.append(1 if o.get(k) else 0)
    tm = o.get("tzmap") or {}
    out.append(len(tm))
    for name, tag in tm.items():
        out += e_str(name) + [tag]
    return out


def e_choice(c):
    return ([1 if c["plus"] else 0, 1 if c["wdname"] else 0, len(c["styles"])] + list(c["styles"])
            + [1 if c["dshort"] else 0, len(c["perm"])] + list(c["perm"])
            + [1 if c["prefix"] else 0, c["inline"], len(c["folds"])] + list(c["folds"])
            + [len(c["case"])] + [1 if b else 0 for b in c["case"]])


# ---------------------------------------------------------------- projection of real objects

def p_optlist(v):
    if v is None:
        return [-1]
    v = sorted(v) if isinstance(v, (set, frozenset)) else list(v)
    return [len(v)] + [int(x) for x in v]


def p_oent(d, key, wd=False):
    if key not in d:
        return [0]
    v = d[key]
    if v is None:
        return [1]
    out = [2, len(v)]
    for x in v:
        if wd:
            out += [x.weekday, 0, 0] if x.n is None else [x.weekday, 1, x.n]
        else:
            out.append(int(x))
    return out


# Private attributes the projection reads: exactly those rrule._iter reads (_dtstart _freq _interval _wkst
# _count _until _bysetpos _bymonth _bymonthday _bynmonthday _byyearday _byeaster _byweekno _byweekday
# _bynweekday _byhour _byminute _bysecond) in p_iter_state, plus _original_rule, which rrule.__str__ (anchored
# by C13) and rrule.replace read, in p_rule.  The PROPERTY comparison (rule vs re-parsed rule) uses
# p_iter_state only; p_rule is for the constructor / rrulestr correspondence with the model, whose state
# includes the recorded arguments.  A refactor of these internals makes the evaluation fail closed.
def p_iter_state(r):
    out = e_dt(r._dtstart) + [r._freq, r._interval, r._wkst] + e_optint(r._count) + e_optdt(r._until)
    out += p_optlist(r._bysetpos) + p_optlist(r._bymonth)
    out += p_optlist(r._bymonthday) + p_optlist(r._bynmonthday)
    out += p_optlist(r._byyearday) + p_optlist(r._byeaster) + p_optlist(r._byweekno)
    out += p_optlist(r._byweekday)
    if r._bynweekday is None:
        out += [-1]
    else:
        out += [len(r._bynweekday)] + [int(x) for p in r._bynweekday for x in p]
    out += p_optlist(r._byhour) + p_optlist(r._byminute) + p_optlist(r._bysecond)
    return out


def p_rule(r):
    out = e_dt(r._dtstart) + [r._freq, r._interval, r._wkst] + e_optint(r._count) + e_optdt(r._until)
    out += p_optlist(r._bysetpos) + p_optlist(r._bymonth)
    out += p_optlist(r._bymonthday) + p_optlist(r._bynmonthday)
    out += p_optlist(r._byyearday) + p_optlist(r._byeaster) + p_optlist(r._byweekno)
    out += p_optlist(r._byweekday)
    if r._bynweekday is None:
        out += [-1]
    else:
        out += [len(r._bynweekday)] + [int(x) for p in r._bynweekday for x in p]
    out += p_optlist(r._byhour) + p_optlist(r._byminute) + p_optlist(r._bysecond)
    og = r._original_rule
    for k in ("bysetpos", "bymonth", "bymonthday", "byyearday", "byeaster", "byweekno"):
        out += p_oent(og, k)
    out += p_oent(og, "byweekday", wd=True)
    for k in ("byhour", "byminute", "bysecond"):
        out += p_oent(og, k)
    return out


def exc_code(ex):
    # exception CLASS -> small enum (ParserError is a ValueError subclass)
    if isinstance(ex, ValueError):
        return [0, 1]
    if isinstance(ex, TypeError):
        return [0, 2]
    if isinstance(ex, IndexError):
        return [0, 3]
    if isinstance(ex, KeyError):
        return [0, 4]
    if isinstance(ex, AttributeError):
        return [0, 5]
    if isinstance(ex, OverflowError):
        return [0, 6]
    return ["EXC", type(ex).__name__]


def p_result(x):
    from dateutil import rrule as RR
    if isinstance(x, BaseException):
        return exc_code(x)
    if isinstance(x, RR.rruleset):
        out = [2, 0 if x._cache is None else 1, len(x._rrule)]
        for r in x._rrule:
            out += p_rule(r)
        out += [len(x._rdate)] + [v for d in x._rdate for v in e_dt(d)]
        out += [len(x._exrule)]
        for r in x._exrule:
            out += p_rule(r)
        out += [len(x._exdate)] + [v for d in x._exdate for v in e_dt(d)]
        return out
    return [1, 0 if x._cache is None else 1] + p_rule(x)


class _Timeout(Exception):
    pass


def _alarm(_s, _f):
    raise _Timeout()


SKIP_OCCURRENCES = False      # set while tracing line coverage (no signals inside the tracer)


def occurrences(r, n=6, budget=0.025):
    """first n occurrences as tuples (fields, tz tag) or 'TIMEOUT' / exception class name."""
    if SKIP_OCCURRENCES:
        return "TIMEOUT"
    # the budget is CPU time of this process (ITIMER_VIRTUAL), so that a loaded machine does not turn
    # comparisons into timeouts
    old = signal.signal(signal.SIGVTALRM, _alarm)
    out = "TIMEOUT"
    try:
        try:
            signal.setitimer(signal.ITIMER_VIRTUAL, budget)
            out = [(d.year, d.month, d.day, d.hour, d.minute, d.second, d.microsecond, tztag(d.tzinfo))
                   for d in itertools.islice(iter(r), n)]
            signal.setitimer(signal.ITIMER_VIRTUAL, 0)
        except _Timeout:
            out = "TIMEOUT"
        except Exception as ex:  # noqa
            out = "EXC:" + type(ex).__name__
    except _Timeout:          # alarm delivered inside an except clause
        out = "TIMEOUT"
    finally:
        while True:
            try:
                signal.setitimer(signal.ITIMER_VIRTUAL, 0)
                break
            except _Timeout:
                pass
        signal.signal(signal.SIGVTALRM, old)
    return out


# ---------------------------------------------------------------- generators

YEARS = [1, 2, 99, 100, 999, 1000, 1582, 1600, 1899, 1900, 1970, 1996, 1997, 1999, 2000, 2001, 2004,
         2023, 2024, 2037, 2038, 2100, 9990]


def gen_dt(R, tag=0, us=False):
    y = R.choice(YEARS) if R.random() < 0.6 else R.randrange(1, 9990)
    m = R.randrange(1, 13)
    dmax = [31, 29 if (y % 4 == 0 and (y % 100 != 0 or y % 400 == 0)) else 28, 31, 30, 31, 30, 31, 31, 30, 31, 30, 31][m - 1]
    d = R.choice([1, dmax, R.randrange(1, dmax + 1), R.randrange(1, dmax + 1)])
    if R.random() < 0.25:
        h = mi = s = 0
    else:
        h, mi, s = R.choice([0, 9, 23, R.randrange(24)]), R.choice([0, 30, 59, R.randrange(60)]), R.choice([0, 59, R.randrange(60)])
    return datetime.datetime(y, m, d, h, mi, s, R.randrange(1000000) if us else 0, tzinfo=tzobj(tag))


def _vals(R, pool, maxn=4, scalar_ok=True):
    n = R.choice([1, 1, 2, 2, 3, maxn])
    v = [R.choice(pool) for _ in range(n)]
    if scalar_ok and n == 1 and R.random() < 0.4:
        return v[0]
    return tuple(v) if R.random() < 0.7 else list(v)


def gen_kw(R, tag=0, start=None, wf_only=False):
    """keyword arguments of rrule() over the full constructor space (RFC value ranges)."""
    from dateutil import rrule as RR
    freq = R.randrange(7)
    kw = {"freq": freq}
    if R.random() < 0.45:
        kw["interval"] = R.choice([1, 2, 2, 3, 4, 5, 6, 7, 10, 12, 15, 24, 30, 60, 100])
    if R.random() < 0.5:
        w = R.randrange(7)
        kw["wkst"] = w if (R.random() < 0.5 or wf_only) else RR.weekdays[w]
    x = R.random()
    if x < 0.45:
        kw["count"] = R.choice([0, 1, 2, 3, 5, 7, 10, 30])
    elif x < 0.75:
        u = gen_dt(R, tag, us=(not wf_only and R.random() < 0.15))
        if start is not None and R.random() < 0.8:
            try:
                u = start + datetime.timedelta(days=R.choice([0, 1, 30, 366, 3000]), seconds=R.randrange(86400))
                if not wf_only and R.random() < 0.15:
                    u = u.replace(microsecond=R.randrange(1000000))
            except OverflowError:
                pass
        if wf_only and tag >= 2:
            u = u.replace(tzinfo=tzobj(1))
        kw["until"] = u
    parts = ["bymonth", "bymonthday", "byyearday", "byweekno", "byweekday", "byeaster", "byhour",
             "byminute", "bysecond", "bysetpos"]
    nparts = R.choice([0, 1, 1, 2, 2, 3, 4])
    chosen = R.sample(parts, nparts)
    for p in chosen:
        if p == "bymonth":
            kw[p] = _vals(R, list(range(1, 13)))
        elif p == "bymonthday":
            kw[p] = _vals(R, [1, 2, 15, 28, 29, 30, 31, -1, -2, -28, -31, R.randrange(1, 32), -R.randrange(1, 32)])
        elif p == "byyearday":
            kw[p] = _vals(R, [1, 59, 60, 100, 365, 366, -1, -366, -306, R.randrange(1, 367), -R.randrange(1, 367)])
        elif p == "byweekno":
            kw[p] = _vals(R, [1, 2, 20, 52, 53, -1, -53, -2, R.randrange(1, 54)])
        elif p == "byeaster":
            kw[p] = _vals(R, [0, 1, -1, -2, 49, 39, -46, R.randrange(-100, 100)])
        elif p == "byhour":
            kw[p] = _vals(R, [0, 1, 6, 12, 18, 23, R.randrange(24)])
        elif p == "byminute":
            kw[p] = _vals(R, [0, 1, 15, 30, 45, 59, R.randrange(60)])
        elif p == "bysecond":
            kw[p] = _vals(R, [0, 1, 15, 30, 45, 59, R.randrange(60)])
        elif p == "bysetpos":
            kw[p] = _vals(R, [1, 2, 3, -1, -2, 366, -366, R.randrange(1, 30)])
        elif p == "byweekday":
            n = R.choice([1, 1, 2, 3, 4])
            ws = []
            for _ in range(n):
                d = R.randrange(7)
                y = R.random()
                if y < 0.25 and not wf_only:
                    ws.append(d)
                elif y < 0.55:
                    ws.append(RR.weekdays[d])
                else:
                    nn = R.choice([1, 2, 3, 4, 5, -1, -2, -3, -5, 10, 53, -53, R.randrange(1, 54)])
                    ws.append(RR.weekdays[d](nn))
            if n == 1 and R.random() < 0.3 and not wf_only:
                kw[p] = ws[0]
            else:
                kw[p] = tuple(ws)
    return kw


def norm_kw_lists(kw):
    """the same kwargs with every scalar turned into a list and wkst into an int (what RFC text says)"""
    out = {}
    for k, v in kw.items():
        if k in LIST_KEYS:
            out[k] = _aslist(v)
        elif k == "byweekday":
            from dateutil import rrule as RR
            if isinstance(v, int) or hasattr(v, "n"):
                v = [v]
            out[k] = [RR.weekdays[w] if isinstance(w, int) else w for w in v]
        elif k == "wkst":
            out[k] = v if isinstance(v, int) else v.weekday
        else:
            out[k] = v
    return out


def gen_choice(R, nparts, textlen_hint=200):
    perm = list(range(nparts))
    if R.random() < 0.7:
        R.shuffle(perm)
    folds = []
    if R.random() < 0.3:
        folds = sorted(set(R.randrange(1, textlen_hint) for _ in range(R.choice([1, 2, 5]))))
    case = []
    x = R.random()
    if x < 0.3:
        case = [True]
    elif x < 0.6:
        case = [R.random() < 0.5 for _ in range(R.choice([2, 3, 7, 11]))]
    return {"plus": R.random() < 0.3, "wdname": R.random() < 0.4,
            "styles": [R.randrange(4) for _ in range(R.choice([0, 1, 3, 5]))],
            "dshort": R.random() < 0.4, "perm": perm, "prefix": R.random() < 0.7,
            "inline": R.choice([0, 1, 1, 2]), "folds": folds, "case": case}
