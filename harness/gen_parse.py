#!/usr/bin/env python3
"""Fail-closed translator: /repo/src/dateutil/parser/_parser.py  ->  coq/gen/ParseGen.v

The small decision functions of the generic parser are translated from their Python AST into
Gallina definitions `pg_<class>_<name>` in the vocabulary of the hand model (coq/parse/Lex.v, Prim.v,
Ymd.v, Parse.v) and of coq/parse/ParseGenLib.v; coq/parse/ParseGenThm.v proves each of them equal to
the corresponding function of the hand model for all inputs.  A change of the source either aborts
this translator (exit 1 -> common.regenerate() poisons coq/gen/ParseGen.v) or breaks an obligation.

TRANSLATED (table SIGS): parserinfo.jump weekday month hms ampm pertain utczone tzoffset convertyear;
  _ymd.has_year has_month has_day could_be_day; parser._could_be_tzname _ampm_valid _adjust_ampm
  _find_hms_idx _parse_hms _parse_min_sec _parsems _assign_hms _parse_numeric_token; parserinfo.validate;
  _ymd.resolve_ymd, _ymd.append (three specialisations by the type of `val`).
NOT translated: the rest of the classes _timelex, _resultbase, parserinfo, _ymd, parser and the module function
  parse() -- hand-modelled (Lex.v, Ymd.v, Parse.v, Build.v), tied by the differential runs of check_C14/15/02, and
  PINNED here by the sha256 of their AST with docstrings and the translated methods removed: any edit of a
  hand-modelled part aborts the translator (the model was validated against exactly that text).

ACCEPTED SUBSET (anything else raises TranslateError):
  statements : docstring / comment strings; x = e; x op= e (+=, -=); assert e; if / elif / else (continuations are
               duplicated into the branches; `if x is None` / `is not None` on an optional refines x in the branches);
               return e; raise ValueError(...);
               try: return <dict subscript [+ int]>  except KeyError: pass | return None   (dict look-up);
  expressions: int / bool / str / None constants, names, self.<attr> of the tables below, + - * // on ints, unary -,
               comparisons (chained, short-circuit), and / or / not (short-circuit: operands that can raise are
               sequenced by nested ifs), `is None`, `is not None`, len(), tokens[i] (IndexError, negative wrap),
               self[i] on _ymd (IndexError), d[k] / d.get(k) / k in d on the parserinfo dictionaries,
               name.lower(), x in <tuple-like class list>, all(x in string.ascii_uppercase for x in s),
               monthrange(y, m)[1], info.hms(t) and the other translated functions, optional-int + int (TypeError on
               None), Decimal-vs-int comparisons (dec_ge / dec_le), tuples in return position.
"""
import ast
import os
import sys


class TranslateError(Exception):
    pass


def bail(msg, node=None):
    if node is not None:
        msg += " at line %s: %s" % (getattr(node, "lineno", "?"), ast.dump(node)[:160])
    raise TranslateError(msg)


INT, BOOL, STR, OPTINT, OPTSTR, DEC, TOKENS, YMD, RES = ("int", "bool", "str", "optint", "optstr", "dec", "tokens",
                                                          "ymd", "res")
COQTY = {INT: "Z", BOOL: "bool", STR: "str", OPTINT: "option Z", OPTSTR: "option str", DEC: "dec",
         TOKENS: "list str", YMD: "ymd", RES: "pres", "unit": "unit", "label": "option label"}


def coqty(t):
    if isinstance(t, tuple):
        return "(" + " * ".join(coqty(x) for x in t[1]) + ")"
    return COQTY[t]


# class -> name -> (params [(name, type, default text)], return type, is_property)
# `info` parameters (the parserinfo object) are dropped: the word tables are global in the model.
SIGS = {
    "parserinfo": {
        "jump": ([("name", STR, None)], BOOL),
        "weekday": ([("name", STR, None)], OPTINT),
        "month": ([("name", STR, None)], OPTINT),
        "hms": ([("name", STR, None)], OPTINT),
        "ampm": ([("name", STR, None)], OPTINT),
        "pertain": ([("name", STR, None)], BOOL),
        "utczone": ([("name", STR, None)], BOOL),
        "tzoffset": ([("name", STR, None)], OPTINT),
        "convertyear": ([("year", INT, None), ("century_specified", BOOL, "false")], INT),
        "validate": ([("res", RES, None)], BOOL),
    },
    "_ymd": {
        "has_year": ([], BOOL),
        "has_month": ([], BOOL),
        "has_day": ([], BOOL),
        "could_be_day": ([("value", DEC, None)], BOOL),
        "resolve_ymd": ([("yearfirst", BOOL, None), ("dayfirst", BOOL, None)], ("tuple", (OPTINT, OPTINT, OPTINT))),
        # append is polymorphic in `val`: one specialisation per argument type (hasattr(val, '__len__') is static)
        "append_str": ([("val", STR, None), ("label", "label", "None")], "unit"),
        "append_dec": ([("val", DEC, None), ("label", "label", "None")], "unit"),
        "append_int": ([("val", INT, None), ("label", "label", "None")], "unit"),
    },
    "parser": {
        "_could_be_tzname": ([("hour", OPTINT, None), ("tzname", OPTSTR, None), ("tzoffset", OPTINT, None),
                              ("token", STR, None)], BOOL),
        "_ampm_valid": ([("hour", OPTINT, None), ("ampm", OPTINT, None), ("fuzzy", BOOL, None)], BOOL),
        "_adjust_ampm": ([("hour", INT, None), ("ampm", INT, None)], INT),
        "_parse_min_sec": ([("value", DEC, None)], ("tuple", (INT, OPTINT))),
        "_parsems": ([("value", STR, None)], ("tuple", (INT, INT))),
        "_assign_hms": ([("res", RES, None), ("value_repr", STR, None), ("hms", INT, None)], "unit"),
        "_parse_numeric_token": ([("tokens", TOKENS, None), ("idx", INT, None), ("info", None, None), ("ymd", YMD, None),
                                  ("res", RES, None), ("fuzzy", BOOL, None)], INT),
        "_find_hms_idx": ([("idx", INT, None), ("tokens", TOKENS, None), ("info", None, None),
                           ("allow_jump", BOOL, None)], OPTINT),
        "_parse_hms": ([("idx", INT, None), ("tokens", TOKENS, None), ("info", None, None),
                        ("hms_idx", OPTINT, None)], ("tuple", (INT, OPTINT))),
    },
}
ORDER = [("parserinfo", n) for n in ("jump", "weekday", "month", "hms", "ampm", "pertain", "utczone", "tzoffset",
                                     "convertyear", "validate")] + \
        [("_ymd", n) for n in ("has_year", "has_month", "has_day", "could_be_day", "resolve_ymd", "append_str",
                                 "append_dec", "append_int")] + \
        [("parser", n) for n in ("_could_be_tzname", "_ampm_valid", "_adjust_ampm", "_parse_min_sec", "_parsems",
                                 "_assign_hms", "_find_hms_idx", "_parse_hms", "_parse_numeric_token")]
# functions that mutate a parameter object: the final object is returned next to the return value
MUTATES = {("parserinfo", "validate"): ("res",), ("parser", "_assign_hms"): ("res",), ("_ymd", "append_str"): ("self",),
           ("_ymd", "append_dec"): ("self",), ("_ymd", "append_int"): ("self",),
           ("parser", "_parse_numeric_token"): ("ymd", "res"),
           }


def muts(fn):
    return MUTATES.get((fn.cls, fn.name), ())


def mut_tail(fn):
    return "".join(", v_%s" % m for m in muts(fn))
PY_NAME = {"append_str": "append", "append_dec": "append", "append_int": "append"}
YMD_SETTERS = {"century_specified": ("ymd_set_century", BOOL), "mstridx": ("ymd_set_m", OPTINT),
               "dstridx": ("ymd_set_d", OPTINT), "ystridx": ("ymd_set_y", OPTINT)}
LABELS = {"M": "LM", "D": "LD", "Y": "LY"}
RES_ATTRS = {"hour": ("r_hour", OPTINT, "set_hour"), "minute": ("r_minute", OPTINT, "set_minute"),
             "second": ("r_second", OPTINT, "set_second"), "microsecond": ("r_us", OPTINT, "set_us"),
             "year": ("r_year", OPTINT, "set_year"), "tzname": ("r_tzname", OPTSTR, "set_tzname"),
             "tzoffset": ("r_tzoffset", OPTINT, "set_tzoffset"), "century_specified": ("r_century", BOOL, None)}
PROPERTIES = {("_ymd", "has_month"), ("_ymd", "has_day"), ("_ymd", "has_year")}

# attributes of `self` per class: text, type
DICTS = {"_jump": "tbl_jump", "_weekdays": "tbl_weekdays", "_months": "tbl_months", "_hms": "tbl_hms",
         "_ampm": "tbl_ampm", "_utczone": "tbl_utczone", "_pertain": "tbl_pertain", "TZOFFSET": "tbl_tzoffset"}
YMD_ATTRS = {"ystridx": ("(y_y v_self)", OPTINT), "mstridx": ("(y_m v_self)", OPTINT),
             "dstridx": ("(y_d v_self)", OPTINT), "century_specified": ("(y_century v_self)", BOOL)}
CENTURY_SRC = "self._century = self._year // 100 * 100"


PINNED = {
    "_timelex": "822a33f7e4cc034e", "_resultbase": "2d4d8d1e6f1e001a", "parserinfo": "fbe4db72d8fdc831", "_ymd": "f62360ff133b7a8d",
    "parser": "7179ca69e7384db6", "parse": "7dc82e5e7dbcf2df",
}


def strip_doc(node):
    for n in ast.walk(node):
        if isinstance(n, (ast.FunctionDef, ast.ClassDef, ast.Module)) and n.body:
            b0 = n.body[0]
            if isinstance(b0, ast.Expr) and isinstance(b0.value, ast.Constant) and isinstance(b0.value.value, str):
                n.body = n.body[1:] or [ast.Pass()]
    return node


def pin_hash(node, drop):
    import copy
    import hashlib
    node = copy.deepcopy(node)
    if isinstance(node, ast.ClassDef):
        node.body = [n for n in node.body if not (isinstance(n, ast.FunctionDef) and n.name in drop)]
    return hashlib.sha256(ast.dump(strip_doc(node)).encode()).hexdigest()[:16]


def compute_pins(tree):
    top = {n.name: n for n in tree.body if isinstance(n, (ast.ClassDef, ast.FunctionDef))}
    pins = {}
    for name in PINNED:
        if name not in top:
            bail("%s not found" % name)
        pins[name] = pin_hash(top[name], {PY_NAME.get(n, n) for n in SIGS.get(name, {})})
    return pins


STRID_PAIRS = "(('y', self.ystridx), ('m', self.mstridx), ('d', self.dstridx))"
STRID_DICT = "{key: val for key, val in strids if val is not None}"
NSTRIDS = "(nsome (y_y v_self) + nsome (y_m v_self) + nsome (y_d v_self))"


def same_ast(node, src):
    return ast.dump(node) == ast.dump(ast.parse(src, mode="eval").body)


def fname(cls, name):
    return "pg_%s_%s" % (cls.strip("_"), name.strip("_"))


class Fn:
    def __init__(self, cls, name):
        self.cls, self.name = cls, name
        self.ret = SIGS[cls][name][1]
        self.n = 0
        self.prov = {}      # int variable -> Decimal variable it is the int() of

    def tmp(self, base="t"):
        self.n += 1
        return "%s_%d" % (base, self.n)


HOLE = "@@HOLE@@"


def lit(n):
    return str(n) if n >= 0 else "(%d)" % n


def str_lit(s):
    return "[" + "; ".join(str(ord(c)) for c in s) + "]"


def pure(fn, e, env):
    got = []

    def k(t, ty):
        got.append((t, ty))
        return HOLE
    code = ex(fn, e, env, k)
    if code != HOLE or len(got) != 1:
        raise TranslateError("not pure")
    return got[0]


def as_bool(t, ty, node):
    if ty == BOOL:
        return t
    if ty == OPTSTR:
        return "(ostr_truthy %s)" % t
    if ty == YMD:
        return "(ymd_nonempty %s)" % t
    if isinstance(ty, tuple) and ty[0] == "rem":
        return "(frac_nonzero %s)" % ty[1]      # value - int(value) is non-zero
    bail("a condition must be a bool (truthiness of other values is not modelled)", node)


def ex(fn, e, env, k):
    if isinstance(e, ast.Constant):
        v = e.value
        if isinstance(v, bool):
            return k("true" if v else "false", BOOL)
        if isinstance(v, int):
            return k(lit(v), INT)
        if isinstance(v, str):
            return k(str_lit(v), STR)
        if v is None:
            return k("None", "none")
        bail("unsupported constant", e)
    if isinstance(e, ast.Name):
        if e.id not in env:
            bail("unbound name " + e.id, e)
        if env[e.id] in ("strids", "stridpairs"):
            return k("tt", env[e.id])
        return k("v_" + e.id, env[e.id])
    if isinstance(e, ast.Attribute):
        return attribute(fn, e, env, k)
    if isinstance(e, ast.UnaryOp):
        if isinstance(e.op, ast.USub):
            return ex(fn, e.operand, env, lambda t, ty: k("(- %s)" % t, INT) if ty == INT else bail("- on non-int", e))
        if isinstance(e.op, ast.Not):
            return ex(fn, e.operand, env, lambda t, ty: k("(negb %s)" % as_bool(t, ty, e), BOOL))
        bail("unsupported unary operator", e)
    if isinstance(e, ast.BinOp):
        ops = {ast.Add: "+", ast.Sub: "-", ast.Mult: "*", ast.FloorDiv: "/"}
        if type(e.op) not in ops:
            bail("unsupported binary operator", e)

        if (isinstance(e.op, ast.Sub) and isinstance(e.left, ast.Name) and env.get(e.left.id) == DEC
                and isinstance(e.right, ast.Name) and env.get(e.right.id) == INT):
            # Decimal arithmetic is modelled only for `value - int(value)` (fraction in the default context)
            if fn.prov.get(e.right.id) != e.left.id:
                bail("Decimal subtraction other than value - int(value)", e)
            return k("(* %s - int(%s) *) tt" % (e.left.id, e.left.id), ("rem", "v_" + e.left.id))
        if (isinstance(e.op, ast.Sub) and isinstance(e.left, ast.Name) and env.get(e.left.id) == DEC
                and isinstance(e.right, ast.Attribute) and isinstance(e.right.value, ast.Name)
                and env.get(e.right.value.id) == RES):
            if fn.prov.get(e.right.value.id + "." + e.right.attr) != e.left.id:
                bail("Decimal subtraction other than value - int(value)", e)
            return k("tt", ("rem", "v_" + e.left.id))
        if (isinstance(e.op, ast.Mult) and isinstance(e.left, ast.Constant) and e.left.value == 60
                and isinstance(e.right, ast.Name) and isinstance(env.get(e.right.id), tuple)
                and env[e.right.id][0] == "rem"):
            return k("tt", ("rem60", env[e.right.id][1]))

        def kl(lt, lty):
            def kr(rt, rty):
                if lty == INT and rty == INT:
                    return k("(%s %s %s)" % (lt, ops[type(e.op)], rt), INT)
                if lty == OPTINT and rty == INT and isinstance(e.op, ast.Add):
                    # None + 1 is a TypeError
                    v = fn.tmp("o")
                    return "match %s with\n| Some %s => %s\n| None => Err TypeError\nend" % (
                        lt, v, k("(%s + %s)" % (v, rt), INT))
                bail("arithmetic on %s and %s" % (lty, rty), e)
            return ex(fn, e.right, env, kr)
        return ex(fn, e.left, env, kl)
    if isinstance(e, ast.BoolOp):
        isand = isinstance(e.op, ast.And)

        def go(i, acc):
            if i == len(e.values):
                if not acc:
                    return k("true" if isand else "false", BOOL)
                return k(acc[0] if len(acc) == 1 else "(" + (" && " if isand else " || ").join(acc) + ")", BOOL)
            v = e.values[i]
            try:
                t, ty = pure(fn, v, env)
                return go(i + 1, acc + [as_bool(t, ty, v)])
            except TranslateError as exn:
                if str(exn) != "not pure":
                    raise
            # an operand that can raise: everything before it decides whether it is evaluated at all
            def kv(t, ty):
                t = as_bool(t, ty, v)
                rest = go(i + 1, [t])
                return rest
            inner = ex(fn, v, env, kv)
            if not acc:
                return inner
            guard = acc[0] if len(acc) == 1 else "(" + (" && " if isand else " || ").join(acc) + ")"
            short = k("false" if isand else "true", BOOL)
            if isand:
                return "if %s then (\n%s)\nelse (\n%s)" % (guard, inner, short)
            return "if %s then (\n%s)\nelse (\n%s)" % (guard, short, inner)
        return go(0, [])
    if isinstance(e, ast.Compare):
        return compare(fn, e, env, k)
    if isinstance(e, ast.Subscript):
        return subscript(fn, e, env, k)
    if isinstance(e, ast.Call):
        return call(fn, e, env, k)
    if isinstance(e, ast.Tuple):
        def go(i, acc):
            if i == len(e.elts):
                return k(acc, "tuple")
            return ex(fn, e.elts[i], env, lambda t, ty: go(i + 1, acc + [(t, ty)]))
        return go(0, [])
    bail("unsupported expression", e)


def attribute(fn, e, env, k):
    v = e.value
    if isinstance(v, ast.Name) and env.get(v.id) == RES:
        if e.attr not in RES_ATTRS:
            bail("unsupported attribute of the result object", e)
        getter, ty, _s = RES_ATTRS[e.attr]
        return k("(%s v_%s)" % (getter, v.id), ty)
    if isinstance(v, ast.Name) and v.id == "self":
        if fn.cls == "parserinfo":
            if e.attr in DICTS:
                return k(DICTS[e.attr], "dict")
            if e.attr == "_year":
                return k("v_cur", INT)
            if e.attr == "_century":
                return k("(v_cur / 100 * 100)", INT)      # checked against __init__ (CENTURY_SRC)
        if fn.cls == "_ymd":
            if e.attr in YMD_ATTRS:
                return k(*YMD_ATTRS[e.attr])
            if ("_ymd", e.attr) in PROPERTIES:
                return k("(%s v_self)" % fname("_ymd", e.attr), BOOL)
        bail("unsupported attribute of self", e)
    # self.info.UTCZONE (parser) : the raw class list
    if (isinstance(v, ast.Attribute) and isinstance(v.value, ast.Name) and v.value.id == "self"
            and v.attr == "info" and e.attr == "UTCZONE" and fn.cls == "parser"):
        return k("tbl_utczone_raw", "strlist")
    if isinstance(v, ast.Name) and v.id == "string" and e.attr == "ascii_uppercase":
        return k("ASCII_UPPERCASE", "charset")
    bail("unsupported attribute", e)


def label_membership(fn, e, env):
    """label [not] in [None, 'Y']"""
    if (len(e.ops) == 1 and isinstance(e.ops[0], (ast.In, ast.NotIn)) and isinstance(e.left, ast.Name)
            and env.get(e.left.id) == "label" and isinstance(e.comparators[0], ast.List)):
        parts = []
        for x in e.comparators[0].elts:
            if isinstance(x, ast.Constant) and x.value is None:
                parts.append("(isNone v_%s)" % e.left.id)
            elif isinstance(x, ast.Constant) and x.value in LABELS:
                parts.append("(label_is v_%s %s)" % (e.left.id, LABELS[x.value]))
            else:
                bail("unsupported label list", e)
        r = "(" + " || ".join(parts) + ")"
        return r if isinstance(e.ops[0], ast.In) else "(negb %s)" % r
    return None


def compare(fn, e, env, k):
    """chained comparison with Python's short circuit: a op b op c == (a op b) and (b op c), b evaluated once"""
    lm = label_membership(fn, e, env)
    if lm is not None:
        return k(lm, BOOL)
    if (len(e.ops) == 1 and isinstance(e.ops[0], (ast.In, ast.NotIn)) and isinstance(e.comparators[0], ast.Tuple)
            and all(isinstance(x, ast.Constant) for x in e.comparators[0].elts)):
        consts = [x.value for x in e.comparators[0].elts]
        neg = isinstance(e.ops[0], ast.NotIn)

        def kmem(t, ty):
            if ty == INT and all(isinstance(c, int) and not isinstance(c, bool) for c in consts):
                r = "(" + " || ".join("(%s =? %s)" % (t, lit(c)) for c in consts) + ")"
            elif ty == STR and all(isinstance(c, str) for c in consts):
                r = "(" + " || ".join("(str_eqb %s %s)" % (t, str_lit(c)) for c in consts) + ")"
            else:
                bail("unsupported membership in a tuple", e)
            return k("(negb %s)" % r if neg else r, BOOL)
        return ex(fn, e.left, env, kmem)

    def go(i, lt, lty, acc):
        if i == len(e.ops):
            return k(acc[0] if len(acc) == 1 else "(" + " && ".join(acc) + ")", BOOL)
        op, right = e.ops[i], e.comparators[i]

        def kr(rt, rty):
            c = compare1(op, lt, lty, rt, rty, e)
            return go(i + 1, rt, rty, acc + [c])
        try:
            rt, rty = pure(fn, right, env)
            return kr(rt, rty)
        except TranslateError as exn:
            if str(exn) != "not pure":
                raise
        # the right operand can raise: it is only evaluated if the comparisons so far are true
        def kr2(rt, rty):
            c = compare1(op, lt, lty, rt, rty, e)
            return go(i + 1, rt, rty, [c])
        inner = ex(fn, right, env, kr2)
        if not acc:
            return inner
        guard = acc[0] if len(acc) == 1 else "(" + " && ".join(acc) + ")"
        return "if %s then (\n%s)\nelse (\n%s)" % (guard, inner, k("false", BOOL))
    return ex(fn, e.left, env, lambda lt, lty: go(0, lt, lty, []))


def compare1(op, lt, lty, rt, rty, whole):
    if isinstance(op, (ast.Is, ast.IsNot)) and rty == "none" and lty in (INT, STR):
        return "false" if isinstance(op, ast.Is) else "true"      # a value already known not to be None
    if isinstance(op, (ast.Is, ast.IsNot)):
        if rty != "none" or lty not in (OPTINT, OPTSTR):
            bail("`is` only of an optional value against None", whole)
        return ("(isNone %s)" if isinstance(op, ast.Is) else "(isSome %s)") % lt
    if isinstance(op, (ast.In, ast.NotIn)):
        neg = isinstance(op, ast.NotIn)
        if lty == STR and rty == STR and lt == "[46]":
            r = "(has_dot %s)" % rt                       # '.' in s
        elif lty == STR and rty == "dict":
            r = "(isSome (sassoc %s %s))" % (lt, rt)
        elif lty == STR and rty == "strlist":
            r = "(smem %s %s)" % (lt, rt)
        elif lty == "char" and rty == "charset":
            r = "(is_ascii_upper %s)" % lt
        else:
            bail("unsupported membership test (%s in %s)" % (lty, rty), whole)
        return "(negb %s)" % r if neg else r
    sym = {ast.Lt: "<?", ast.LtE: "<=?", ast.Gt: ">?", ast.GtE: ">=?", ast.Eq: "=?"}
    if lty == INT and rty == INT:
        if type(op) in sym:
            return "(%s %s %s)" % (lt, sym[type(op)], rt)
        if isinstance(op, ast.NotEq):
            return "(negb (%s =? %s))" % (lt, rt)
    if lty == INT and rty == DEC:      # n <= value
        if isinstance(op, ast.LtE):
            return "(dec_ge %s %s)" % (rt, lt)
        if isinstance(op, ast.Lt):
            return "(dec_gt %s %s)" % (rt, lt)
    if lty == DEC and rty == INT and isinstance(op, ast.Gt):
        return "(dec_gt %s %s)" % (lt, rt)
    if lty == DEC and rty == INT and isinstance(op, ast.GtE):
        return "(dec_ge %s %s)" % (lt, rt)
    if lty == DEC and rty == INT:      # value <= n
        if isinstance(op, ast.LtE):
            return "(dec_le %s %s)" % (lt, rt)
        if isinstance(op, ast.Lt):
            return "(dec_lt %s %s)" % (lt, rt)
    if lty == "label" and rty == STR and isinstance(op, (ast.Eq, ast.NotEq)):
        lab = {"[77]": "LM", "[68]": "LD", "[89]": "LY"}.get(rt)
        if lab is None:
            bail("unknown label constant", whole)
        r = "(label_is %s %s)" % (lt, lab)
        return r if isinstance(op, ast.Eq) else "(negb %s)" % r
    if lty == OPTINT and rty == INT and isinstance(op, (ast.Eq, ast.NotEq)):
        r = "(opt_eqz %s %s)" % (lt, rt)
        return r if isinstance(op, ast.Eq) else "(negb %s)" % r
    if lty == OPTSTR and rty == STR and isinstance(op, (ast.Eq, ast.NotEq)):
        r = "(ostr_eq %s %s)" % (lt, rt)
        return r if isinstance(op, ast.Eq) else "(negb %s)" % r
    if lty == STR and rty == STR and isinstance(op, (ast.Eq, ast.NotEq)):
        r = "(str_eqb %s %s)" % (lt, rt)
        return r if isinstance(op, ast.Eq) else "(negb %s)" % r
    bail("unsupported comparison between %s and %s" % (lty, rty), whole)


LJUST6 = "f.ljust(6, '0')[:6]"


def subscript(fn, e, env, k):
    # f.ljust(6, "0")[:6]
    if (isinstance(e.slice, ast.Slice) and isinstance(e.value, ast.Call) and isinstance(e.value.func, ast.Attribute)
            and e.value.func.attr == "ljust" and isinstance(e.value.func.value, ast.Name)):
        nm = e.value.func.value.id
        if env.get(nm) == STR and ast.dump(e) == ast.dump(ast.parse(LJUST6.replace("f.", nm + "."), mode="eval").body):
            return k("(ljust6 v_%s)" % nm, STR)
        bail("unsupported ljust idiom", e)
    # monthrange(y, m)[1]
    if (isinstance(e.value, ast.Call) and isinstance(e.value.func, ast.Name) and e.value.func.id == "monthrange"
            and len(e.value.args) == 2 and not e.value.keywords
            and isinstance(e.slice, ast.Constant) and e.slice.value == 1):
        def ky(yt, yty):
            def km(mt, mty):
                if yty != INT or mty != INT:
                    bail("monthrange of non-ints", e)
                r = fn.tmp()
                return "bind (monthlen %s %s) (fun %s =>\n%s)" % (yt, mt, r, k(r, INT))
            return ex(fn, e.value.args[1], env, km)
        return ex(fn, e.value.args[0], env, ky)

    if isinstance(e.slice, ast.Slice) and e.slice.step is None:
        lo, hi = e.slice.lower, e.slice.upper
        cl = lo.value if isinstance(lo, ast.Constant) and isinstance(lo.value, int) else None
        ch = hi.value if isinstance(hi, ast.Constant) and isinstance(hi.value, int) else None
        if (lo is not None and cl is None) or (hi is not None and ch is None) or (cl or 0) < 0 or (ch or 0) < 0:
            bail("str slices need non-negative constant bounds", e)

        def ks(t, ty):
            if ty != STR:
                bail("slice of a non-str", e)
            if lo is None and hi is not None:
                return k("(firstn %d %s)" % (ch, t), STR)
            if lo is not None and hi is None:
                return k("(skipn %d %s)" % (cl, t), STR)
            if lo is not None and hi is not None and cl <= ch:
                return k("(slice %d %d %s)" % (cl, ch, t), STR)
            bail("unsupported slice", e)
        return ex(fn, e.value, env, ks)

    def kv(vt, vty):
        def ki(it, ity):
            r = fn.tmp()
            if vty == TOKENS and ity == INT:
                return "bind (tok_get %s %s) (fun %s =>\n%s)" % (vt, it, r, k(r, STR))
            if vty == YMD and ity == INT:
                return "bind (getz (y_vals %s) %s) (fun %s =>\n%s)" % (vt, it, r, k(r, INT))
            if vty == YMD and ity == OPTINT:
                o = fn.tmp("o")      # list[None] is a TypeError
                return ("match %s with\n| Some %s => bind (getz (y_vals %s) %s) (fun %s =>\n%s)\n| None => Err TypeError\nend"
                        % (it, o, vt, o, r, k(r, INT)))
            if vty == "dict" and ity == STR:
                bail("a dictionary subscript outside try/except KeyError", e)
            bail("unsupported subscript (%s[%s])" % (vty, ity), e)
        return ex(fn, e.slice, env, ki)
    return ex(fn, e.value, env, kv)


def resolve_target(fn, f, env, args0):
    """which translated function does the call f(...) denote?  -> (cls, name, receiver text or None)"""
    if not isinstance(f, ast.Attribute) or not isinstance(f.value, ast.Name):
        return None
    v = f.value
    if v.id == "info" and f.attr in SIGS["parserinfo"]:
        return ("parserinfo", f.attr, None)
    if v.id == "self" and f.attr in SIGS[fn.cls]:
        return (fn.cls, f.attr, "v_self" if fn.cls == "_ymd" else None)
    if env.get(v.id) == YMD and v.id != "self":
        if f.attr == "append":
            return ("_ymd", "append", "v_" + v.id)
        if f.attr in SIGS["_ymd"]:
            return ("_ymd", f.attr, "v_" + v.id)
    return None


def call(fn, e, env, k):
    f = e.func
    if e.keywords and resolve_target(fn, f, env, e.args) is None:
        bail("keyword arguments", e)
    if isinstance(f, ast.Name):
        if f.id == "len" and len(e.args) == 1:
            def kl(t, ty):
                if ty == TOKENS:
                    return k("(Z.of_nat (length %s))" % t, INT)
                if ty == STR:
                    return k("(slen %s)" % t, INT)
                if ty == YMD:
                    return k("(ylen %s)" % t, INT)
                if ty == "strids":
                    return k(NSTRIDS, INT)
                bail("len of unsupported value", e)
            return ex(fn, e.args[0], env, kl)
        if f.id == "hasattr" and len(e.args) == 2 and isinstance(e.args[1], ast.Constant) \
                and e.args[1].value == "__len__" and isinstance(e.args[0], ast.Name):
            ty0 = env.get(e.args[0].id)
            if ty0 == STR:
                return k("true", BOOL)
            if ty0 in (DEC, INT):
                return k("false", BOOL)
            bail("hasattr(., '__len__') on unsupported value", e)
        if f.id == "int" and len(e.args) == 1:
            def kint(t, ty):
                if ty == INT:
                    return k(t, INT)
                if ty == DEC:
                    return k("(dec_int %s)" % t, INT)
                if ty == STR:
                    r = fn.tmp()
                    return "bind (py_int %s) (fun %s =>\n%s)" % (t, r, k(r, INT))
                if isinstance(ty, tuple) and ty[0] == "rem60":
                    return k("(frac60 %s)" % ty[1], INT)       # int(60 * (value - int(value)))
                bail("int() of unsupported value", e)
            return ex(fn, e.args[0], env, kint)
        if f.id == "all" and len(e.args) == 1 and isinstance(e.args[0], ast.GeneratorExp):
            g = e.args[0]
            if (len(g.generators) != 1 or g.generators[0].ifs or not isinstance(g.generators[0].target, ast.Name)):
                bail("unsupported generator", e)
            var = g.generators[0].target.id
            it, ity = pure(fn, g.generators[0].iter, env)
            if ity != STR:
                bail("all() over a non-string", e)
            env2 = dict(env)
            env2[var] = "char"
            c, cty = pure(fn, g.elt, env2)
            return k("(forallb (fun v_%s => %s) %s)" % (var, as_bool(c, cty, e), it), BOOL)
        bail("unsupported function " + f.id, e)
    if isinstance(f, ast.Attribute):
        v = f.value
        if (f.attr == "find" and len(e.args) == 1 and isinstance(e.args[0], ast.Constant) and e.args[0].value == "."):
            return ex(fn, v, env, lambda t, ty: k("(find_dot %s 0)" % t, INT) if ty == STR else bail("find on non-str", e))
        if f.attr == "isdigit" and not e.args:
            return ex(fn, v, env, lambda t, ty: k("(py_isdigit %s)" % t, BOOL) if ty == STR
                      else bail("isdigit of non-str", e))
        # name.lower()
        if f.attr == "lower" and not e.args:
            return ex(fn, v, env, lambda t, ty: k("(lower %s)" % t, STR) if ty == STR else bail("lower of non-str", e))
        # d.get(k)
        if f.attr == "get" and len(e.args) == 1:
            def kd(dt, dty):
                if dty != "dict":
                    bail(".get on a non-dictionary", e)
                return ex(fn, e.args[0], env, lambda t, ty: k("(sassoc %s %s)" % (t, dt), OPTINT) if ty == STR
                          else bail("dictionary key must be a str", e))
            return ex(fn, v, env, kd)
        if (isinstance(v, ast.Name) and v.id == "self" and f.attr == "_to_decimal" and len(e.args) == 1
                and fn.cls == "parser"):
            # Decimal(val) + is_finite, every failure -> ValueError: a primitive of the model (pinned, not translated)
            def kdec(t, ty):
                if ty != STR:
                    bail("_to_decimal of a non-str", e)
                r = fn.tmp()
                return "bind (to_decimal %s) (fun %s =>\n%s)" % (t, r, k(r, DEC))
            return ex(fn, e.args[0], env, kdec)
        # calls of translated functions: info.f(..), self.f(..), ymd.f(..)
        tgt = resolve_target(fn, f, env, e.args)
        if tgt is not None:
            tcls, tname, recv = tgt
            if tname == "append":
                bail("append is a statement", e)
            params, rty = SIGS[tcls][tname]
            pnames = [p[0] for p in params]
            given = {}
            if len(e.args) > len(params):
                bail("too many arguments", e)
            for p, a in zip(params, e.args):
                given[p[0]] = a
            for kw in e.keywords:
                if kw.arg not in pnames or kw.arg in given:
                    bail("bad keyword argument", e)
                given[kw.arg] = kw.value
            order = [p for p in params if p[1] is not None]
            for p in params:
                if p[1] is None and not (p[0] in given and isinstance(given[p[0]], ast.Name) and given[p[0]].id == "info"):
                    bail("the parserinfo argument must be `info`", e)

            def go(i, acc):
                if i == len(order):
                    extra = " v_cur" if (tcls, tname) in (("parserinfo", "convertyear"), ("parserinfo", "validate")) else ""
                    extra += (" " + recv) if recv else ""
                    r = fn.tmp()
                    if (tcls, tname) in MUTATES:
                        bail("a mutating function used as an expression", e)
                    if (tcls, tname) in PROPERTIES:
                        bail("property called", e)
                    return "bind (%s%s %s) (fun %s =>\n%s)" % (fname(tcls, tname), extra, " ".join(acc), r, k(r, rty))
                pn, want, dflt = order[i]
                if pn not in given:
                    if dflt is None:
                        bail("missing argument " + pn, e)
                    return go(i + 1, acc + [dflt])

                def ka(t, ty):
                    if (ty, want) in ((OPTINT, INT), (OPTSTR, STR)):
                        o = fn.tmp("a")
                        return "match %s with\n| Some %s =>\n%s\n| None => Err TypeError\nend" % (t, o, go(i + 1, acc + [o]))
                    if ty != want:
                        bail("argument type %s, expected %s" % (ty, want), e)
                    return go(i + 1, acc + [t])
                return ex(fn, given[pn], env, ka)
            return go(0, [])
    bail("unsupported call", e)


# ------------------------------------------------------------------------------------ statements

def coerce_ret(fn, t, ty, node):
    want = fn.ret
    if isinstance(want, tuple):
        if ty != "tuple" or len(t) != len(want[1]):
            bail("return of a non-tuple", node)
        parts = []
        for (xt, xty), w in zip(t, want[1]):
            parts.append(coerce1(xt, xty, w, node))
        return "(" + ", ".join(parts) + ")"
    return coerce1(t, ty, want, node)


def coerce1(t, ty, want, node):
    if ty == want:
        return t
    if want == OPTINT and ty == INT:
        return "(Some %s)" % t
    if want in (OPTINT, OPTSTR) and ty == "none":
        return "None"
    bail("value of type %s where %s is expected" % (ty, want), node)


def is_raise(s, cls):
    if isinstance(s, ast.Raise) and s.exc is not None and s.cause is None:
        exc = s.exc.func if isinstance(s.exc, ast.Call) else s.exc
        return isinstance(exc, ast.Name) and exc.id == cls
    return False


def none_test(test, env):
    """`x is None` / `x is not None` on a name of optional type -> (name, True if 'is None')"""
    if (isinstance(test, ast.Compare) and len(test.ops) == 1 and isinstance(test.ops[0], (ast.Is, ast.IsNot))
            and isinstance(test.left, ast.Name) and isinstance(test.comparators[0], ast.Constant)
            and test.comparators[0].value is None and env.get(test.left.id) in (OPTINT, OPTSTR)):
        return test.left.id, isinstance(test.ops[0], ast.Is)
    return None


def block(fn, stmts, env, kend):
    if not stmts:
        return kend(env)
    s, rest = stmts[0], stmts[1:]
    cont = lambda env2: block(fn, rest, env2, kend)
    if isinstance(s, ast.Expr) and isinstance(s.value, ast.Constant) and isinstance(s.value.value, str):
        return cont(env)
    if isinstance(s, ast.Pass):
        return cont(env)
    if is_raise(s, "ValueError"):
        return "Err ValueError"
    if isinstance(s, ast.Assert):
        if s.msg is not None:
            bail("assert with a message", s)
        return ex(fn, s.test, env, lambda t, ty: "if %s then (\n%s)\nelse Err AssertionError" % (
            as_bool(t, ty, s), cont(env)))
    if isinstance(s, ast.Return):
        if s.value is None:
            bail("bare return", s)
        v = s.value
        if (isinstance(v, ast.Call) and isinstance(v.func, ast.Attribute) and isinstance(v.func.value, ast.Name)
                and v.func.value.id == "self" and v.func.attr == "_resolve_from_stridxs" and len(v.args) == 1
                and isinstance(v.args[0], ast.Name) and env.get(v.args[0].id) == "strids" and fn.cls == "_ymd"
                and fn.ret == ("tuple", (OPTINT, OPTINT, OPTINT))):
            return "resolve_from_stridxs v_self"     # hand-modelled (pinned) callee, same result type
        if muts(fn):
            return ex(fn, s.value, env, lambda t, ty: "Ok (%s%s)" % (coerce_ret(fn, t, ty, s), mut_tail(fn)))
        return ex(fn, s.value, env, lambda t, ty: "Ok %s" % coerce_ret(fn, t, ty, s))
    if (isinstance(s, ast.Assign) and len(s.targets) == 1 and isinstance(s.targets[0], ast.Attribute)
            and isinstance(s.targets[0].value, ast.Name) and env.get(s.targets[0].value.id) == YMD):
        obj, attr = s.targets[0].value.id, s.targets[0].attr
        if attr not in YMD_SETTERS or obj not in muts(fn):
            bail("unsupported attribute assignment", s)
        setter, aty = YMD_SETTERS[attr]

        def kys(t, ty):
            if (aty, ty) == (OPTINT, INT):
                t = "(Some %s)" % t
            elif ty != aty:
                bail("attribute %s assigned a %s" % (attr, ty), s)
            return "let v_%s := %s v_%s %s in\n%s" % (obj, setter, obj, t, cont(env))
        return ex(fn, s.value, env, kys)
    if (isinstance(s, ast.Expr) and isinstance(s.value, ast.Call) and isinstance(s.value.func, ast.Attribute)
            and s.value.func.attr == "append" and len(s.value.args) == 1 and not s.value.keywords
            and ast.dump(s.value.func.value) == ast.dump(ast.parse("super(self.__class__, self)", mode="eval").body)
            and env.get("self") == YMD and "self" in muts(fn)):
        # list.append on the underlying list
        return ex(fn, s.value.args[0], env, lambda t, ty: "let v_self := ymd_push v_self %s in\n%s" % (t, cont(env))
                  if ty == INT else bail("only ints are stored in _ymd", s))
    if (isinstance(s, ast.Assign) and len(s.targets) == 1 and isinstance(s.targets[0], ast.Name)
            and env.get(s.targets[0].id) == "label" and isinstance(s.value, ast.Constant)
            and s.value.value in LABELS):
        return "let v_%s := Some %s in\n%s" % (s.targets[0].id, LABELS[s.value.value], cont(env))
    if (isinstance(s, ast.Assign) and len(s.targets) == 1 and isinstance(s.targets[0], ast.Attribute)
            and isinstance(s.targets[0].value, ast.Name) and env.get(s.targets[0].value.id) == RES):
        obj, attr = s.targets[0].value.id, s.targets[0].attr
        if attr not in RES_ATTRS or RES_ATTRS[attr][2] is None or obj not in muts(fn):
            bail("unsupported attribute assignment", s)
        _g, aty, setter = RES_ATTRS[attr]

        fn.prov.pop(obj + "." + attr, None)
        vv = s.value
        if (isinstance(vv, ast.Call) and isinstance(vv.func, ast.Name) and vv.func.id == "int" and len(vv.args) == 1
                and isinstance(vv.args[0], ast.Name) and env.get(vv.args[0].id) == DEC):
            fn.prov[obj + "." + attr] = vv.args[0].id

        def kset(t, ty):
            if (aty, ty) in ((OPTINT, INT), (OPTSTR, STR)):
                t = "(Some %s)" % t
            elif ty != aty:
                bail("attribute %s assigned a %s" % (attr, ty), s)
            return "let v_%s := %s v_%s %s in\n%s" % (obj, setter, obj, t, cont(env))
        return ex(fn, s.value, env, kset)
    if (isinstance(s, ast.Assign) and len(s.targets) == 1 and isinstance(s.targets[0], ast.Name)
            and s.targets[0].id == "strids" and fn.cls == "_ymd"):
        env2 = dict(env)
        if same_ast(s.value, STRID_PAIRS):
            env2["strids"] = "stridpairs"
            return cont(env2)
        if same_ast(s.value, STRID_DICT) and env.get("strids") == "stridpairs":
            env2["strids"] = "strids"
            return cont(env2)
        bail("unsupported construction of strids", s)
    if (isinstance(s, ast.Assign) and len(s.targets) == 1 and isinstance(s.targets[0], ast.Tuple)
            and all(isinstance(x, ast.Attribute) and isinstance(x.value, ast.Name) and env.get(x.value.id) == RES
                    for x in s.targets[0].elts) and isinstance(s.value, ast.Call)):
        # (res.a, res.b) = self.f(...)
        tg = s.targets[0].elts
        obj = tg[0].value.id
        if any(x.value.id != obj for x in tg) or obj not in muts(fn):
            bail("unsupported attribute tuple assignment", s)

        def ktup(t, ty):
            if not (isinstance(ty, tuple) and ty[0] == "tuple" and len(ty[1]) == len(tg)):
                bail("tuple assignment from a non-tuple", s)
            us = [fn.tmp("u") for _ in tg]
            code = "let '(%s) := %s in\n" % (", ".join(us), t)
            for x, u, uty in zip(tg, us, ty[1]):
                if x.attr not in RES_ATTRS or RES_ATTRS[x.attr][2] is None:
                    bail("unsupported attribute assignment", s)
                _g, aty, setter = RES_ATTRS[x.attr]
                val = "(Some %s)" % u if (aty, uty) == (OPTINT, INT) else u
                if (aty, uty) not in ((OPTINT, INT), (OPTINT, OPTINT)):
                    bail("attribute %s assigned a %s" % (x.attr, uty), s)
                fn.prov.pop(obj + "." + x.attr, None)
                code += "let v_%s := %s v_%s %s in\n" % (obj, setter, obj, val)
            return code + cont(env)
        return ex(fn, s.value, env, ktup)
    if (isinstance(s, ast.Assign) and len(s.targets) == 1 and isinstance(s.targets[0], ast.Tuple)
            and all(isinstance(x, ast.Name) for x in s.targets[0].elts) and isinstance(s.value, ast.Call)
            and isinstance(s.value.func, ast.Attribute) and s.value.func.attr == "split"):
        # i, f = value.split("."): exactly two parts, else ValueError
        c = s.value
        names = [x.id for x in s.targets[0].elts]
        if not (len(names) == 2 and len(c.args) == 1 and isinstance(c.args[0], ast.Constant) and c.args[0].value == "."
                and isinstance(c.func.value, ast.Name) and env.get(c.func.value.id) == STR):
            bail("unsupported split idiom", s)
        env2 = dict(env)
        env2[names[0]] = STR
        env2[names[1]] = STR
        r = fn.tmp("r")
        return "bind (split2_dot v_%s) (fun %s => let '(v_%s, v_%s) := %s in\n%s)" % (
            c.func.value.id, r, names[0], names[1], r, cont(env2))
    if (isinstance(s, ast.Assign) and len(s.targets) == 1 and isinstance(s.targets[0], ast.Tuple)
            and all(isinstance(x, ast.Name) for x in s.targets[0].elts) and isinstance(s.value, ast.Call)
            and resolve_target(fn, s.value.func, env, s.value.args) is not None):
        names = [x.id for x in s.targets[0].elts]

        def kun(t, ty):
            if not (isinstance(ty, tuple) and ty[0] == "tuple" and len(ty[1]) == len(names)):
                bail("tuple assignment from a non-tuple", s)
            env2 = dict(env)
            for nm, xt in zip(names, ty[1]):
                env2[nm] = xt
            return "let '(%s) := %s in\n%s" % (", ".join("v_" + nm for nm in names), t, cont(env2))
        return ex(fn, s.value, env, kun)
    if (isinstance(s, ast.Assign) and len(s.targets) == 1 and isinstance(s.targets[0], ast.Tuple)
            and all(isinstance(x, ast.Name) for x in s.targets[0].elts)):
        names = [x.id for x in s.targets[0].elts]
        if isinstance(s.value, ast.Tuple) and all(isinstance(x, ast.Constant) and x.value is None for x in s.value.elts) \
                and len(s.value.elts) == len(names):
            env2 = dict(env)
            code = ""
            for nm in names:
                env2[nm] = OPTINT
                code += "let v_%s : option Z := None in\n" % nm
            return code + cont(env2)
        if isinstance(s.value, ast.Name) and env.get(s.value.id) == YMD:
            # a, b[, c] = self : unpacking iterates the list; a different length is a ValueError
            env2 = dict(env)
            us = [fn.tmp("u") for _ in names]
            code = "match y_vals v_%s with\n| [%s] =>\n" % (s.value.id, "; ".join(us))
            for nm, u in zip(names, us):
                if env.get(nm) == OPTINT:
                    code += "let v_%s := Some %s in\n" % (nm, u)
                else:
                    env2[nm] = INT
                    code += "let v_%s := %s in\n" % (nm, u)
            return code + cont(env2) + "\n| _ => Err ValueError\nend"
        bail("unsupported tuple assignment", s)
    if isinstance(s, ast.Assign):
        if len(s.targets) != 1 or not isinstance(s.targets[0], ast.Name):
            bail("unsupported assignment target", s)
        name = s.targets[0].id

        def ka(t, ty):
            env2 = dict(env)
            fn.prov.pop(name, None)
            for kname in [q for q, src in fn.prov.items() if src == name]:
                fn.prov.pop(kname)
            v = s.value
            if (ty == INT and isinstance(v, ast.Call) and isinstance(v.func, ast.Name) and v.func.id == "int"
                    and len(v.args) == 1 and isinstance(v.args[0], ast.Name) and env.get(v.args[0].id) == DEC):
                fn.prov[name] = v.args[0].id
            if isinstance(ty, tuple) and ty[0] == "rem":
                env2[name] = ty
                return cont(env2)
            if ty == "none":
                # x = None: the variable is optional; its base type is fixed by the other assignments
                other = env.get(name) or opt_type_of(fn, name, s)
                env2[name] = other
                return "let v_%s : %s := None in\n%s" % (name, COQTY[other], cont(env2))
            if env.get(name) == OPTINT and ty == INT:
                t, ty = "(Some %s)" % t, OPTINT
            if ty in ("tuple", "dict", "strlist", "charset", "char"):
                bail("unsupported value in an assignment", s)
            env2[name] = ty
            return "let v_%s := %s in\n%s" % (name, t, cont(env2))
        return ex(fn, s.value, env, ka)
    if isinstance(s, ast.AugAssign):
        if not isinstance(s.target, ast.Name) or env.get(s.target.id) != INT or not isinstance(s.op, (ast.Add, ast.Sub)):
            bail("unsupported augmented assignment", s)
        sym = "+" if isinstance(s.op, ast.Add) else "-"
        name = s.target.id
        return ex(fn, s.value, env, lambda t, ty: "let v_%s := (v_%s %s %s) in\n%s" % (name, name, sym, t, cont(env))
                  if ty == INT else bail("augmented assignment of a non-int", s))
    if isinstance(s, ast.Expr) and isinstance(s.value, ast.Call):
        c = s.value
        tgt = resolve_target(fn, c.func, env, c.args)
        if tgt is None:
            bail("unsupported expression statement", s)
        tcls, tname, recv = tgt
        if tname == "append":
            # ymd.append(val[, label]): specialised on the type of val
            if not (1 <= len(c.args) <= 2) or c.keywords or recv is None or recv[2:] not in muts(fn):
                bail("unsupported append call", s)
            lab = "None"
            if len(c.args) == 2:
                if not (isinstance(c.args[1], ast.Constant) and c.args[1].value in LABELS):
                    bail("append label must be a constant", s)
                lab = "(Some %s)" % LABELS[c.args[1].value]

            def kap(t, ty):
                variant = {STR: "append_str", DEC: "append_dec", INT: "append_int"}.get(ty)
                if variant is None:
                    bail("append of a value of type %s" % ty, s)
                r = fn.tmp("r")
                return "bind (%s %s %s %s) (fun %s => let '(_, %s) := %s in\n%s)" % (
                    fname("_ymd", variant), recv, t, lab, r, recv, r, cont(env))
            return ex(fn, c.args[0], env, kap)
        if (tcls, tname) not in MUTATES:
            bail("call statement of a non-mutating function", s)
        params, _rty = SIGS[tcls][tname]
        order = [p for p in params if p[1] is not None]
        if c.keywords or len(c.args) != len(order):
            bail("unsupported call statement", s)
        mnames = MUTATES[(tcls, tname)]

        def gos(i, acc):
            if i == len(order):
                r = fn.tmp("r")
                objs = [a for a, p in zip(acc, order) if p[0] in mnames]
                for ob in objs:
                    if ob[2:] not in muts(fn):
                        bail("callee mutates an object this function does not own", s)
                pat = "(_, " + ", ".join(objs) + ")"
                return "bind (%s %s) (fun %s => let '%s := %s in\n%s)" % (fname(tcls, tname), " ".join(acc), r, pat, r,
                                                                        cont(env))
            return ex(fn, c.args[i], env, lambda t, ty: gos(i + 1, acc + [t]) if ty == order[i][1]
                      else bail("argument type %s, expected %s" % (ty, order[i][1]), s))
        return gos(0, [])
    if isinstance(s, ast.If):
        nt = none_test(s.test, env)
        if nt is not None:
            name, isnone = nt
            base = INT if env[name] == OPTINT else STR
            env_some = dict(env)
            env_some[name] = base
            none_body, some_body = (s.body, s.orelse) if isnone else (s.orelse, s.body)
            a = block(fn, list(none_body) + list(rest), env, kend)
            b = block(fn, list(some_body) + list(rest), env_some, kend)
            # inside the Some branch the name is rebound to the payload
            return "match v_%s with\n| None =>\n%s\n| Some v_%s =>\n%s\nend" % (name, a, name, b)

        def kc(t, ty):
            c = as_bool(t, ty, s)
            if c == "true":
                return block(fn, list(s.body) + list(rest), env, kend)
            if c == "false":
                return block(fn, list(s.orelse) + list(rest), env, kend)
            a = block(fn, list(s.body) + list(rest), env, kend)
            b = block(fn, list(s.orelse) + list(rest), env, kend)
            return "if %s then (\n%s)\nelse (\n%s)" % (c, a, b)
        try:
            t, ty = pure(fn, s.test, env)
            return kc(t, ty)
        except TranslateError as exn:
            if str(exn) != "not pure":
                raise
        # a test that can raise / short-circuits over calls: evaluate it once as a monadic bool, then branch
        # (the branches are emitted once instead of once per way the test can come out)
        cexpr = ex(fn, s.test, env, lambda t, ty: "Ok %s" % as_bool(t, ty, s))
        cv = fn.tmp("c")
        a = block(fn, list(s.body) + list(rest), env, kend)
        b = block(fn, list(s.orelse) + list(rest), env, kend)
        return "bind (%s) (fun %s =>\nif %s then (\n%s)\nelse (\n%s))" % (cexpr, cv, cv, a, b)
    if isinstance(s, ast.Try):
        return try_stmt(fn, s, rest, env, kend)
    bail("unsupported statement", s)


def opt_type_of(fn, name, node):
    # optional variables of the translated functions
    table = {("parser", "_find_hms_idx", "hms_idx"): OPTINT, ("parser", "_parse_hms", "hms"): OPTINT,
             ("parser", "_parse_min_sec", "second"): OPTINT}
    t = table.get((fn.cls, fn.name, name))
    if t is None:
        bail("cannot type `%s = None`" % name, node)
    return t


def try_stmt(fn, s, rest, env, kend):
    """try: return D[key] [+ n]   except KeyError: pass | return None
       try: x = self._to_decimal(e)   except Exception as e: six.raise_from(ValueError(...), e)"""
    if (len(s.handlers) == 1 and not s.orelse and not s.finalbody and len(s.body) == 1
            and isinstance(s.body[0], ast.Assign) and isinstance(s.handlers[0].type, ast.Name)
            and s.handlers[0].type.id == "Exception" and len(s.handlers[0].body) == 1):
        hb = s.handlers[0].body[0]
        israise = is_raise(hb, "ValueError") or (
            isinstance(hb, ast.Expr) and isinstance(hb.value, ast.Call) and isinstance(hb.value.func, ast.Attribute)
            and hb.value.func.attr == "raise_from" and len(hb.value.args) == 2
            and isinstance(hb.value.args[0], ast.Call) and isinstance(hb.value.args[0].func, ast.Name)
            and hb.value.args[0].func.id == "ValueError")
        a = s.body[0]
        if not israise or len(a.targets) != 1 or not isinstance(a.targets[0], ast.Name):
            bail("unsupported try statement", s)
        got = []

        def kv(t, ty):
            got.append(ty)
            return "Ok %s" % t
        body = ex(fn, a.value, env, kv)
        if len(got) != 1 or isinstance(got[0], tuple):
            bail("unsupported try body", s)
        env2 = dict(env)
        env2[a.targets[0].id] = got[0]
        return "bind (any_to_valueerror (%s)) (fun v_%s =>\n%s)" % (body, a.targets[0].id,
                                                                  block(fn, list(rest), env2, kend))
    if (len(s.handlers) != 1 or s.orelse or s.finalbody or len(s.body) != 1 or not isinstance(s.body[0], ast.Return)
            or not isinstance(s.handlers[0].type, ast.Name) or s.handlers[0].type.id != "KeyError"
            or len(s.handlers[0].body) != 1):
        bail("unsupported try statement", s)
    val = s.body[0].value
    plus = None
    if isinstance(val, ast.BinOp) and isinstance(val.op, ast.Add) and isinstance(val.right, ast.Constant) \
            and isinstance(val.right.value, int):
        val, plus = val.left, val.right.value
    if not isinstance(val, ast.Subscript):
        bail("try body must return a dictionary subscript", s)
    dt, dty = pure(fn, val.value, env)
    kt, kty = pure(fn, val.slice, env)
    if dty != "dict" or kty != STR:
        bail("try body must return a dictionary subscript", s)
    hb = s.handlers[0].body[0]
    if isinstance(hb, ast.Pass):
        h_code = block(fn, list(rest), env, kend)
    elif isinstance(hb, ast.Return):
        h_code = block(fn, [hb], env, kend)
    else:
        bail("unsupported except body", s)
    v = fn.tmp("d")
    hit = v if plus is None else "(%s + %d)" % (v, plus)
    return "match sassoc %s %s with\n| Some %s => Ok %s\n| None =>\n%s\nend" % (
        kt, dt, v, coerce1(hit, INT, fn.ret, s), h_code)


# ------------------------------------------------------------------------------------ driver

def translate_fn(cls, name, node):
    params, rty = SIGS[cls][name]
    a = node.args
    if a.vararg or a.kwarg or a.kwonlyargs or a.posonlyargs:
        bail("unsupported signature of %s.%s" % (cls, name))
    if [x.arg for x in a.args] != ["self"] + [p[0] for p in params]:
        bail("unexpected parameters of %s.%s: %r" % (cls, name, [x.arg for x in a.args]))
    defaults = [p for p in params if p[2] is not None]
    if len(a.defaults) != len(defaults):
        bail("unexpected defaults of %s.%s" % (cls, name))
    for p, d in zip(defaults, a.defaults):
        ok = isinstance(d, ast.Constant) and ((d.value is False and p[2] == "false") or (d.value is None and p[2] == "None"))
        if not ok:
            bail("unexpected default value in %s.%s" % (cls, name))
    decs = [ast.dump(d) for d in node.decorator_list]
    isprop = (cls, name) in PROPERTIES
    if isprop:
        if len(node.decorator_list) != 1 or not (isinstance(node.decorator_list[0], ast.Name)
                                                 and node.decorator_list[0].id == "property"):
            bail("%s.%s must be a @property" % (cls, name))
    elif decs:
        bail("unexpected decorator on %s.%s" % (cls, name))
    fn = Fn(cls, name)
    env = {p[0]: p[1] for p in params if p[1] is not None}
    if cls == "_ymd":
        env["self"] = YMD

    def fell(_env):
        if rty == "unit" and (cls, name) in MUTATES:
            return "Ok (tt%s)" % "".join(", v_%s" % m for m in MUTATES[(cls, name)])     # implicit `return None`
        bail("control falls off the end of %s.%s" % (cls, name))
    body = block(fn, list(node.body), env, fell)
    ps = []
    if (cls, name) in (("parserinfo", "convertyear"), ("parserinfo", "validate")):
        ps.append("(v_cur : Z)")
    if cls == "_ymd":
        ps.append("(v_self : ymd)")
    ps += ["(v_%s : %s)" % (p[0], COQTY[p[1]]) for p in params if p[1] is not None]
    if isprop:
        # properties are total and pure: emitted without the monad
        if not (body.startswith("Ok ") and "\n" not in body):
            bail("property %s.%s is not a single pure expression" % (cls, name))
        return "Definition %s %s : %s :=\n%s." % (fname(cls, name), " ".join(ps), coqty(rty), body[3:])
    if (cls, name) in MUTATES:
        mtys = " * ".join("ymd" if (m == "ymd" or (m == "self" and cls == "_ymd")) else "pres" for m in MUTATES[(cls, name)])
        return "Definition %s %s : R (%s * %s) :=\n%s." % (fname(cls, name), " ".join(ps), coqty(rty), mtys, body)
    return "Definition %s %s : R (%s) :=\n%s." % (fname(cls, name), " ".join(ps), coqty(rty), body)


def translate(src):
    tree = ast.parse(src)
    classes = {n.name: n for n in tree.body if isinstance(n, ast.ClassDef)}
    out = ["(* GENERATED by harness/gen_parse.py from /repo/src/dateutil/parser/_parser.py -- do not edit *)",
           "From Coq Require Import ZArith List Bool.",
           "From V Require Import base.Cal gen.ParseTables parse.Lex parse.Prim parse.Ymd parse.Parse parse.ParseGenLib.",
           "Import ListNotations.", "Open Scope Z_scope.", ""]
    for cname in ("parserinfo", "_ymd", "parser"):
        if cname not in classes:
            bail("class %s not found" % cname)
    init = [n for n in classes["parserinfo"].body if isinstance(n, ast.FunctionDef) and n.name == "__init__"]
    want = ast.dump(ast.parse(CENTURY_SRC).body[0])
    if len(init) != 1 or want not in [ast.dump(x) for x in init[0].body]:
        bail("parserinfo.__init__ no longer computes `%s`" % CENTURY_SRC)
    dict_src = {"_jump": "JUMP", "_weekdays": "WEEKDAYS", "_months": "MONTHS", "_hms": "HMS", "_ampm": "AMPM",
                "_utczone": "UTCZONE", "_pertain": "PERTAIN"}
    init_dump = [ast.dump(x) for x in init[0].body]
    for attr, lst in dict_src.items():
        if ast.dump(ast.parse("self.%s = self._convert(self.%s)" % (attr, lst)).body[0]) not in init_dump:
            bail("parserinfo.__init__ no longer builds self.%s from self.%s" % (attr, lst))
    for pname, h in compute_pins(tree).items():
        if PINNED[pname] != h:
            bail("the hand-modelled part of %r changed (AST hash %s, pinned %s): the hand model was validated against "
                 "the pinned text" % (pname, h, PINNED[pname]))
    for cls, name in ORDER:
        nodes = [n for n in classes[cls].body if isinstance(n, ast.FunctionDef) and n.name == PY_NAME.get(name, name)]
        if len(nodes) != 1:
            bail("method %s.%s not found" % (cls, name))
        out.append(translate_fn(cls, name, nodes[0]))
        out.append("")
    return "\n".join(out)


if __name__ == "__main__":
    here = os.path.dirname(os.path.dirname(os.path.abspath(__file__)))
    repo = os.environ.get("VERIF_REPO", "/repo")
    src_path = sys.argv[1] if len(sys.argv) > 1 else os.path.join(repo, "src/dateutil/parser/_parser.py")
    out_path = sys.argv[2] if len(sys.argv) > 2 else os.path.join(here, "coq/gen/ParseGen.v")
    try:
        txt = translate(open(src_path).read())
    except TranslateError as ex:
        print("TRANSLATE-ERROR (gen_parse): %s" % ex)
        sys.exit(1)
    try:
        old = open(out_path).read()
    except OSError:
        old = None
    if old != txt:
        open(out_path, "w").write(txt)
        print("regenerated", out_path)
