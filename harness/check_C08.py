#!/usr/bin/env python3
"""C08 -- tzstr / tzrange / tzlocal implement POSIX TZ rule semantics.
Hand model (coq/posix) + theorems (coq/props/C08.v) + differential correspondence:
implementation vs extracted model, implementation vs extracted specification, glibc as an
additional witness for the specification."""
import json
import os
import re
import sys
import time

sys.path.insert(0, os.path.dirname(os.path.abspath(__file__)))
import common as C

C.reexec_under_impl_python()
import posix_common as P

CID = "C08"
AREA = "posix"
VO = ["props/C08.vo", "posix/PTime.vo", "posix/RDelta.vo", "posix/TzParseModel.vo", "posix/TzRangeModel.vo",
      "posix/PosixSpec.vo", "posix/IcalModel.vo", "posix/TzLocalModel.vo"]
YEARS_Q = [1999, 2000, 2023, 2024]
YEARS_T = [1970, 1999, 2000, 2004, 2023, 2024, 2037, 2100]


# ---------------------------------------------------------------------------------------------
# known findings

def _d8_outside(r):
    ds = r.get("dst") if isinstance(r, dict) else None
    if not ds:
        return False
    (sd, ts), (ed, te) = ds["start"], ds["end"]
    te_std = te - (ds["off"] - r["off"])
    return ((sd[0] == 'M' and not (0 <= ts < P.DAY)) or (ed[0] == 'M' and not (0 <= te_std < P.DAY)))


def match_d8(payload):
    """tzstr/tzrange M-rule whose time of day expressed in standard time is outside [0, 86400)."""
    inp = payload.get("input") or {}
    r = inp.get("rule")
    ds = r.get("dst") if isinstance(r, dict) else None
    return (payload.get("kind", "").startswith("implementation differs from the POSIX specification")
            and inp.get("zone_kind") in ("tzstr", "tzrange") and _d8_outside(r) and bool(ds))


def match_negative_dst(payload):
    """tzstr/tzrange with a daylight offset smaller than the standard offset (negative saving), at an instant
    or wall reading within 2 x |saving| of a transition of the rule (the defect is local to the transitions;
    elsewhere a difference is NOT explained by it)."""
    inp = payload.get("input") or {}
    r = inp.get("rule")
    ds = r.get("dst") if isinstance(r, dict) else None
    if not (payload.get("kind", "").startswith("implementation differs from the POSIX specification")
            and inp.get("zone_kind") in ("tzstr", "tzrange") and bool(ds) and ds["off"] < r["off"]):
        return False
    dist = inp.get("event_distance_s")
    return isinstance(dist, int) and dist <= 2 * (r["off"] - ds["off"])


def match_tzlocal_negative_dst(payload):
    """tzlocal under a TZ whose daylight offset is smaller than the standard offset, the two samples of
    CPython's time module differing (the defect explains every instant of the year)."""
    inp = payload.get("input") or {}
    r = inp.get("rule")
    ds = r.get("dst") if isinstance(r, dict) else None
    smp = inp.get("sample_isdst") or [0, 1]
    return (payload.get("kind", "") == "implementation differs from the POSIX specification at a UTC instant"
            and inp.get("zone_kind") == "tzlocal" and bool(ds) and ds["off"] < r["off"] and smp[0] != smp[1])


def match_tzlocal_unsampled(payload):
    """tzlocal under a TZ with a daylight part for which CPython's time module reports daylight = 0 (its two
    samples show the same UTC offset): tzlocal answers (-time.timezone, dst 0, time.tzname[0]) all year; exactly
    the instants where the specification says something else are explained by the defect."""
    inp = payload.get("input") or {}
    r = inp.get("rule")
    ds = r.get("dst") if isinstance(r, dict) else None
    tm = inp.get("time_module")
    impl, sp = payload.get("impl") or [], payload.get("spec") or []
    return (payload.get("kind", "") == "implementation differs from the POSIX specification at a UTC instant"
            and inp.get("zone_kind") == "tzlocal" and bool(ds) and isinstance(tm, list) and len(tm) == 5
            and tm[2] == 0 and len(impl) == 6 and impl[3:] == [tm[0], 0, tm[3]]
            and len(sp) == 3 and sp != [tm[0], 0, tm[3]])


def match_posix_form_rejected(form):
    def m(payload):
        inp = payload.get("input") or {}
        return (payload.get("kind", "") == "POSIX TZ string rejected" and inp.get("form") == form
                and payload.get("impl") == [1])
    return m


MATCHERS = {"c08_negative_dst_saving": match_negative_dst,
            "c08_quoted_names_rejected": match_posix_form_rejected("quoted_name"),
            "c08_offset_seconds_rejected": match_posix_form_rejected("offset_seconds"),
            "c08_signed_rule_time_rejected": match_posix_form_rejected("signed_rule_time"),

            "c08_tzlocal_negative_dst_saving": match_tzlocal_negative_dst,
            "c08_tzlocal_unsampled_daylight_window": match_tzlocal_unsampled,
            "c08_d8_rule_time_outside_standard_day": match_d8}


# ---------------------------------------------------------------------------------------------

def from_json_rule(r):
    if r is None or r.get("dst") is None:
        return r
    ds = dict(r["dst"])
    ds["start"] = (tuple(ds["start"][0]), ds["start"][1])
    ds["end"] = (tuple(ds["end"][0]), ds["end"][1])
    r = dict(r)
    r["dst"] = ds
    return r


def instants(o, r, years, grid_year=None, grid_step=6 * 3600):
    """UTC readings: every event of the years +- {0, 1 s, 30 min}, year boundaries, a grid"""
    us = []
    for y in years:
        if r["dst"] is not None:
            ev = o.call(P.E_EVENTS, P.enc_posix(r) + [y])
            for e in ev:
                for d in (-1800, -1, 0, 1, 1800):
                    us.append(e + d)
        ys = P.ystart(y)
        us += [ys - 1, ys, ys + 1, ys + 43200, ys - 43200]
    if grid_year is not None:
        a, b = P.ystart(grid_year), P.ystart(grid_year + 1)
        us += list(range(a + 1234, b, grid_step))
    lo, hi = P.ystart(2), P.ystart(9998)
    return [u for u in us if lo < u < hi]


def walls_for(r, us):
    offs = {r["off"]}
    if r["dst"] is not None:
        offs.add(r["dst"]["off"])
    ws = []
    for u in us:
        for off in offs:
            ws.append((u + off, 0))
            ws.append((u + off, 1))
    return ws


def spec_wall_expect(o, r, ws):
    """spec answers for wall readings: list of (class, [off,dst,name] or None for gaps)"""
    enc = P.enc_posix(r)
    uniq = sorted({w for w, _ in ws})
    v = o.call(P.E_SPEC_WALL, enc + uniq)
    cls = {w: (v[3 * i], v[3 * i + 1], v[3 * i + 2]) for i, w in enumerate(uniq)}
    need = sorted({x for w in uniq for x in cls[w][1:] if cls[w][0] > 0})
    obs = dict(zip(need, P.dec_spec_utc(o.call(P.E_SPEC_UTC, enc + need), len(need)))) if need else {}
    out = []
    for w, f in ws:
        c, u0, u1 = cls[w]
        out.append((c, None if c == 0 else obs[u1 if f else u0]))
    return out


class Stats(object):
    def __init__(self):
        self.evals = 0
        self.hist = {}
        self.model_diff = 0
        self.spec_diff = 0
        self.samples = []
        self.distinct = set()

    def bump(self, k, n=1):
        self.hist[k] = self.hist.get(k, 0) + n


def compare_zone(verdict, st, o, zone_kind, z, r, s, guards, in_guard, us, ws, model_utc, model_wall,
                 extra_input):
    """three-way comparison for one zone object over UTC readings us and wall readings ws"""
    impl_u = [P.impl_obs_utc(z, u) for u in us]
    impl_w = [P.impl_obs_wall(z, w, f) for (w, f) in ws]
    st.evals += len(us) + len(ws)
    base_inp = dict(extra_input)
    base_inp.update({"zone_kind": zone_kind, "rule": r, "s": s, "guards": guards})
    ev_cache = {}

    def event_distance(ts):
        """seconds from the nearest transition of the rule (UTC) to any of the UTC readings ts"""
        if r is None or r["dst"] is None:
            return None
        best = None
        for t in ts:
            y = P.dt_of(t).year
            for yy in (y - 1, y, y + 1):
                if yy not in ev_cache:
                    ev_cache[yy] = o.call(P.E_EVENTS, P.enc_posix(r) + [yy]) if 1 < yy < 9999 else []
                for e in ev_cache[yy]:
                    if best is None or abs(t - e) < best:
                        best = abs(t - e)
        return best

    spec_u = spec_w = spec_f = None
    if r is not None:
        spec_u = P.dec_spec_utc(o.call(P.E_SPEC_UTC, P.enc_posix(r) + us), len(us)) if us else []
        spec_f = o.call(P.E_SPEC_FOLD, P.enc_posix(r) + us) if us else []
        spec_w = spec_wall_expect(o, r, ws) if ws else []
    n_bad = 0
    for k, u in enumerate(us):
        iu = impl_u[k]
        sp = spec_u[k] if spec_u is not None else None
        spec_bad = (sp is not None and (iu[0] != 0 or [iu[3], iu[4], iu[5]] != sp or iu[1] != u + sp[0] or
                                        (in_guard and iu[2] != spec_f[k])))
        if sp is not None:
            sp = sp + [spec_f[k]]            # (offset, dst, abbreviation, PEP 495 fold)
        model_bad = model_utc is not None and iu != model_utc[k]
        if spec_bad and (in_guard or model_bad or not in_guard):
            inp = dict(base_inp)
            inp.update({"utc": u, "utc_iso": P.dt_of(u).isoformat()})
            if not in_guard:
                inp["event_distance_s"] = event_distance([u])
            if in_guard or not model_bad:
                # inside the theorem's guard every difference is a property violation; outside the
                # guard it is reported too (routed to a known finding when its matcher accepts it)
                st.spec_diff += 1
                n_bad += verdict.violation({"kind": "implementation differs from the POSIX specification "
                                                    "at a UTC instant", "input": inp, "impl": iu, "spec": sp,
                                            "in_guard": in_guard})
                continue
        if model_bad:
            st.model_diff += 1
            inp = dict(base_inp)
            inp.update({"utc": u, "utc_iso": P.dt_of(u).isoformat()})
            n_bad += verdict.violation({"kind": "correspondence: model differs from implementation (UTC instant)",
                                        "input": inp, "impl": iu, "model": model_utc[k], "spec": sp,
                                        "in_guard": in_guard}, concrete=bool(spec_bad))
    for k, (w, f) in enumerate(ws):
        iw = impl_w[k]
        sp = spec_w[k] if spec_w is not None else None
        spec_bad = (sp is not None and sp[0] > 0 and (iw[0] != 0 or iw[1:] != sp[1]))
        model_bad = model_wall is not None and iw != model_wall[k]
        if spec_bad and (in_guard or not model_bad):
            st.spec_diff += 1
            inp = dict(base_inp)
            inp.update({"wall": w, "fold": f, "wall_iso": P.dt_of(w).isoformat()})
            if not in_guard and r is not None and r["dst"] is not None:
                inp["event_distance_s"] = event_distance([w - r["off"], w - r["dst"]["off"]])
            n_bad += verdict.violation({"kind": "implementation differs from the POSIX specification "
                                                "at a wall reading", "input": inp, "impl": iw,
                                        "spec": {"class": sp[0], "obs": sp[1]}, "in_guard": in_guard})
            continue
        if model_bad:
            st.model_diff += 1
            inp = dict(base_inp)
            inp.update({"wall": w, "fold": f, "wall_iso": P.dt_of(w).isoformat()})
            n_bad += verdict.violation({"kind": "correspondence: model differs from implementation (wall reading)",
                                        "input": inp, "impl": iw, "model": model_wall[k],
                                        "spec": None if sp is None else {"class": sp[0], "obs": sp[1]},
                                        "in_guard": in_guard}, concrete=bool(spec_bad))
    if spec_w:
        for c, _ in spec_w:
            st.bump("wall_class_%d" % c)
    return n_bad, impl_u, impl_w


def build_tzstr(s, posix_offset=False):
    from dateutil import tz
    try:
        return tz.tzstr(s, posix_offset=posix_offset), [0]
    except Exception as ex:
        return None, [P.exc_code(ex)]


def zone_header(z):
    return [0, 1 if z.hasdst else 0, int(z._std_offset.total_seconds()), int(z._dst_offset.total_seconds()),
            z._std_abbr, z._dst_abbr]


def dec_zone(v):
    if not isinstance(v, list) or v[0] != 0:
        return v if not isinstance(v, list) else [v[0]]
    a, i = P.read_name(v, 4)
    b, i = P.read_name(v, i)
    return [0, v[1], v[2], v[3], a, b]


def check_rule(verdict, st, o, r, rng, years, idx, tier, do_local):
    enc = P.enc_posix(r)
    g = o.call(P.E_GUARDS, enc)
    guards = {"wf": bool(g[0]), "apart": bool(g[1]), "d8": bool(g[2]), "not_gmt_utc": bool(g[3])}
    canon = "".join(chr(c) for c in o.call(P.E_RENDER, enc))
    s = canon if idx % 2 == 0 else P.render_variant(r, rng)
    gmt = not guards["not_gmt_utc"]
    in_guard = guards["wf"] and guards["apart"] and guards["d8"]
    st.bump("rules")
    st.bump("in_guard" if in_guard else ("outside_guard_d8" if not guards["d8"] else "outside_guard_other"))
    if r["dst"] is None:
        st.bump("std_only")
    else:
        st.bump("start_" + r["dst"]["start"][0][0])
        st.bump("end_" + r["dst"]["end"][0][0])
        st.bump("saving_%d" % (r["dst"]["off"] - r["off"]))
        st.bump("north" if r["dst"]["start"][0] < r["dst"]["end"][0] and False else "hemi_mixed", 0)
    us = instants(o, r, years, grid_year=years[idx % len(years)],
                  grid_step=(6 * 3600 if tier == "thorough" or idx % 8 == 0 else 10 * 86400 + 3600 * 7))
    us = sorted(set(us))
    near = [u for u in us if True]
    ws = walls_for(r, near if len(near) < 400 else near[::3])
    st.distinct.add((s, len(us)))
    # ---- tzstr (GMT/UTC names: the sign of the standard offset is read the other way round unless
    #      posix_offset=True, so the POSIX reading is compared under posix_offset=True)
    po = bool(gmt)
    z, status = build_tzstr(s, po)
    hdr_m = dec_zone(o.call(P.E_TZSTR_ZONE, [1 if po else 0] + P.estr(s)))
    if z is None:
        # a well-formed rule must be accepted
        payload = {"kind": "well-formed TZ string rejected", "input": {"s": s, "rule": r, "zone_kind": "tzstr",
                                                                       "guards": guards},
                   "impl": status, "model": hdr_m}
        if guards["wf"]:
            verdict.violation(payload)
        elif hdr_m != status:
            verdict.violation(payload, concrete=False)
        return
    hdr_i = zone_header(z)
    if hdr_i != hdr_m:
        st.model_diff += 1
        verdict.violation({"kind": "correspondence: tzstr attributes differ from the model",
                           "input": {"s": s, "rule": r, "zone_kind": "tzstr"}, "impl": hdr_i, "model": hdr_m},
                          concrete=False)
    pre = [1 if po else 0] + P.estr(s)
    m_u = P.dec_utc_batch(o.call(P.E_TZSTR_UTC, pre + us), len(us))
    m_w = P.dec_wall_batch(o.call(P.E_TZSTR_WALL, pre + [x for wf in ws for x in wf]), len(ws))
    compare_zone(verdict, st, o, "tzstr", z, r, s, guards, in_guard, us, ws, m_u, m_w, {"posix_offset": po})
    if len(st.samples) < 10 and idx % 37 == 0 and us:
        k = len(us) // 2
        st.samples.append({"s": s, "utc": P.dt_of(us[k]).isoformat(), "impl": P.impl_obs_utc(z, us[k]),
                           "model": m_u[k], "in_guard": in_guard})
    # ---- tz.gettz(s) dispatches TZ-variable strings to tzstr: same observations
    if idx % 5 == 0:
        from dateutil import tz as _tzm
        try:
            g = _tzm.gettz(s) if not po else None
        except Exception as ex:
            g = ex
        if g is not None and not po:
            st.bump("gettz_strings")
            for u in us[::max(1, len(us) // 6)]:
                a = P.impl_obs_utc(z, u)
                b = [P.exc_code(g)] if isinstance(g, Exception) else P.impl_obs_utc(g, u)
                st.evals += 1
                if a != b:
                    verdict.violation({"kind": "tz.gettz(s) does not behave like tz.tzstr(s)",
                                       "input": {"s": s, "utc": u, "zone_kind": "gettz", "rule": r},
                                       "impl": b, "tzstr_impl": a}, concrete=in_guard)
    # ---- the deprecated comma format and the short form of the same rule build the same zone
    #      (theorems C08_deprecated_form_same_zone / C08_short_form_same_zone, here on the implementation)
    dsx = r["dst"]
    if dsx is not None and idx % 2 == 0 and not po:
        import warnings
        alts = []
        (sd_, ts_), (ed_, te_) = dsx["start"], dsx["end"]
        head = canon.split(",")[0]
        if sd_[0] == 'M' and ed_[0] == 'M':
            def dep(d, t):
                return "%d,%s,%d,%d" % (d[1], "-1" if d[2] == 5 else str(d[2]), d[3], t)
            alts.append(("deprecated", head + "," + dep(sd_, ts_) + "," + dep(ed_, te_)))
        if r["off"] % 3600 == 0 and dsx["off"] == r["off"] + 3600 and ts_ == 7200 and te_ == 7200:
            v = -r["off"] // 3600
            alts.append(("short", r["name"] + ("-%d" % -v if v < 0 else "%d" % v) + dsx["name"] + "," +
                         P.date_text(sd_) + "," + P.date_text(ed_)))
        for kind, s2 in alts:
            with warnings.catch_warnings():
                warnings.simplefilter("ignore")
                z2, st2 = build_tzstr(s2, po)
            st.bump("alt_form_" + kind)
            st.evals += 1
            same = z2 is not None and zone_header(z2) == zone_header(z)
            if same and z.hasdst:
                def _tr(zz, y):
                    try:
                        return zz.transitions(y)
                    except Exception as ex:      # month 13 etc.: both forms must fail alike
                        return ("exc", type(ex).__name__)
                same = all(_tr(z2, y) == _tr(z, y) for y in (2023, 2024))
            if not same:
                verdict.violation({"kind": "the %s form of the rule does not build the zone of the canonical "
                                           "string" % kind,
                                   "input": {"s": s2, "canonical": canon, "rule": r, "zone_kind": "tzstr"},
                                   "impl": st2 if z2 is None else zone_header(z2), "canonical_impl": zone_header(z)},
                                  concrete=guards["wf"])
    # ---- tzrange from the equivalent arguments
    from dateutil import tz
    a = P.tzrange_args(r, rng)
    try:
        zr = tz.tzrange(a[0], a[1], a[2], a[3], P.make_rd(a[4]), P.make_rd(a[5]))
        zst = [0]
    except Exception as ex:
        zr, zst = None, [P.exc_code(ex)]
    ea = P.enc_tzrange_args(a)
    hdr_m = dec_zone(o.call(P.E_TZRANGE_ZONE, ea))
    if zr is None:
        if hdr_m != zst:
            verdict.violation({"kind": "correspondence: tzrange constructor differs from the model",
                               "input": {"args": repr(a), "rule": r, "zone_kind": "tzrange"}, "impl": zst,
                               "model": hdr_m}, concrete=False)
    else:
        if zone_header(zr) != hdr_m:
            st.model_diff += 1
            verdict.violation({"kind": "correspondence: tzrange attributes differ from the model",
                               "input": {"args": repr(a), "rule": r, "zone_kind": "tzrange"},
                               "impl": zone_header(zr), "model": hdr_m}, concrete=False)
        us2, ws2 = us[::2], ws[::4]
        m_u = P.dec_utc_batch(o.call(P.E_TZRANGE_UTC, ea + us2), len(us2))
        m_w = P.dec_wall_batch(o.call(P.E_TZRANGE_WALL, ea + [x for wf in ws2 for x in wf]), len(ws2))
        compare_zone(verdict, st, o, "tzrange", zr, r, s, guards, in_guard, us2, ws2, m_u, m_w,
                     {"args": repr(a)})
        st.bump("tzrange_zones")
    # ---- tzlocal under TZ=<canonical string> (glibc), and glibc as a witness for the spec
    if do_local and guards["wf"]:
        check_local(verdict, st, o, r, canon, guards, in_guard, us, ws)


def spec_isdst_of(r, sp):
    """tm_isdst the specification implies for its answer sp = [offset, saving, abbreviation]"""
    ds = r["dst"]
    if ds is None:
        return 0
    if sp[1] != 0:
        return 1
    if ds["off"] == r["off"]:
        return 1 if (sp[2] == ds["name"] and ds["name"] != r["name"]) else 0
    return 0


def check_local(verdict, st, o, r, s, guards, in_guard, us, ws):
    """tzlocal under TZ=<canonical string>.  Three parties: dateutil's tzlocal, the extracted model
    (tzlocal over CPython's time module over the SPEC as C library), and real glibc as witness."""
    from dateutil import tz
    import time as T
    lo, hi = P.ystart(1971), P.ystart(2400)
    us = [u for u in us if lo < u < hi][::2]
    ws = [(w, f) for (w, f) in ws if lo < w < hi][::4]
    enc = P.enc_posix(r)
    neg = r["dst"] is not None and r["dst"]["off"] < r["off"]
    with P.tz_env(s):
        z = tz.tzlocal()
        tj, tl = P.cpython_time_module_samples()
        smp = P.dec_spec_utc(o.call(P.E_SPEC_UTC, enc + [tj, tl]), 2)
        sample_isdst = [spec_isdst_of(r, x) for x in smp]
        # glibc at the two samples against the spec: when glibc reads the string differently, what the
        # time module holds says nothing about dateutil
        libc_smp = [P.libc_obs(t) for t in (tj, tl)]
        if any([lb[0], lb[2]] != [sp[0], sp[2]] for lb, sp in zip(libc_smp, smp)):
            st.bump("tzlocal_skipped_glibc_differs_from_spec_at_the_time_module_samples")
            if len(st.samples) < 30:
                st.samples.append({"libc_vs_spec_at_samples": s, "libc": libc_smp, "spec": smp})
            return
        mv = o.call(P.E_LOCAL_INIT, enc + [tj, tl])
        sn, i = P.read_name(mv, 3)
        dn, i = P.read_name(mv, i)
        tm_model = [mv[0], mv[1], mv[2], sn, dn]
        tm_impl = [-T.timezone, -T.altzone, 1 if T.daylight else 0, T.tzname[0], T.tzname[1]]
        base = {"zone_kind": "tzlocal", "TZ": s, "rule": r, "guards": guards, "time_module": tm_impl,
                "sample_isdst": sample_isdst}
        if tm_impl != tm_model:
            # CPython's time module is not what the model of init_timezone() computes from the spec
            st.model_diff += 1
            verdict.violation({"kind": "correspondence: time.timezone/altzone/daylight/tzname differ from the "
                                       "model of CPython's init_timezone over the specification",
                               "input": base, "impl": tm_impl, "model": tm_model}, concrete=False)
            return
        hdr_i = [int(z._std_offset.total_seconds()), int(z._dst_offset.total_seconds()),
                 1 if z._hasdst else 0, list(z._tznames)]
        dst_m = tm_model[1] if tm_model[2] else tm_model[0]
        hdr_m = [tm_model[0], dst_m, 1 if dst_m != tm_model[0] else 0, [tm_model[3], tm_model[4]]]
        if hdr_i != hdr_m:
            st.model_diff += 1
            verdict.violation({"kind": "correspondence: tzlocal.__init__ attributes differ from the model",
                               "input": base, "impl": hdr_i, "model": hdr_m}, concrete=False)
            return
        st.bump("tzlocal_zones")
        st.bump("tzlocal_samples_%d%d%s" % (sample_isdst[0], sample_isdst[1], "_negative" if neg else ""))
        spec_u = P.dec_spec_utc(o.call(P.E_SPEC_UTC, enc + us), len(us)) if us else []
        mu = o.call(P.E_LOCAL_UTC, enc + [tj, tl] + us) if us else []
        model_u, i = [], 0
        for _ in us:
            nm, j = P.read_name(mu, i + 4)
            model_u.append([0, mu[i], mu[i + 1], mu[i + 2], mu[i + 3], nm])
            i = j
        # tzlocal needs no D8 guard and no distance guard (C08_tzlocal_posix_partial); the spec's own
        # 3-year window needs the events to stay near their year: wf + apart (or a negative saving)
        g_local = guards["wf"] and (guards["apart"] or neg or (r["dst"] is not None and
                                                               r["dst"]["off"] == r["off"]))
        for k, u in enumerate(us):
            iu = P.impl_obs_utc(z, u)
            st.evals += 1
            sp = spec_u[k]
            lb = P.libc_obs(u)
            libc_ok = [lb[0], lb[2]] == [sp[0], sp[2]]
            st.bump("libc_vs_spec_agreements" if libc_ok else "libc_vs_spec_disagreements")
            if not libc_ok and len(st.samples) < 30:
                st.samples.append({"libc_vs_spec": s, "utc": P.dt_of(u).isoformat(), "libc": lb, "spec": sp})
            # the model runs tzlocal over the SPEC as C library: comparable where glibc agrees with the spec
            if libc_ok and iu[:2] + iu[3:] != model_u[k][:2] + model_u[k][3:]:
                st.model_diff += 1
                verdict.violation({"kind": "correspondence: tzlocal differs from the tzlocal model run over the "
                                           "specification as C library (UTC instant)",
                                   "input": dict(base, utc=u, utc_iso=P.dt_of(u).isoformat()),
                                   "impl": iu, "model": model_u[k], "spec": sp}, concrete=False)
                continue
            if g_local and libc_ok and (iu[0] != 0 or [iu[3], iu[4], iu[5]] != sp or iu[1] != u + sp[0]):
                st.spec_diff += 1
                verdict.violation({"kind": "implementation differs from the POSIX specification at a UTC instant",
                                   "input": dict(base, utc=u, utc_iso=P.dt_of(u).isoformat(),
                                                 spec_isdst=spec_isdst_of(r, sp)),
                                   "impl": iu, "spec": sp, "libc": lb, "in_guard": g_local})
        if ws:
            mw = o.call(P.E_LOCAL_WALL, enc + [tj, tl] + [x for wf in ws for x in wf])
            mw = P.dec_spec_utc(mw, len(ws))
            sw = spec_wall_expect(o, r, ws)
            routed = neg or tm_model[2] == 0        # F-C08-4 / F-C08-5: judged at the UTC instants
            for k, (w, f) in enumerate(ws):
                iw = P.impl_obs_wall(z, w, f)
                st.evals += 1
                if iw != [0] + mw[k]:
                    # (glibc may disagree with the spec here: then this is about glibc, not dateutil)
                    cand = [w - r["off"]] + ([w - r["dst"]["off"]] if r["dst"] else [])
                    if any([P.libc_obs(c)[0], P.libc_obs(c)[2]] !=
                           P.dec_spec_utc(o.call(P.E_SPEC_UTC, enc + [c]), 1)[0][0:3:2]
                           for c in cand if lo < c < hi):
                        st.bump("tzlocal_wall_skipped_glibc_differs_from_spec")
                        continue
                    st.model_diff += 1
                    verdict.violation({"kind": "correspondence: tzlocal differs from the tzlocal model run over "
                                               "the specification as C library",
                                       "input": dict(base, wall=w, fold=f, wall_iso=P.dt_of(w).isoformat()),
                                       "impl": iw, "model": [0] + mw[k]},
                                      concrete=bool(g_local and sw[k][0] > 0 and iw[1:] != sw[k][1]))
                elif g_local and not routed and sw[k][0] > 0 and iw[1:] != sw[k][1]:
                    st.spec_diff += 1
                    verdict.violation({"kind": "implementation differs from the POSIX specification at a wall reading",
                                       "input": dict(base, wall=w, fold=f),
                                       "impl": iw, "spec": {"class": sw[k][0], "obs": sw[k][1]}})


# ---------------------------------------------------------------------------------------------
# parser-level correspondence and malformed strings

ALPH = "EDTSMJGUC0123456789,,..//::+-;<> \t_#"


def impl_parse(s):
    from dateutil.parser import _parser
    import warnings
    try:
        with warnings.catch_warnings():
            warnings.simplefilter("ignore")
            res = _parser._parsetz(s)
    except Exception as ex:
        return [P.exc_code(ex)]
    if res is None:
        return [-1]

    def attr(x):
        return [x.month, x.week, x.weekday, x.yday, x.jyday, x.day, x.time]
    return [0, res.stdabbr, res.stdoffset, res.dstabbr, res.dstoffset, attr(res.start), attr(res.end),
            1 if res.any_unused_tokens else 0]


def dec_parse(v):
    if not isinstance(v, list) or v[0] != 0:
        return v if not isinstance(v, list) else [v[0]]
    i = 1
    sa, i = P.read_name(v, i)

    def oz(i):
        return (None, i + 1) if v[i] == 0 else (v[i + 1], i + 2)
    so, i = oz(i)
    da, i = P.read_name(v, i)
    do, i = oz(i)
    attrs = []
    for _ in range(2):
        a = []
        for _ in range(7):
            x, i = oz(i)
            a.append(x)
        attrs.append(a)
    return [0, sa, so, da, do, attrs[0], attrs[1], v[i]]


def mutate(s, rng):
    k = rng.randrange(7)
    if not s:
        return s
    p = rng.randrange(len(s))
    if k == 0:
        return s[:p] + s[p + 1:]
    if k == 1:
        return s[:p] + rng.choice(ALPH) + s[p:]
    if k == 2:
        return s[:p] + rng.choice(ALPH) + s[p + 1:]
    if k == 3:
        return s + rng.choice([",", ",M3.2.0", "/2", ".1", ",3600", ";", ",J60"])
    if k == 4:
        parts = s.split(",")
        rng.shuffle(parts)
        return ",".join(parts)
    if k == 5:
        return s.replace(".", rng.choice(["-", ".", ":"]), 1)
    return s[:p] + s[p:].replace(",", ";", 1)


def soup(rng):
    n = rng.randint(0, 14)
    toks = ["EST", "EDT", "GMT", "UTC", "M", "J", "5", "05", "0530", "530", "2", "10", "3", "0", "1", "11", "60",
            "300", "3600", "7200", ",", ",", ".", "/", ":", "+", "-", ";", " ", "<", "+-", "12345"]
    return "".join(rng.choice(toks) for _ in range(n))


# well-formed POSIX TZ strings outside wf_posix (form, string)
POSIX_FORMS = [("quoted_name", "<+03>-3"), ("quoted_name", "<-03>3<-02>,M3.5.0/2,M10.5.0/3"),
               ("quoted_name", "<UTC+1>-1"),
               ("offset_seconds", "LMT0:25:21"), ("offset_seconds", "EST5:00:30EDT4:00:30,M3.2.0,M11.1.0"),
               ("signed_rule_time", "EST5EDT,M3.2.0/-1,M11.1.0/2"),
               ("signed_rule_time", "<-02>2<-01>,M3.5.0/-1,M10.5.0/0"),
               ("plain", "EST5EDT,M3.2.0,M11.1.0"), ("zero_saving", "EST5EDT5,M3.2.0,M11.1.0")]

DEPRECATED = ["xxx,1,2,3,4,5,6,7,8,9", "EST5EDT,4,0,6,7200,10,0,26,7200,3600", "EST5EDT,4,1,0,7200,10,-1,0,7200,3600",
              "EST5EDT,4,1,0,7200,10,-1,0,7200", "GMT0BST,3,0,30,3600,10,0,26,7200",
              "EST,4,1,0,7200,10,-1,0,7200,3600", "EST5EDT,4,1,0,7200,10,-1,0,7200,-3600",
              "EST5EDT,4,1,0,7200,10,-1,0,7200,+3600", "EST5EDT,4,-1,0,7200,10,-1,0,7200,+"]


def check_parser(verdict, st, o, strings):
    from dateutil import tz
    reqs = [(P.E_PARSE, [ord(c) for c in s]) for s in strings]
    mres = o.call_many(reqs)
    zres = o.call_many([(P.E_TZSTR_ZONE, [0] + P.estr(s)) for s in strings])
    for s, mv, zv in zip(strings, mres, zres):
        st.evals += 1
        if (isinstance(mv, str) and mv.startswith("OVF")) or (isinstance(zv, str) and zv.startswith("OVF")):
            # a number beyond the oracle driver's 2^62 range (token soup with a very long digit run)
            st.bump("oracle_overflow_skipped")
            continue
        ip = impl_parse(s)
        mp = dec_parse(mv)
        st.bump("parse_" + ("none" if ip == [-1] else "exc" if ip[0] != 0 else
                            ("unused" if ip[-1] else "ok")))
        if ip != mp:
            st.model_diff += 1
            verdict.violation({"kind": "correspondence: _tzparser.parse differs from the model",
                               "input": {"s": s}, "impl": ip, "model": mp}, concrete=False)
            continue
        z, status = build_tzstr(s, False)
        zi = zone_header(z) if z is not None else status
        zm = dec_zone(zv)
        if zi == [2]:
            # tzstr raised TypeError: neither a zone nor the ValueError the property demands
            verdict.violation({"kind": "TypeError instead of a zone or ValueError", "impl": zi, "model": zm,
                               "input": {"s": s, "posix_offset": False, "commas": s.count(','),
                                         "parsed_stdabbr": mp[1] if mp[0] == 0 else None,
                                         "parsed_stdoffset": mp[2] if mp[0] == 0 else None}})
        if (zi == ["EXC:OverflowError"] and isinstance(zm, list) and zm[0] == 0 and
                max(abs(zm[2]), abs(zm[3])) >= 10 ** 9):
            # datetime.timedelta range (absurd hour counts from the token soup): not modelled
            st.bump("timedelta_overflow_skipped")
            continue
        if zi != zm:
            st.model_diff += 1
            verdict.violation({"kind": "correspondence: tzstr(s) construction differs from the model",
                               "input": {"s": s}, "impl": zi, "model": zm}, concrete=False)
        elif z is not None and z.hasdst:
            # yearly transitions of every accepted string (also the odd ones: week 0, month 13, J0 ...)
            for y in (2023, 2024):
                try:
                    tr = z.transitions(y)
                    it = [0, P.secs_of(tr[0]), P.secs_of(tr[1])]
                except Exception as ex:
                    it = [P.exc_code(ex)]
                mt = o.call(P.E_TRANS, [0] + P.estr(s) + [y])
                st.evals += 1
                if (it == [P.exc_code(OverflowError())] and len(mt) == 3 and mt[0] == 0 and
                        not all(DT_MIN_SECS <= v <= DT_MAX_SECS for v in mt[1:])):
                    # datetime range (absurd hour counts from the token soup push the transition out of
                    # years 1..9999): the model is totalised over Z, CPython raises -- not modelled
                    st.bump("transitions_overflow_skipped")
                    continue
                if it != mt:
                    st.model_diff += 1
                    verdict.violation({"kind": "correspondence: transitions differ from the model",
                                       "input": {"s": s, "year": y}, "impl": it, "model": mt}, concrete=False)


def malformed_of(canon, rng):
    """(class, string) pairs the property demands a ValueError for: unknown characters in the rule
    part, missing fields, surplus fields"""
    out = []
    head, _, rules = canon.partition(",")
    if not rules:
        return out
    sr, er = rules.split(",")
    bad = rng.choice("#$%&*()=?@[]^{}|~!\"'")
    p = rng.randrange(len(rules) + 1)
    out.append(("unknown_character", head + "," + rules[:p] + bad + rules[p:]))
    out.append(("missing_end_rule", head + "," + sr))
    if sr.startswith("M"):
        out.append(("missing_weekday_field", head + "," + sr.split("/")[0].rsplit(".", 1)[0] + "," + er))
        out.append(("surplus_field", head + "," + sr.split("/")[0] + ".1," + er))
    out.append(("surplus_rule", canon + "," + er))
    out.append(("surplus_time", canon + "/2"))
    out.append(("missing_time_after_slash", head + "," + sr.split("/")[0] + "/," + er))
    return out


def replay(path):
    data = json.load(open(path))
    C.ensure_built([AREA], VO)
    o = C.Oracle(AREA)
    inp = data.get("input") or {}
    from dateutil import tz
    print("kind      ", data.get("kind"))
    if "s" in inp and inp.get("zone_kind") in (None, "tzstr"):
        s = inp["s"]
        po = bool(inp.get("posix_offset"))
        print("string    ", repr(s), "posix_offset=%r" % po)
        print("impl parse ", impl_parse(s))
        print("model parse", dec_parse(o.call(P.E_PARSE, [ord(c) for c in s])))
        z, status = build_tzstr(s, po)
        print("impl zone ", zone_header(z) if z is not None else status)
        print("model zone", dec_zone(o.call(P.E_TZSTR_ZONE, [1 if po else 0] + P.estr(s))))
        pre = [1 if po else 0] + P.estr(s)
        if z is not None and "utc" in inp:
            u = inp["utc"]
            print("utc       ", P.dt_of(u).isoformat())
            print("impl      ", P.impl_obs_utc(z, u))
            print("model     ", P.dec_utc_batch(o.call(P.E_TZSTR_UTC, pre + [u]), 1)[0])
        if z is not None and "wall" in inp:
            w, f = inp["wall"], inp["fold"]
            print("wall      ", P.dt_of(w).isoformat(), "fold", f)
            print("impl      ", P.impl_obs_wall(z, w, f))
            print("model     ", P.dec_wall_batch(o.call(P.E_TZSTR_WALL, pre + [w, f]), 1)[0])
    r = from_json_rule(inp.get("rule"))
    if r is not None:
        enc = P.enc_posix(r)
        print("rule      ", r)
        print("guards    ", o.call(P.E_GUARDS, enc), "(wf, apart, d8, not_gmt_utc)")
        if "utc" in inp:
            print("spec      ", P.dec_spec_utc(o.call(P.E_SPEC_UTC, enc + [inp["utc"]]), 1)[0])
        if "wall" in inp:
            print("spec      ", spec_wall_expect(o, r, [(inp["wall"], inp["fold"])])[0])
    if r is not None and inp.get("zone_kind") == "tzlocal" and "TZ" in inp:
        import time as T
        with P.tz_env(inp["TZ"]):
            z = tz.tzlocal()
            tj, tl = P.cpython_time_module_samples()
            print("samples   ", P.dt_of(tj).isoformat(), P.dt_of(tl).isoformat(), "(CPython init_timezone, this year)")
            print("time module (impl) ", [-T.timezone, -T.altzone, T.daylight, list(T.tzname)])
            print("time module (model)", o.call(P.E_LOCAL_INIT, enc + [tj, tl]))
            if "utc" in inp:
                print("tzlocal   ", P.impl_obs_utc(z, inp["utc"]))
                print("glibc     ", P.libc_obs(inp["utc"]))
                print("model     ", o.call(P.E_LOCAL_UTC, enc + [tj, tl, inp["utc"]]))
    if not inp:
        print(json.dumps(data, indent=1)[:3000])
    o.close()
    return 0


DT_MIN_SECS = 86400                               # 0001-01-01T00:00:00 (ordinal 1)
DT_MAX_SECS = 3652059 * 86400 + 86399             # 9999-12-31T23:59:59


def main():
    argv = sys.argv[1:]
    if "--replay" in argv:
        return replay(argv[argv.index("--replay") + 1])
    tier = C.tier_from_argv(argv)
    t0 = time.time()
    verdict = C.Verdict(CID, MATCHERS)
    st = Stats()
    budget = {}
    build_err = None
    build_log = ""
    try:
        _ok, build_log = C.ensure_built([AREA], VO)
    except C.BuildError as ex:
        build_err = ex
    gen_msgs = [l for l in (build_log or "").splitlines() if "TRANSLATE-ERROR" in l or "GENERATOR FAILED" in l]
    if build_err is not None:
        props = {"obligations": 0, "discharged": 0, "theorems": [], "assumptions": {},
                 "cmd": "coqc props/C08.v", "log": build_err.log, "ok": False}
    else:
        props = C.compile_props(CID)
    have_oracle = os.path.exists(os.path.join(C.BIN, "oracle_" + AREA))
    if have_oracle:
        o = C.Oracle(AREA)
        rng = C.rng("C08")
        years = YEARS_Q if tier == "quick" else YEARS_T
        n_rules = 110 if tier == "quick" else 450
        # ---- regression corpus first
        cpath = os.path.join(C.VERIF, "corpus", "regressions", "C08.jsonl")
        corpus = []
        if os.path.exists(cpath):
            corpus = [json.loads(l) for l in open(cpath) if l.strip()]
        for k, e in enumerate(corpus):
            if "rule" in e:
                check_rule(verdict, st, o, from_json_rule(e["rule"]), rng, years, k, tier, do_local=True)
        check_parser(verdict, st, o, [e["s"] for e in corpus if "s" in e])
        # ---- rule stream
        rules = [P.gen_rule(rng) for _ in range(n_rules)]
        budget.update({"rule_stream_planned": n_rules, "rule_stream_done": 0, "rule_stream_budget_s": 50,
                       "rule_stream_cut_by_time_budget": False})
        t_stream = time.time()
        for k, r in enumerate(rules):
            check_rule(verdict, st, o, r, rng, years, k, tier, do_local=(k % 3 == 0))
            budget["rule_stream_done"] = k + 1
            if tier == "quick" and time.time() - t_stream > 50:
                st.bump("rule_stream_cut_by_budget_at", k)
                budget["rule_stream_cut_by_time_budget"] = True
                break
        # ---- tzrange constructor defaults (documented: first Sunday of April 2:00 / last Sunday of
        #      October 2:00 daylight time, saving one hour) against the model and the specification
        from dateutil import tz as _tz
        dflt_rule = {"name": "EST", "off": -18000,
                     "dst": {"name": "EDT", "off": -14400, "start": (('M', 4, 1, 0), 7200),
                             "end": (('M', 10, 5, 0), 7200)}}
        combos = [(("EST", -18000, "EDT", None, None, None), dflt_rule),
                  (("EST", -18000, "EDT", -14400, None, None), dflt_rule),
                  (("EST", -18000, None, None, None, None), {"name": "EST", "off": -18000, "dst": None}),
                  (("EST", None, None, None, None, None), {"name": "EST", "off": 0, "dst": None}),
                  (("EST", None, "EDT", None, None, None), None),
                  (("EST", -18000, "EDT", -10800, None, None),
                   {"name": "EST", "off": -18000,
                    "dst": {"name": "EDT", "off": -10800, "start": (('M', 4, 1, 0), 7200),
                            "end": (('M', 10, 5, 0), 10800)}}),
                  (("EST", -18000, None, None, {"month": 3, "day": 1, "weekday": (6, 2), "hours": 2},
                    {"month": 11, "day": 1, "weekday": (6, 1), "hours": 1}), None),
                  (("EST", -18000, "", None, None, None), {"name": "EST", "off": -18000, "dst": None})]
        for a, rr in combos:
            try:
                zr = _tz.tzrange(a[0], a[1], a[2], a[3], P.make_rd(a[4]), P.make_rd(a[5]))
                hi = zone_header(zr)
            except Exception as ex:
                zr, hi = None, [P.exc_code(ex)]
            ea = P.enc_tzrange_args(a)
            hm = dec_zone(o.call(P.E_TZRANGE_ZONE, ea))
            st.evals += 1
            st.bump("tzrange_default_combos")
            if hi != hm:
                st.model_diff += 1
                verdict.violation({"kind": "correspondence: tzrange attributes differ from the model",
                                   "input": {"args": repr(a), "zone_kind": "tzrange"}, "impl": hi, "model": hm},
                                  concrete=False)
                continue
            if zr is None:
                continue
            us2 = instants(o, rr if rr is not None else dflt_rule, [2023, 2024], grid_year=2024,
                           grid_step=3 * 86400 + 3600)
            ws2 = walls_for(rr if rr is not None else dflt_rule, us2)[::2]
            m_u = P.dec_utc_batch(o.call(P.E_TZRANGE_UTC, ea + us2), len(us2))
            m_w = P.dec_wall_batch(o.call(P.E_TZRANGE_WALL, ea + [x for wf in ws2 for x in wf]), len(ws2))
            compare_zone(verdict, st, o, "tzrange", zr, rr, "tzrange%r" % (a[:4],), {"wf": True, "apart": True,
                                                                                     "d8": True},
                         rr is not None, us2, ws2, m_u, m_w, {"args": repr(a)})
        # ---- small-scope exhaustive: every Mm.w.d start with a fixed end, transitions of 3 years
        ex_n = 0
        for m in range(2, 6):
            for w in range(1, 6):
                for d in range(7):
                    r = {"name": "EST", "off": -18000,
                         "dst": {"name": "EDT", "off": -14400, "start": (('M', m, w, d), 7200),
                                 "end": (('M', 8 + (m % 4), w, d), 7200)}}
                    if tier == "thorough" or (m + w + d) % 3 == 0:
                        ex_n += 1
                        enc = P.enc_posix(r)
                        s = "".join(chr(c) for c in o.call(P.E_RENDER, enc))
                        z, _ = build_tzstr(s)
                        for y in (2023, 2024, 2100):
                            ev = o.call(P.E_EVENTS, enc + [y])
                            tr = z.transitions(y)
                            it = [P.secs_of(tr[0]) - r["off"], P.secs_of(tr[1]) - r["off"]]
                            mt = o.call(P.E_TRANS, [0] + P.estr(s) + [y])
                            st.evals += 1
                            if it != ev:
                                st.spec_diff += 1
                                verdict.violation({"kind": "implementation differs from the POSIX specification "
                                                           "(yearly transitions)",
                                                   "input": {"zone_kind": "tzstr", "s": s, "rule": r, "year": y},
                                                   "impl": it, "spec": ev})
                            elif mt != [0, P.secs_of(tr[0]), P.secs_of(tr[1])]:
                                st.model_diff += 1
                                verdict.violation({"kind": "correspondence: transitions differ from the model",
                                                   "input": {"s": s, "year": y}, "impl": it, "model": mt},
                                                  concrete=False)
        st.bump("small_scope_M_rules", ex_n)
        # ---- parser: canonical strings, variants, mutations, token soup, deprecated format
        strings = []
        for k, r in enumerate(rules[:(100 if tier == "quick" else 450)]):
            canon = "".join(chr(c) for c in o.call(P.E_RENDER, P.enc_posix(r)))
            strings.append(canon)
            strings.append(P.render_variant(r, rng))
            strings.append(mutate(canon, rng))
            strings.append(mutate(mutate(canon, rng), rng))
        strings += [soup(rng) for _ in range(1000 if tier == "quick" else 20000)]
        strings += DEPRECATED + ["", ",", "EST", "EST5", "EST5EDT", "EST5EDT,", "UTC", "GMT", "GMT+3", "UTC-3",
                                 "UTC+3", "GMT-3", "EST5EDT4", "EST5:30EDT", "EST+5EDT", "EST-5EDT",
                                 "EST5EDT,J0/0,J1", "EST5EDT,M13.1.0,M11.1.0", "EST5EDT,M3.0.0,M11.1.0",
                                 "EST5EDT,J366,J1", "EST5EDT,366,1", "EST5EDT,365,1", "EST5EDT,M3.2.0/100,M11.1.0",
                                 "EST5EDT;M3.2.0;M11.1.0", "EST5EDT,M3-2-0,M11-1-0", "<+03>-3"]
        # small scope: 'EST5EDT,' followed by every sequence of up to 3 (quick) / 4 (thorough) tokens
        small_alpha = ["M", "J", "3", "10", ".", "/", ",", ":", "-", "2"]
        import itertools
        depth = 2 if tier == "quick" else 4
        for k in range(1, depth + 1):
            for combo in itertools.product(small_alpha, repeat=k):
                strings.append("EST5EDT," + "".join(combo))
        st.bump("small_scope_rule_part_strings", sum(len(small_alpha) ** k for k in range(1, depth + 1)))
        check_parser(verdict, st, o, strings)
        # ---- property-level streams
        n_mal = 0
        for r in rules[:(80 if tier == "quick" else 450)]:
            if r["dst"] is None:
                continue
            canon = "".join(chr(c) for c in o.call(P.E_RENDER, P.enc_posix(r)))
            for cls, s in malformed_of(canon, rng):
                n_mal += 1
                st.bump("malformed_" + cls)
                z, status = build_tzstr(s)
                st.evals += 1
                if status != [1]:
                    verdict.violation({"kind": "malformed TZ string not rejected with ValueError",
                                       "input": {"s": s, "class": cls}, "impl": status if z is None else zone_header(z)})
        # GMT+h / UTC+h reading
        for nm in ("GMT", "UTC"):
            for h in list(range(0, 15)) + [23]:
                for sign in ("+", "-"):
                    s = "%s%s%d" % (nm, sign, h)
                    for po in (False, True):
                        z, status = build_tzstr(s, po)
                        st.evals += 1
                        want = (1 if sign == "+" else -1) * h * 3600 * (-1 if po else 1)
                        got = None if z is None else P.impl_obs_utc(z, P.ystart(2020) + 12345)
                        if z is None or got[3] != want or got[4] != 0 or got[5] != nm:
                            verdict.violation({"kind": "GMT+h / UTC+h is not read as h hours ahead of UTC "
                                                       "(behind with posix_offset)",
                                               "input": {"s": s, "posix_offset": po}, "impl": got, "want": want})
                        mz = dec_zone(o.call(P.E_TZSTR_ZONE, [1 if po else 0] + P.estr(s)))
                        if z is not None and mz != zone_header(z):
                            verdict.violation({"kind": "correspondence: tzstr attributes differ from the model",
                                               "input": {"s": s, "posix_offset": po}, "impl": zone_header(z),
                                               "model": mz}, concrete=False)
        st.bump("gmt_utc_sign_cases", 2 * 16 * 2 * 2)
        # ---- POSIX forms outside wf_posix (the theorems do not speak about them): the property says "every
        #      POSIX-style TZ specification", so a rejection is reported (routed to its open finding);
        #      when accepted the zone is compared with glibc under TZ=<string> at a year of instants
        for form, s in POSIX_FORMS:
            z, status = build_tzstr(s)
            st.evals += 1
            st.bump("posix_form_" + form)
            if z is None:
                verdict.violation({"kind": "POSIX TZ string rejected", "input": {"s": s, "form": form},
                                   "impl": status})
                continue
            with P.tz_env(s):
                for u in range(P.ystart(2021) + 4321, P.ystart(2022), 5 * 86400 + 3600):
                    iu, lb = P.impl_obs_utc(z, u), P.libc_obs(u)
                    st.evals += 1
                    if iu[0] != 0 or [iu[3], iu[5]] != [lb[0], lb[2]]:
                        verdict.violation({"kind": "POSIX TZ string accepted but read differently from glibc",
                                           "input": {"s": s, "form": form, "utc": u,
                                                     "utc_iso": P.dt_of(u).isoformat()}, "impl": iu, "libc": lb})
                        break
        o.close()
        # ---- coverage floors: a stream that ran (nearly) empty is a failure of the check, not a pass
        floors = {"rules": 25 if tier == "quick" else 300, "in_guard": 8, "tzlocal_zones": 5,
                  "tzrange_zones": 8, "parse_ok": 50, "parse_none": 50, "small_scope_M_rules": 10,
                  "gmt_utc_sign_cases": 128, "posix_form_quoted_name": 1}
        short = {k: (st.hist.get(k, 0), v) for k, v in floors.items() if st.hist.get(k, 0) < v}
        if n_mal < 50:
            short["malformed_strings"] = (n_mal, 50)
        if short:
            verdict.violation({"kind": "coverage floor not reached (stream ran empty or was cut too early)",
                               "input": None, "short": short}, concrete=False)
    if not props["ok"] and not verdict.violations:
        verdict.violation({"kind": "broken proof obligation", "theorem_file": "coq/props/C08.v",
                           "theorems": props["theorems"], "discharged": props["discharged"], "input": None,
                           "translator": gen_msgs[:10],
                           "log_tail": (props["log"] or "")[-3000:]}, concrete=False)
    if os.environ.get("VERIF_DEBUG"):
        kinds = {}
        for pl, _c in verdict.violations:
            kk = (pl["kind"], (pl.get("input") or {}).get("zone_kind"), pl.get("in_guard"))
            kinds.setdefault(kk, []).append(pl)
        for kk, v in kinds.items():
            print("DEBUG", len(v), kk)
            for pl in v[:int(os.environ.get("VERIF_DEBUG"))]:
                print("    ", json.dumps(pl, default=str)[:1500])
    verdict.violations.sort(key=lambda pc: 0 if pc[1] else 1)   # concrete failing inputs first
    rc = verdict.finish()
    cov = {
        "evaluations": st.evals,
        "distinct_nontrivial": len(st.distinct),
        "rule": "a case is a (TZ string, instant set) pair; distinct_nontrivial counts distinct generated TZ "
                "strings with a daylight rule or a fixed offset that were observed at >= 1 instant",
        "samples": st.samples[:12],
        "input_distribution": st.hist,
        "model_vs_impl_disagreements": st.model_diff,
        "spec_vs_impl_disagreements": st.spec_diff,
        "exhaustive": False,
        "time_budget": budget,
        "small_scope": "every Mm.w.d start rule (m 2..5, w 1..5, d 0..6; thorough: all, quick: a third) x "
                       "transitions of 2023, 2024, 2100 against the specification",
        "partial_theorems": [t for t in props["theorems"] if t.endswith("_partial")],
        "refuted_theorems": [t for t in props["theorems"] if t.endswith("_refuted")],
        "regenerated_from_source": ["tzrangebase._dst_base_offset/_naive_isdst/is_ambiguous/_isdst/utcoffset/dst/"
                                    "tzname/fromutc", "tzrange.__init__/transitions", "tzstr.__init__/_delta",
                                    "tzlocal._naive_is_dst/is_ambiguous/_isdst/utcoffset/dst/tzname",
                                    "_tzparser.parse slices: abbreviation span (character class + loop), offset "
                                    "after an abbreviation, rule time after '/', one pass of the POSIX rule loop "
                                    "(Jn | Mm.w.d | n)[/time], one pass of the deprecated comma-format rule loop"],
        "differential_only": ["_tzparser.parse outside the regenerated slices (tokeniser, outer abbreviation loop, "
                              "rule-count dispatch and its character filters, trailing daylight delta of the "
                              "deprecated format, unused-token check: hand model)",
                              "tzlocal against real glibc (C library trusted; instants where glibc disagrees with "
                              "the spec are skipped and counted: libc_vs_spec_disagreements)",
                              "CPython's time module (init_timezone) is hand-modelled, compared on every tzlocal zone",
                              "saving = 0 (outside guard_apart; generated and compared with the spec, no matcher)",
                              "tzrange keyword styles",
                              "deprecated comma format of _tzparser", "non-ASCII input"],
        "known_findings_hit": verdict.known_hits,
        "known_finding_examples": verdict.known_examples,
    }
    C.write_evidence(CID, tier, t0, props, cov,
                     ["CPython datetime arithmetic modelled as integer seconds (coq/posix/PTime.v)",
                      "re.split tokeniser of _tzparser modelled (tokenize) and compared on every string",
                      "glibc localtime() under TZ=<string> trusted for tzlocal; used as witness for the spec",
                      "ASCII alphabet (int() of non-ASCII digits not modelled)"],
                     len(verdict.violations))
    print("C08 %s: obligations %d/%d, %d evaluations, model-diff %d, spec-diff %d, known %r, %.1fs" % (
        tier, props["discharged"], props["obligations"], st.evals, st.model_diff, st.spec_diff,
        verdict.known_hits, time.time() - t0))
    return rc


if __name__ == "__main__":
    sys.exit(main())
