#!/usr/bin/env python3
"""Regenerate the machine-written tables of DESIGN.md (between the AUTO markers) from the evidence
files, known_findings.json, the props files and the seeded-change records.  Run by the lead before
committing; not a check."""
import glob, json, os, re
V = os.path.dirname(os.path.dirname(os.path.abspath(__file__)))


def props_stats(cid):
    p = os.path.join(V, "coq", "props", cid + ".v")
    if not os.path.exists(p):
        return 0, [], [], []
    src = re.sub(r"\(\*.*?\*\)", "", open(p).read(), flags=re.S)
    names = re.findall(r"^\s*Theorem\s+([A-Za-z0-9_']+)", src, flags=re.M)
    return (len(names), [n for n in names if n.endswith("_partial") or "_partial_" in n],
            [n for n in names if "refuted" in n], [n for n in names if "_gen_" in n])


def main():
    out = []
    kf = json.load(open(os.path.join(V, "known_findings.json")))
    out.append("### Per-property status (generated)\n")
    out.append("| id | theorems in props | of which `_partial` | `_refuted` witnesses | `_gen_` (regenerated-from-source ties) | axioms (Print Assumptions, last run) | open findings | fixed defects |")
    out.append("|---|---|---|---|---|---|---|---|")
    for i in range(1, 21):
        cid = "C%02d" % i
        n, part, ref, gen = props_stats(cid)
        ev = {}
        try:
            ev = json.load(open(os.path.join(V, "evidence", cid + ".json")))
        except Exception:
            pass
        pa = ev.get("coverage", {}).get("print_assumptions", {})
        ax = sorted({v.split("\n")[0] if v.startswith("Closed") else "AXIOMS: " + v[:80] for v in pa.values()})
        axs = "closed" if ax == ["Closed under the global context"] else ("; ".join(ax) or "n/a")
        opn = [f["id"] for f in kf["findings"] if f["property"] == cid and f.get("status") == "open"]
        fx = [f.get("commit", "?") for f in kf["fixed"] if f["property"] == cid]
        out.append("| %s | %d | %d | %d | %d | %s | %s | %s |" % (cid, n, len(part), len(ref), len(gen), axs,
                   ", ".join(opn) or "-", ", ".join(fx) or "-"))
    out.append("\n### Open known findings (generated from known_findings.json)\n")
    out.append("| id | property | what fails |")
    out.append("|---|---|---|")
    for f in kf["findings"]:
        if f.get("status") == "open":
            out.append("| %s | %s | %s |" % (f["id"], f["property"], f["what"].replace("|", "\\|")))
    out.append("\n### Repaired defects (`fix:` commits in /repo; generated)\n")
    out.append("| property | commit | what failed |")
    out.append("|---|---|---|")
    for f in kf["fixed"]:
        out.append("| %s | %s | %s |" % (f["property"], f.get("commit", "?"), f.get("what", f.get("entry", "")).replace("|", "\\|")))
    out.append("\n### Seeded changes and which check catches them (generated from seeded/*/)\n")
    out.append("| seed | property | change | needs | quick check result (repo head) |")
    out.append("|---|---|---|---|---|")
    tot = caught = conc = 0
    for d in sorted(glob.glob(os.path.join(V, "seeded", "*", "meta.json"))):
        sd = os.path.dirname(d)
        m = json.load(open(d))
        lr = {}
        try:
            lr = json.load(open(os.path.join(sd, "last_run.json")))
        except Exception:
            pass
        tot += 1
        if lr.get("caught"):
            caught += 1
            conc += 1 if lr.get("concrete") else 0
        res = "not run" if not lr else (("CAUGHT" + (" (concrete replay)" if lr.get("concrete") else " (no-failing-input-found)")) if lr.get("caught") else "MISSED") + " @" + lr.get("repo_head", "")
        out.append("| %s | %s | %s | %s | %s |" % (os.path.basename(sd), m["property"], m["what"][:160].replace("|", "\\|").replace("\n", " "),
                   m.get("needs", "")[:140].replace("|", "\\|").replace("\n", " "), res))
    out.append("\n%d seeded changes, %d caught by `./check <property> quick` (%d with a concrete replay)." % (tot, caught, conc))
    txt = "\n".join(out) + "\n"
    p = os.path.join(V, "DESIGN.md")
    s = open(p).read()
    a, b = "<!-- AUTO-TABLES-BEGIN -->", "<!-- AUTO-TABLES-END -->"
    if a in s and b in s:
        s = s[:s.index(a) + len(a)] + "\n" + txt + s[s.index(b):]
        open(p, "w").write(s)
        print("DESIGN.md tables refreshed (%d seeds, %d caught)" % (tot, caught))
    else:
        print(txt)


if __name__ == "__main__":
    main()
