#!/usr/bin/env python3
"""C18 -- zone factories return one shared object per key, safely under threads.

Theorems (coq/props/C18.v) about the transition system coq/factory/FacModel.v, and a
correspondence that drives the REAL factories:
  (i)   sequential request histories over pools of > 8 keys per factory with dropped references,
        gc.collect(), cache_clear(), set_cache_size(n), nocache()/instance(): the state after every
        operation (client identities, visible weak map, strong-cache order) must equal the
        extracted model's, up to a renaming of object ids;
  (ii)  real threads under a deterministic line-level scheduler (harness/factory_lib.py): every
        run is validated, step by step, as a run of the extracted transition system;
  (iii) copy / deepcopy / pickle protocols and the == decision table (runtime glue: exercised,
        not modelled, except the == table which is also checked against FacEq.zone_eq).
The executable SPEC (FacSpec.spec_identity) is evaluated on the identities the implementation
actually returned."""
import copy
import json
import os
import pickle
import sys
import time
import warnings
from datetime import datetime, timedelta

sys.path.insert(0, os.path.dirname(os.path.abspath(__file__)))
import common as C

# a TZ whose abbreviations are no zone files: gettz('QQQ') is tzlocal() (never cached) and
# gettz('') resolves through tzstr(os.environ['TZ'])
os.environ["TZ"] = "QQQ3RRR,M3.2.0,M11.1.0"
C.reexec_under_impl_python()
time.tzset()
warnings.simplefilter("ignore")

import factory_lib as L  # noqa: E402

CID = "C18"
AREA = "factory"
VO = ["props/C18.vo", "factory/FacModel.vo", "factory/FacSpec.vo", "factory/FacObs.vo", "factory/FacEq.vo"]
M_RUN, M_RUN_OLD, M_SPEC, M_ZEQ, M_FIXED, M_KIND = 0, 1, 2, 3, 4, 5
# C18_OLD_MODEL=1: one-off experiment (not part of the registered check): validate a scratch copy of
# the PRE-e7e8908 tzoffset factory (VERIF_REPO=...) against `step_old`, tzoffset-only scenarios
OLD_MODEL = os.environ.get("C18_OLD_MODEL") == "1"


# --------------------------------------------------------------------------------------
# known finding

def m_cache_clear_identity(payload):
    """F-C18-a: identity of a gettz zone lost across gettz.cache_clear() -- and nothing else."""
    w = payload.get("witness") or {}
    return (payload.get("kind") == "identity" and w.get("fac") == L.FGET
            and w.get("epoch_earlier") is not None and w.get("epoch_earlier") != w.get("epoch_later"))


def m_tzical_clone(payload):
    """F-C18-c: a tzical zone (_tzicalvtz) has identity equality and holds rrule cache locks: its copy
    is unequal, deepcopy/pickle raise TypeError/PicklingError -- and nothing else."""
    i = payload.get("input") or {}
    if i.get("cls") != "_tzicalvtz":
        return False
    if payload.get("kind") == "copy/pickle of a zone is not equal to it":
        return i.get("via") == "copy"
    if payload.get("kind") == "copy/pickle raised":
        return i.get("via") != "copy" and payload.get("exception") in ("TypeError", "PicklingError")
    return False


def m_nocache_tzstr_not_fresh(payload):
    """F-C18-d: gettz.nocache(name) for a name that resolves through tzstr(name) returns the tzstr factory's
    cached object, not a fresh one -- and nothing else."""
    i = payload.get("input") or {}
    return (payload.get("kind") == "instance()/nocache() returned the cached object, not a fresh one"
            and i.get("fac") == L.FGET and i.get("resolves_through") == "tzstr")


MATCHERS = {"m_cache_clear_identity": m_cache_clear_identity, "m_tzical_clone": m_tzical_clone,
            "m_nocache_tzstr_not_fresh": m_nocache_tzstr_not_fresh}


# --------------------------------------------------------------------------------------
# argument (de)serialisation for replays

def enc_arg(a):
    if isinstance(a, timedelta):
        return {"td": a.total_seconds()}
    if isinstance(a, bytes):
        return {"bytes": a.decode("latin-1")}
    return a


def dec_arg(a):
    if isinstance(a, dict) and "td" in a:
        return timedelta(seconds=a["td"])
    if isinstance(a, dict) and "bytes" in a:
        return a["bytes"].encode("latin-1")
    return a


# --------------------------------------------------------------------------------------
# pools

OFF_POOL = [("A", 3600), ("A", 3600.0), ("A", timedelta(hours=1)), ("A", -3600), ("B", 3600), ("B", 0),
            (None, 0), ("UTC", 0), ("C", 19800), ("C", timedelta(hours=5, minutes=30)), ("D", 45),
            ("E", -43200), ("F", 50400), ("G", 1), ("H", -1), ("I", 7200), ("J", 10800), ("K", 14400),
            ("L", 18000), ("M", 21600), ("N", 25200), ("O", timedelta(seconds=-3600)), ("", 0),
            ("X", "junk")]
STR_POOL = [("EST5EDT",), ("EST5EDT", True), ("EST5EDT", False), ("UTC+3",), ("UTC-3",), ("AAA3BBB",),
            ("AAA3BBB,M3.2.0,M11.1.0",), ("CET-1CEST",), ("JST-9",), ("UTC",), ("EST5",), ("MST7MDT",),
            ("PST8PDT",), ("NZST-12NZDT",), ("IST-5:30",), ("X1",), ("Y2",), ("Z3",), ("UTC+3", True),
            ("W4",), ("V6",), ("QQQ3RRR,M3.2.0,M11.1.0",), ("5",), ("UTC+",), ("EST5EDT,4",)]
GET_POOL = [("UTC",), ("GMT",), ("EST5EDT",), ("America/New_York",), ("Europe/London",), ("Asia/Tokyo",),
            ("Australia/Sydney",), ("Europe/Paris",), ("Asia/Kolkata",), ("America/Chicago",),
            ("America/Denver",), ("America/Los_Angeles",), ("Africa/Cairo",), ("Pacific/Auckland",),
            (":UTC",), ("America/New York",), ("",), ("UTC+3",), ("EST5EDT4",), ("X1",), ("QQQ",), ("RRR",),
            ("No/Such",), ("5",), ("EST5EDT,4",), (b"UTC",), ("/usr/share/zoneinfo/UTC",), ("/no/such/file",),
            ("Europe/Berlin",), ("Asia/Shanghai",)]
# with tz.TZPATHS emptied (no system database): 'UTC'/'GMT' resolve to the tz.UTC singleton
GET_POOL_NOPATH = [("UTC",), ("GMT",), ("UTC+3",), ("X1",), ("QQQ",), ("America/New_York",), ("",), ("5",),
                   ("Y2",), ("Z3",), ("W4",), ("V6",), ("UTC-3",), ("JST-9",), ("EST5",), ("CET-1CEST",)]

# Which requests are VALID is decided here, from the documented API -- never by probing the
# implementation under test: tzoffset(name, offset) with offset a number of seconds or a timedelta and any
# name; tzstr(s[, posix_offset]) for a well-formed TZ string; gettz(name) for ANY str name (unknown names
# give None, they do not raise).  Everything else listed here is invalid and must raise.
INVALID = {L.FOFF: {("X", "junk")},
           L.FSTR: {("5",), ("UTC+",), ("EST5EDT,4",)},
           L.FGET: {(b"UTC",)}}
# a valid-looking request that raises because of a defect recorded elsewhere: kept, not pruned
EXPECTED_BY_FINDING = [("gettz", "xxx,1,2,3,4,5,6,7,8,9", "TypeError",
                        "C08: a malformed TZ string makes tzstr raise TypeError instead of ValueError; "
                        "GettzFunc.nocache only swallows ValueError")]

_WORLDS = {}


class Ctx:
    """per-process lazily built worlds (config 'paths' / 'nopaths'), line table and oracle"""

    def __init__(self):
        self.worlds = {}
        self.table = None
        self.oracle = None

    def world(self, cfg):
        w = self.worlds.get(cfg)
        if w is None:
            w = L.World()
            w.cfg = cfg
            with TzPaths(w, cfg):
                w.pool = {L.FOFF: [w.add_entry(L.FOFF, a, a not in INVALID[L.FOFF]) for a in OFF_POOL],
                          L.FSTR: [w.add_entry(L.FSTR, a, a not in INVALID[L.FSTR]) for a in STR_POOL],
                          L.FGET: [w.add_entry(L.FGET, a, a not in INVALID[L.FGET])
                                   for a in (GET_POOL if cfg == "paths" else GET_POOL_NOPATH)]}
            w.reset()
            self.worlds[cfg] = w
        return w

    def line_table(self):
        """raises ValueError (TranslateError) when the source is outside the translator's subset; the
        text-located fallback table is then installed so that the search for a concrete failing
        schedule can go on"""
        if self.table is None:
            try:
                self.table = L.build_line_table(self.world("paths"))
            except ValueError:
                self.table = L.build_line_table_text(self.world("paths"))
                raise
        return self.table

    def orc(self):
        if self.oracle is None:
            self.oracle = C.Oracle(AREA)
        return self.oracle


class TzPaths:
    def __init__(self, world, cfg):
        self.lst = world.tz.tz.TZPATHS
        self.cfg = cfg

    def __enter__(self):
        self.saved = list(self.lst)
        if self.cfg == "nopaths":
            self.lst[:] = []

    def __exit__(self, *a):
        self.lst[:] = self.saved


CTX = Ctx()


def mk_call(w, entry, slot):
    e = w.entries[entry]
    return ("call", e["fac"], e["key"], e["kind"], slot, entry)


def mk_instance(w, entry, slot):
    e = w.entries[entry]
    return ("instance", e["fac"], e["key"], slot, entry)


def op_json(w, op):
    if op[0] == "call":
        return ["call", op[1], [enc_arg(a) for a in w.entries[op[5]]["args"]], op[4]]
    if op[0] == "instance":
        return ["instance", op[1], [enc_arg(a) for a in w.entries[op[4]]["args"]], op[3]]
    return list(op)


def op_from_json(w, j):
    if j[0] in ("call", "instance"):
        args = tuple(dec_arg(a) for a in j[2])
        for i, e in enumerate(w.entries):
            if e["fac"] == j[1] and len(e["args"]) == len(args) and all(
                    type(x) is type(y) and x == y for x, y in zip(e["args"], args)):
                entry = i
                break
        else:
            entry = w.add_entry(j[1], args)
        return mk_call(w, entry, j[3]) if j[0] == "call" else mk_instance(w, entry, j[3])
    return tuple(j)


# --------------------------------------------------------------------------------------
# generators

def gen_history(w, rnd):
    n = rnd.choice([8, 15, 25, 40, 60])
    facs = rnd.choice([[L.FOFF], [L.FSTR], [L.FGET], [L.FGET, L.FSTR], [L.FOFF, L.FSTR, L.FGET]])
    working = {f: rnd.sample(w.pool[f], min(len(w.pool[f]), rnd.choice([3, 6, 12, 20]))) for f in facs}
    prog = []
    for _ in range(n):
        r = rnd.random()
        f = rnd.choice(facs)
        slot = rnd.randrange(12)
        if r < 0.62:
            src = working[f] if rnd.random() < 0.85 else w.pool[f]
            prog.append(mk_call(w, rnd.choice(src), slot))
        elif r < 0.82:
            prog.append(("drop", slot))
        elif r < 0.86:
            e = rnd.choice(working[f])
            if w.entries[e]["kind"][0] in (L.K_FRESH,) and f != L.FGET:
                prog.append(mk_instance(w, e, slot))
            else:
                prog.append(("drop", slot))
        elif r < 0.90:
            prog.append(("utc", slot))
        elif r < 0.95:
            prog.append(("clear",) if L.FGET in facs else ("drop", slot))
        else:
            prog.append(("size", rnd.choice([0, 1, 2, 3, 5, 8, 20, -1])) if L.FGET in facs else ("drop", slot))
    return prog


def cacheable(w, e):
    kd = w.entries[e]["kind"]
    if w.entries[e]["fac"] != L.FGET:
        return kd[0] == L.K_FRESH
    return kd[0] in (L.K_FRESH, L.K_STATIC) or (kd[0] == L.K_TZSTR and not kd[2])


def gen_retention_probe(w, rnd):
    """'retention only': hold one zone in slot 0, ask for MORE than the strong-cache size of other
    keys (their references dropped, optionally with set_cache_size in between), then ask for the
    held key again (possibly through other arguments that hash to the same key)"""
    f = rnd.choice([L.FOFF, L.FOFF, L.FSTR, L.FGET])
    ents = [e for e in w.pool[f] if cacheable(w, e)]
    by_key = {}
    for e in ents:
        by_key.setdefault(w.entries[e]["key"], []).append(e)
    keys = list(by_key)
    rnd.shuffle(keys)
    held, others = keys[0], keys[1:]
    m = min(len(others), rnd.choice([8, 9, 9, 10, 12, 16]))
    prog = [mk_call(w, rnd.choice(by_key[held]), 0)]
    for j, k in enumerate(others[:m]):
        prog.append(mk_call(w, rnd.choice(by_key[k]), rnd.choice([1, 1, 2])))
        if f == L.FGET and rnd.random() < 0.08:
            prog.append(("size", rnd.choice([0, 1, 3, 8, 20])))
        if rnd.random() < 0.15:
            prog.append(("drop", rnd.choice([1, 2])))
    prog.append(mk_call(w, rnd.choice(by_key[held]), 5))
    if rnd.random() < 0.5:
        prog += [("drop", 0), mk_call(w, rnd.choice(by_key[held]), 6)]
    return prog


def gen_thread_progs(w, rnd):
    nt = rnd.choice([3, 3, 4])
    facs = rnd.choice([[L.FOFF], [L.FSTR], [L.FGET], [L.FGET, L.FSTR], [L.FOFF, L.FSTR, L.FGET]])
    keys = {f: rnd.sample(w.pool[f], rnd.choice([1, 2, 3])) for f in facs}
    progs = []
    for t in range(nt):
        p = []
        for j in range(rnd.choice([1, 2, 3])):
            r = rnd.random()
            f = rnd.choice(facs)
            slot = 10 * t + rnd.randrange(2)
            if r < 0.70:
                p.append(mk_call(w, rnd.choice(keys[f]), slot))
            elif r < 0.85:
                p.append(("drop", slot))
            elif r < 0.90:
                p.append(("utc", slot))
            elif r < 0.96 and L.FGET in facs:
                p.append(("clear",))
            elif L.FGET in facs:
                p.append(("size", rnd.choice([0, 1, 2, 8])))
            else:
                p.append(("drop", slot))
        progs.append(p)
    return progs


# scenarios of the systematic (<= 2 pre-emptions, 2 threads) stream: (config, description, builder)
def scenarios(w):
    def ent(f, args):
        for i in w.pool[f]:
            e = w.entries[i]
            if e["args"] == args:
                return i
        raise KeyError(args)
    a = ent(L.FOFF, ("A", 3600))
    a2 = ent(L.FOFF, ("A", timedelta(hours=1)))
    s = ent(L.FSTR, ("EST5EDT",))
    s3 = ent(L.FSTR, ("UTC+3",))
    g = ent(L.FGET, ("Europe/London",))
    n3 = ent(L.FGET, ("UTC+3",))
    bad = ent(L.FSTR, ("5",))
    g5 = ent(L.FGET, ("5",))
    gq = ent(L.FGET, ("QQQ",))
    gb = ent(L.FGET, (b"UTC",))
    extra = [
        ("gettz(name) whose tzstr(name) raises against tzstr", [[mk_call(w, g5, 0)], [mk_call(w, s, 10)]]),
        ("gettz -> tzlocal (never cached) against gettz", [[mk_call(w, gq, 0)], [mk_call(w, g, 10)]]),
        ("gettz(bytes) raising under the lock against gettz", [[mk_call(w, gb, 0)], [mk_call(w, g, 10)]]),
        ("set_cache_size(-1) raising under the lock against gettz", [[("size", -1)], [mk_call(w, g, 10)]]),
        ("instance() against call", [[mk_instance(w, a, 0), mk_call(w, a, 1)], [mk_call(w, a, 10)]]),
    ]
    return [
        ("tzoffset same fresh key", [[mk_call(w, a, 0)], [mk_call(w, a2, 10)]]),
        ("tzstr same fresh key", [[mk_call(w, s, 0)], [mk_call(w, s, 10)]]),
        ("gettz same fresh name", [[mk_call(w, g, 0)], [mk_call(w, g, 10)]]),
        ("gettz(name)->tzstr(name) against tzstr(name)", [[mk_call(w, n3, 0)], [mk_call(w, s3, 10)]]),
        ("gettz against cache_clear", [[mk_call(w, g, 0), mk_call(w, g, 1)], [("clear",)]]),
        ("tzoffset call+drop against call", [[mk_call(w, a, 0), ("drop", 0)], [mk_call(w, a, 10)]]),
        ("tzstr raising constructor against call", [[mk_call(w, bad, 0)], [mk_call(w, s, 10)]]),
        ("gettz against set_cache_size(0)", [[mk_call(w, g, 0)], [("size", 0), mk_call(w, g, 10)]]),
        ("tzutc twice", [[("utc", 0)], [("utc", 10)]]),
    ] + extra


# --------------------------------------------------------------------------------------
# property predicates on what the implementation returned

def find_identity_violation(returns, strict):
    """returns: chronological (fac, key, serial, epoch, held).  First pair breaking the spec."""
    for j, (f, k, o, e, held) in enumerate(returns):
        for i in range(j):
            f2, k2, o2, e2, _h = returns[i]
            if f2 == f and k2 == k and (strict or e2 == e) and o2 in held and o2 != o:
                return {"fac": f, "key": k, "earlier_index": i, "later_index": j, "earlier_obj": o2,
                        "later_obj": o, "epoch_earlier": e2, "epoch_later": e}
    return None


def spec_args(returns):
    a = []
    for (f, k, o, e, held) in reversed(returns):
        a += [f, k, o, e, len(held)] + list(held)
    return a


def expected_exceptions(progs):
    n = 0
    for p in progs:
        for op in p:
            if op[0] == "call" and op[3][0] == L.K_RAISE:
                n += 1
            if op[0] == "size" and op[1] < 0:
                n += 1
    return n


def check_properties(w, progs, returns, excs, o):
    """-> list of (payload-kind, witness) property violations observed on the implementation"""
    out = []
    sp = o.call(M_SPEC, spec_args(returns)) if returns else [1, 1]
    wit = find_identity_violation(returns, strict=False)
    wit_strict = find_identity_violation(returns, strict=True)
    if (sp[0] == 0) != (wit is not None) or (sp[1] == 0) != (wit_strict is not None):
        out.append(("harness", {"what": "extracted spec and its Python twin disagree", "spec": sp}))
    if wit is not None:
        out.append(("identity", wit))
    elif wit_strict is not None:
        out.append(("identity", wit_strict))
    unexpected = [x for x in excs if not ((x[-2][0] == "call" and x[-2][3][0] == L.K_RAISE) or
                                          (x[-2][0] == "size" and x[-2][1] < 0))]
    if unexpected:
        out.append(("exception", {"ops": [[op_json(w, x[-2]), x[-1]] for x in unexpected]}))
    elif len(excs) != expected_exceptions(progs):
        out.append(("exception-missing", {"observed": len(excs), "expected": expected_exceptions(progs)}))
    return out


# --------------------------------------------------------------------------------------
# one sequential case / one threaded case (run in worker processes)

class SeqHang(BaseException):
    pass


def _alarm(_sig, _frm):
    raise SeqHang()


def case_sequential(cfg, prog, want_samples=False):
    import signal
    w = CTX.world(cfg)
    o = CTX.orc()
    hang = None
    with TzPaths(w, cfg):
        w.reset()
        # watchdog: a call that blocks on a real lock (self-deadlock) is interrupted, not waited for
        old = signal.signal(signal.SIGALRM, _alarm)
        signal.alarm(120 if HANGS[0] < 2 else 5)
        try:
            snaps, returns, excs = L.run_sequential(w, prog)
        except SeqHang:
            hang = "a sequential history did not finish in time (a call blocked on a factory lock)"
            HANGS[0] += 1
            snaps, returns, excs = [], [], []
        finally:
            signal.alarm(0)
            signal.signal(signal.SIGALRM, old)
        if hang:
            # the factory locks may be left held: replace them so that later cases can run
            from six.moves import _thread
            for f in (L.FOFF, L.FSTR, L.FGET):
                oo, aa = w.lock_attr(f)
                setattr(oo, aa, _thread.allocate_lock())
        w.reset()
    if hang:
        return {"diff": hang, "props": [("hang", {"what": hang})], "nops": len(prog), "nret": 0, "nexc": 0,
                "model_spec": 1, "hits": 0, "max_lru": 0, "distinct_keys": 0}
    out = o.call(M_RUN, L.enc_scenario([prog], [0] * (24 * len(prog) + 8), verbose=False))
    recs, tail = L.parse_trace(out)
    bnd = [r for r in recs if r["pc1"] == 0]
    diff = None
    if len(bnd) != len(snaps) or not tail["finished"]:
        diff = "model finished %d operations of %d" % (len(bnd), len(snaps))
    else:
        rn = L.Renamer()
        for i, (m, r) in enumerate(zip(bnd, snaps)):
            d = rn.match(L.snap_tokens(m["snap"]), L.snap_tokens(r))
            if d:
                diff = "after operation %d %r: %s" % (i, op_json(w, prog[i]), d)
                break
    props = check_properties(w, [prog], returns, [(0,) + x for x in excs], o)
    return {"diff": diff, "props": props, "nops": len(prog), "nret": len(returns), "nexc": len(excs),
            "model_spec": tail["spec"], "hits": sum(1 for i, r in enumerate(returns) if r[2] in r[4]),
            "max_lru": max(len(s["facs"][f]["lru"]) for s in snaps for f in range(3)) if snaps else 0,
            "distinct_keys": len({(op[1], op[2]) for op in prog if op[0] == "call"})}


def make_pick(spec, rnd):
    """spec = ('sys', first, a, b) | ('rand',)"""
    if spec[0] == "rand":
        def pick(s):
            u = s.unfinished()
            if not u:
                return None
            r = [t for t in u if s.runnable(t)]
            if not r:
                return "DEADLOCK"
            # mostly runnable threads, sometimes a blocked one (exercises step = None)
            if rnd.random() < 0.1:
                return rnd.choice(u)
            return rnd.choice(r)
        return pick
    _tag, first, a, b = spec
    other = 1 - first
    st = {"phase": 0, "cnt": 0}

    def pick(s):
        u = s.unfinished()
        if not u:
            return None
        if not any(s.runnable(t) for t in u):
            return "DEADLOCK"
        while True:
            ph = st["phase"]
            if ph == 0:
                want, lim = first, a
            elif ph == 1:
                want, lim = other, b
            elif ph == 2:
                want, lim = first, 10 ** 9
            else:
                want, lim = other, 10 ** 9
            if ph > 3:
                return u[0]
            if want in u and st["cnt"] < lim:
                if s.runnable(want):
                    # (a thread about to find its lock held is runnable: the grant makes it
                    #  report "blocked", which is the model's step = None)
                    st["cnt"] += 1
                    return want
                # waiting for a held lock: run another thread until the lock is free
                return [t for t in u if t != want and s.runnable(t)][0]
            st["phase"] += 1
            st["cnt"] = 0
    return pick


HANGS = [0]


def case_threads(cfg, progs, spec, seed_tag, utc_fresh=False):
    w = CTX.world(cfg)
    o = CTX.orc()
    table = CTX.line_table()
    rnd = C.rng(seed_tag)
    res = {"diff": None, "props": [], "sched": [], "nsteps": 0, "blocked_steps": 0, "deadlock": False, "hang": None}
    saved_utc = w.utc_cls
    if utc_fresh:
        w.utc_cls = type("tzutc_fresh", (w.tz.tzutc,), {})
    with TzPaths(w, cfg):
        w.reset()
        # generous timeout (the machine may be heavily loaded); after two hangs in this process
        # further cases wait only 10 s, so a genuinely hanging implementation cannot stall the check
        s = L.Sched(w, progs, table, timeout=90.0 if HANGS[0] < 2 else 10.0)
        inner = make_pick(spec, rnd)

        def pick(sc):
            t = inner(sc)
            if t == "DEADLOCK":
                res["deadlock"] = True
                return None
            return t
        try:
            trace = s.run(pick)
        except L.Hang as ex:
            res["hang"] = str(ex)
            HANGS[0] += 1
            trace = s.trace
        finally:
            w.utc_cls = saved_utc
        w.reset()
    sched = [r["tid"] for r in trace]
    res["sched"] = sched
    res["nsteps"] = len(trace)
    res["blocked_steps"] = sum(r["blocked"] for r in trace)
    out = o.call(M_RUN_OLD if OLD_MODEL else M_RUN,
                 L.enc_scenario(progs, sched, verbose=True, single0=0 if utc_fresh else -1))
    recs, tail = L.parse_trace(out)
    rn = L.Renamer()
    if len(recs) != len(trace):
        res["diff"] = "model took %d steps, implementation %d" % (len(recs), len(trace))
    for i, (m, r) in enumerate(zip(recs, trace)):
        pcn = L.PC_NAMES[m["pc0"]]
        if pcn not in L.LABEL_PCS.get(r["label"], ()):
            res["diff"] = "step %d thread %d: implementation at %r, model at %s" % (i, r["tid"], r["label"], pcn)
            break
        if m["blocked"] != r["blocked"]:
            res["diff"] = "step %d thread %d: blocked impl=%d model=%d" % (i, r["tid"], r["blocked"], m["blocked"])
            break
        d = rn.match(L.snap_tokens(m["snap"]), L.snap_tokens(r["snap"]))
        if d:
            res["diff"] = "step %d thread %d (%s): %s" % (i, r["tid"], r["label"], d)
            break
    if res["diff"] is None and not res["deadlock"] and not res["hang"] and not tail["finished"]:
        res["diff"] = "implementation finished, model did not"
    res["props"] = check_properties(w, progs, s.returns, s.excs, o)
    if res["deadlock"]:
        res["props"].append(("deadlock", {"labels": list(s.label), "owners": {str(k): v for k, v in s.owner.items()}}))
    if res["hang"]:
        res["props"].append(("hang", {"what": res["hang"]}))
    if not utc_fresh:
        # tzutc(): every call returned the module's singleton
        utc_serial = s.ser.of(w.tz.UTC)
        if any(x != utc_serial for x in s.utc_results):
            res["props"].append(("tzutc-identity", {"returned": s.utc_results, "utc": utc_serial}))
    res["nret"] = len(s.returns)
    res["model_spec"] = tail["spec"]
    return res


def worker(task):
    kind = task[0]
    try:
        if kind == "seq":
            _k, cfg, idx = task
            rnd = C.rng("C18/seq/%s/%d" % (cfg, idx))
            w = CTX.world(cfg)
            prog = gen_retention_probe(w, rnd) if idx % 3 == 2 else gen_history(w, rnd)
            r = case_sequential(cfg, prog)
            r["input"] = {"mode": "sequential", "config": cfg, "program": [op_json(w, op) for op in prog]}
            r["task"] = task
            return r
        if kind == "sys":
            _k, sc, first, a, full = task
            w = CTX.world("paths")
            name, progs = scenarios(w)[sc]
            outs = []
            last = None
            for b in (range(0, 40) if full else (0, 1, 2, 99)):
                r = case_threads("paths", progs, ("sys", first, a, b), "C18/sys", utc_fresh=False)
                key = tuple(r["sched"])
                if key == last:
                    break
                last = key
                r["input"] = {"mode": "threads", "config": "paths", "scenario": name,
                              "programs": [[op_json(w, op) for op in p] for p in progs], "schedule": r["sched"]}
                r["task"] = task[:4] + (b,)
                outs.append(r)
            return outs
        if kind == "rand":
            _k, idx = task
            rnd = C.rng("C18/rand/%d" % idx)
            w = CTX.world("paths")
            progs = gen_thread_progs(w, rnd)
            r = case_threads("paths", progs, ("rand",), "C18/randsched/%d" % idx)
            r["input"] = {"mode": "threads", "config": "paths",
                          "programs": [[op_json(w, op) for op in p] for p in progs], "schedule": r["sched"]}
            r["task"] = task
            return r
        if kind == "clone":
            _k, chunk, nchunks, full = task
            payloads, st = clone_checks(chunk, nchunks, full)
            return {"task": task, "clone_payloads": payloads, "clone_stats": st, "diff": None, "props": []}
        if kind == "utcfresh":
            _k, first, a = task
            w = CTX.world("paths")
            progs = [[("utc", 0)], [("utc", 10)]]
            outs = []
            last = None
            for b in range(0, 12):
                r = case_threads("paths", progs, ("sys", first, a, b), "C18/utc", utc_fresh=True)
                key = tuple(r["sched"])
                if key == last:
                    break
                last = key
                r["input"] = {"mode": "threads", "config": "paths", "scenario": "fresh _TzSingleton subclass",
                              "programs": [[list(op) for op in p] for p in progs], "schedule": r["sched"],
                              "utc_fresh": True}
                r["task"] = task + (b,)
                outs.append(r)
            return outs
    except Exception as ex:  # fail closed: reported as a broken correspondence
        import traceback
        return {"diff": "harness/instrumentation failure: %r" % (ex,), "props": [], "task": task,
                "input": {"task": list(task)}, "trace": traceback.format_exc()[-1500:], "failed": True}


# --------------------------------------------------------------------------------------
# (iii) runtime glue: copy / deepcopy / pickle ; == decision table

PROBES = [datetime(2000, 1, 1), datetime(2021, 3, 14, 2, 30), datetime(2021, 7, 1, 12), datetime(2021, 11, 7, 1, 30),
          datetime(1970, 1, 1), datetime(2038, 1, 19, 3, 14, 8), datetime(1900, 6, 1), datetime(2021, 3, 28, 1, 30),
          datetime(2021, 10, 31, 1, 30), datetime(2024, 2, 29, 23, 59, 59)]


def answers(z):
    out = []
    for dt in PROBES:
        for fold in (0, 1):
            d = dt.replace(tzinfo=z, fold=fold)
            out.append((d.utcoffset(), d.dst(), d.tzname()))
    return out


ICS = """BEGIN:VCALENDAR
BEGIN:VTIMEZONE
TZID:US-Eastern
BEGIN:STANDARD
DTSTART:19671029T020000
RRULE:FREQ=YEARLY;BYDAY=-1SU;BYMONTH=10
TZOFFSETFROM:-0400
TZOFFSETTO:-0500
TZNAME:EST
END:STANDARD
BEGIN:DAYLIGHT
DTSTART:19870405T020000
RRULE:FREQ=YEARLY;BYDAY=1SU;BYMONTH=4
TZOFFSETFROM:-0500
TZOFFSETTO:-0400
TZNAME:EDT
END:DAYLIGHT
END:VTIMEZONE
BEGIN:VTIMEZONE
TZID:Fixed-Plus-Two
BEGIN:STANDARD
DTSTART:19700101T000000
TZOFFSETFROM:+0200
TZOFFSETTO:+0200
TZNAME:FPT
END:STANDARD
END:VTIMEZONE
END:VCALENDAR
"""


def probe_grid(full):
    """instants on both sides of every usual transition (each day of Mar/Apr/Oct/Nov, quick: 01:30 and
    02:30 in 2021; thorough: 00:30..03:30 in 1987, 2000, 2021) plus mid-month noons and range ends;
    each instant is asked with fold 0 and 1"""
    g = []
    for y in ((1987, 2000, 2021) if full else (2021,)):
        for m in (3, 4, 10, 11):
            for d in range(1, 31):
                for hh in ((0, 1, 2, 3) if full else (1, 2)):
                    g.append(datetime(y, m, d, hh, 30))
        for m in range(1, 13):
            g.append(datetime(y, m, 15, 12, 0))
    g += [datetime(1, 1, 2), datetime(1900, 6, 1), datetime(1970, 1, 1), datetime(2038, 1, 19, 3, 14, 8),
          datetime(2100, 7, 1), datetime(9999, 12, 30, 12)]
    return g


def grid_answers(z, grid):
    """utcoffset / dst / tzname / is_ambiguous / datetime_exists of every grid instant (both folds), and
    fromutc (through astimezone of the same reading taken as UTC) for the instants well inside the
    datetime range; an exception is recorded as a value and counted"""
    from dateutil import tz
    out = []
    UTC = tz.UTC
    for dt in grid:
        mid = 1900 <= dt.year <= 2200
        for fold in (0, 1):
            d = dt.replace(tzinfo=z, fold=fold)
            try:
                a = [d.utcoffset(), d.dst(), d.tzname()]
                if hasattr(z, "is_ambiguous"):
                    a.append(z.is_ambiguous(dt))
                if mid:
                    a.append(tz.datetime_exists(dt, z))
                    if fold == 0:
                        loc = dt.replace(tzinfo=UTC).astimezone(z)
                        a.append((loc.replace(tzinfo=None), loc.fold, loc.utcoffset()))
                out.append(tuple(a))
            except Exception as ex:
                out.append(("EXC", type(ex).__name__, mid))
    return out


def clone_pool():
    """(label, zone): every constructor-argument variant of every zone class"""
    import io
    from dateutil import tz
    from dateutil.relativedelta import relativedelta, SU, MO
    out = []

    def add(label, thunk):
        try:
            out.append((label, thunk()))
        except Exception as ex:  # every variant listed here is valid by the documented API: flagged by the caller
            out.append((label + " [constructor raised %s]" % type(ex).__name__, None))
    add("tz.UTC", lambda: tz.UTC)
    add("tzutc()", lambda: tz.tzutc())
    for name, off in [(None, 0), ("A", 3600), ("A", timedelta(hours=1)), ("B", -3600.0), ("C", 45), ("D", -1),
                      ("E", timedelta(seconds=30)), ("F", timedelta(hours=5, minutes=30)), ("", 0), ("UTC", 0),
                      ("G", timedelta(hours=-12)), ("H", 50400), ("I", timedelta(minutes=-1))]:
        add("tzoffset(%r, %r)" % (name, off), lambda n=name, o=off: tz.tzoffset(n, o))
        add("tzoffset.instance(%r, %r)" % (name, off), lambda n=name, o=off: tz.tzoffset.instance(n, o))
    strs = ["GMT+3", "GMT-3", "UTC+3", "UTC-3", "GMT+3:30", "UTC-11", "GMT0", "UTC", "EST5", "EST5EDT",
            "EST5EDT,M3.2.0,M11.1.0", "EST5EDT4,M3.2.0/2,M11.1.0/2", "AAA3BBB,M3.2.0/1,M11.1.0/3",
            "CET-1CEST,M3.5.0,M10.5.0/3", "GMT+3BST,M3.5.0,M10.5.0", "UTC-3DDD,M10.1.0,M2.3.0",
            "NZST-12NZDT,M9.5.0,M4.1.0/3", "EST5EDT,4,0,6,7200,10,0,26,7200,3600", "EST5EDT,J60,J300", "IST-5:30"]
    for st in strs:
        add("tzstr(%r)" % st, lambda x=st: tz.tzstr(x))
        add("tzstr(%r, posix_offset=True)" % st, lambda x=st: tz.tzstr(x, posix_offset=True))
        add("tzstr(%r, posix_offset=False)" % st, lambda x=st: tz.tzstr(x, posix_offset=False))
        add("tzstr.instance(%r, True)" % st, lambda x=st: tz.tzstr.instance(x, True))
    r1 = relativedelta(hours=+2, month=4, day=1, weekday=SU(+1))
    r2 = relativedelta(hours=+1, month=10, day=31, weekday=SU(-1))
    for label, args, kw in [
            ("tzrange('EST')", ("EST",), {}),
            ("tzrange('EST', -18000)", ("EST", -18000), {}),
            ("tzrange('EST', timedelta)", ("EST", timedelta(hours=-5)), {}),
            ("tzrange('EST', -18000, 'EDT')", ("EST", -18000, "EDT"), {}),
            ("tzrange('EST', -18000, 'EDT', -14400)", ("EST", -18000, "EDT", -14400), {}),
            ("tzrange(.., dstoffset=timedelta)", ("EST", timedelta(hours=-5), "EDT", timedelta(hours=-4)), {}),
            ("tzrange(.., start, end)", ("EST", -18000, "EDT", -14400, r1, r2), {}),
            ("tzrange(.., start only)", ("EST", -18000, "EDT"), {"start": r1}),
            ("tzrange(.., end only)", ("EST", -18000, "EDT"), {"end": r2}),
            ("tzrange(southern)", ("AEST", 36000, "AEDT", 39600,
                                   relativedelta(hours=+2, month=10, day=1, weekday=SU(+1)),
                                   relativedelta(hours=+2, month=4, day=1, weekday=SU(+1))), {}),
            ("tzrange(monday rule)", ("X", 0, "Y", 1800, relativedelta(month=3, day=10, weekday=MO(+1)),
                                      relativedelta(month=9, day=10, weekday=MO(-1))), {})]:
        add(label, lambda a=args, k=kw: tz.tzrange(*a, **k))
    files = [n for n in ("Europe/London", "America/New_York", "Australia/Lord_Howe", "Asia/Kolkata", "UTC",
                         "Africa/Casablanca", "America/Sao_Paulo", "EST5EDT")
             if os.path.isfile(os.path.join("/usr/share/zoneinfo", n))]
    for n in files:
        path = os.path.join("/usr/share/zoneinfo", n)
        add("tzfile(path %s)" % n, lambda q=path: tz.tzfile(q))
        add("tzfile(open file %s)" % n, lambda q=path: (lambda f: (tz.tzfile(f), f.close())[0])(open(q, "rb")))
        add("tzfile(BytesIO %s)" % n, lambda q=path: tz.tzfile(io.BytesIO(open(q, "rb").read())))
        add("tzfile(BytesIO, filename=%s)" % n, lambda q=path, m=n: tz.tzfile(io.BytesIO(open(q, "rb").read()), filename=m))
        add("gettz(%s)" % n, lambda m=n: tz.gettz(m))
        add("gettz.nocache(%s)" % n, lambda m=n: tz.gettz.nocache(m))
    for n in ("UTC+3", "GMT-3", "EST5EDT4,M3.2.0,M11.1.0", ":UTC", ""):
        add("gettz(%r)" % n, lambda m=n: tz.gettz(m))
    add("tzical zone US-Eastern", lambda: tz.tzical(io.StringIO(ICS)).get("US-Eastern"))
    add("tzical zone Fixed-Plus-Two", lambda: tz.tzical(io.StringIO(ICS)).get("Fixed-Plus-Two"))
    saved = os.environ.get("TZ")
    try:
        for env in ("UTC", "GMT0", "EST5", "EST5EDT,M3.2.0,M11.1.0", "QQQ3RRR,M3.2.0,M11.1.0", "NZST-12NZDT,M9.5.0,M4.1.0/3"):
            os.environ["TZ"] = env
            time.tzset()
            add("tzlocal() under TZ=%s" % env, lambda: tz.tzlocal())
    finally:
        os.environ["TZ"] = saved
        time.tzset()
    add("tzlocal()", lambda: tz.tzlocal())
    return [(lab, z) for lab, z in out if z is not None], [lab for lab, z in out if z is None]


def clone_checks(chunk, nchunks, full):
    """copy / deepcopy / pickle 0..HIGHEST of every variant (this worker's share): equal both ways,
    hash-equal where hashable, identical utcoffset/dst/tzname on the probe grid.
    -> (violation payloads, stats)"""
    grid = probe_grid(full)
    pool, absent = clone_pool()
    stats = {"clone_zones": 0, "clone_variants_absent": absent if chunk == 0 else [],
             "clone_grid_instants_x_folds": 2 * len(grid), "clones": 0, "clone_classes": {}, "probe_exceptions": 0}
    out = []
    if chunk == 0:
        for lab in absent:
            out.append({"kind": "exception", "what": "a valid zone constructor raised",
                        "input": {"zone": lab, "via": "constructor", "cls": "?"}})
    variants = [("copy", copy.copy), ("deepcopy", copy.deepcopy)]
    for proto in range(0, pickle.HIGHEST_PROTOCOL + 1):
        variants.append(("pickle%d" % proto, lambda x, p=proto: pickle.loads(pickle.dumps(x, p))))
    for label, z in pool[chunk::nchunks]:
        cname = type(z).__name__
        stats["clone_zones"] += 1
        stats["clone_classes"][cname] = stats["clone_classes"].get(cname, 0) + 1
        base = None
        for nm, fn in variants:
            inp = {"zone": label, "via": nm, "cls": cname}
            try:
                c = fn(z)
            except Exception as ex:
                out.append({"kind": "copy/pickle raised", "input": inp, "exception": type(ex).__name__})
                continue
            stats["clones"] += 1
            equal = (c == z and z == c) and not (c != z) and not (z != c)
            if not equal:
                out.append({"kind": "copy/pickle of a zone is not equal to it", "input": inp})
                if cname != "_tzicalvtz":       # (F-C18-c: identity equality; its behaviour is still compared)
                    continue
            try:
                hz = hash(z) if equal else None
            except TypeError:
                hz = None
            if hz is not None:
                try:
                    if hash(c) != hz:
                        out.append({"kind": "copy/pickle of a zone is equal to it but hashes differently", "input": inp})
                except TypeError:
                    out.append({"kind": "copy/pickle of a hashable zone is unhashable", "input": inp})
            if base is None:
                base = grid_answers(z, grid)
                nexc = sum(1 for a in base if a and a[0] == "EXC" and a[2])
                stats["probe_exceptions"] += nexc
                if nexc and cname != "_tzicalvtz":
                    k0 = next(i for i, a in enumerate(base) if a and a[0] == "EXC" and a[2])
                    out.append({"kind": "exception", "what": "a zone raised when asked about an ordinary instant",
                                "input": dict(inp, via="probe", instant=str(grid[k0 // 2]), fold=k0 % 2),
                                "exception": base[k0][1]})
            got = grid_answers(c, grid)
            if got != base:
                k = next(i for i in range(len(base)) if base[i] != got[i])
                out.append({"kind": "copy/pickle of a zone answers differently",
                            "input": dict(inp, instant=str(grid[k // 2]), fold=k % 2,
                                          original=str(base[k]), clone=str(got[k]))})
    return out, stats


def zone_pool():
    from dateutil import tz
    from dateutil.relativedelta import relativedelta, SU
    zs = [tz.UTC, tz.tzutc(), tz.tzoffset("A", 3600), tz.tzoffset("B", 3600), tz.tzoffset("UTC", 0),
          tz.tzoffset(None, 0), tz.tzoffset("QQQ", -10800), tz.tzoffset("GMT", 0), tz.tzoffset.instance("A", 3600),
          tz.tzoffset("EST", -18000),
          tz.tzrange("EST", -18000, "EDT"), tz.tzrange("EST", -18000), tz.tzrange("EST", -18000, "EDT", -14400,
                                                                                   relativedelta(hours=+2, month=4, day=1, weekday=SU(+1)),
                                                                                   relativedelta(hours=+1, month=10, day=31, weekday=SU(-1))),
          tz.tzstr("EST5EDT"), tz.tzstr("EST5EDT,M3.2.0,M11.1.0"), tz.tzstr("EST5"), tz.tzstr("UTC+3"),
          tz.tzstr.instance("EST5EDT"), tz.tzstr("EST5EDT", posix_offset=True), tz.tzstr("AAA3BBB,M3.2.0,M11.1.0")]
    for name in ("UTC", "America/New_York", "Europe/London", "Asia/Tokyo", "EST5EDT", "EST"):
        z = tz.gettz(name)
        if z is not None:
            zs.append(z)
            z2 = tz.gettz.nocache(name)
            zs.append(z2)
    saved = os.environ.get("TZ")
    for env in ("UTC", "GMT0", "EST5", "EST5EDT,M3.2.0,M11.1.0", "QQQ3RRR,M3.2.0,M11.1.0", "QQQ3"):
        os.environ["TZ"] = env
        time.tzset()
        zs.append(tz.tzlocal())
    os.environ["TZ"] = saved
    time.tzset()
    zs.append(tz.tzlocal())
    import io
    zs.append(tz.tzical(io.StringIO(ICS)).get("US-Eastern"))
    zs.append(tz.tzstr("GMT+3"))
    zs.append(tz.tzstr("GMT+3", posix_offset=True))
    zs.append(tz.tzstr("GMT-3"))
    return zs


def encode_zone(z, idx, names, classes):
    from dateutil import tz

    def nm(s):
        return names.setdefault(s, len(names) + 1)

    def cls_index(kind, val):
        lst = classes.setdefault(kind, [])
        for i, v in enumerate(lst):
            if v == val:
                return i
        lst.append(val)
        return len(lst) - 1
    if isinstance(z, tz.tzutc):
        return [0, idx, 0, 0, 0, 0, 0, 0, 0]
    if isinstance(z, tz.tzoffset):
        sec = z._offset.total_seconds()
        return [1, idx, nm(z._name), int(sec * 10 ** 6), 0, 0, 0, 0, 0]
    if isinstance(z, tz.tzlocal):
        return [2, idx, int(z._std_offset.total_seconds() * 10 ** 6), int(z._dst_offset.total_seconds() * 10 ** 6),
                nm(z._tznames[0]), 0, 0, 0, 0]
    if isinstance(z, tz.tzrange):
        # one ==-class number per compared attribute
        return [3, idx, 1 if isinstance(z, tz.tzstr) else 0] + [
            cls_index("range." + a, getattr(z, a)) for a in
            ("_std_abbr", "_dst_abbr", "_std_offset", "_dst_offset", "_start_delta", "_end_delta")]
    if isinstance(z, tz.tzfile):
        return [4, idx, 0 if type(z) is tz.tzfile else 1] + [
            cls_index("file." + a, getattr(z, a)) for a in ("_trans_list", "_trans_idx", "_ttinfo_list")] + [0, 0, 0]
    return [5, idx, 0, 0, 0, 0, 0, 0, 0]


def us_of(td):
    return (td.days * 86400 + td.seconds) * 10 ** 6 + td.microseconds


def fixed_checks(verdict, o, stats):
    """tzutc / tzoffset methods, tzoffset.__init__ and enfold against the hand model FacFixed (which
    the regenerated gen/FixedGen.v is proved equal to)"""
    from dateutil import tz
    names = {None: 0, "UTC": 1}
    zones = [("utc", None, None, tz.UTC), ("utc", None, None, tz.tzutc())]
    for name in (None, "UTC", "A", ""):
        for arg in (0, 3600, -3600, 45, -1, 19800, 50400, -43200, timedelta(hours=1), timedelta(hours=-3, minutes=-30),
                    timedelta(seconds=1, microseconds=500000), timedelta(microseconds=-1), timedelta(days=1, seconds=-1)):
            try:
                zones.append(("off", name, arg, tz.tzoffset.instance(name, arg)))
            except Exception as ex:
                verdict.violation({"kind": "tzoffset constructor raised", "input": {"name": name, "offset": str(arg)},
                                   "exception": type(ex).__name__})
    instants = [datetime(2000, 1, 1), datetime(1970, 1, 1, 0, 0, 0, 1), datetime(2021, 3, 14, 2, 30),
                datetime(2021, 11, 7, 1, 30, 59, 999999), datetime(1900, 6, 1, 12), datetime(2038, 1, 19, 3, 14, 8),
                datetime(3, 1, 1), datetime(9998, 12, 30, 23, 59, 59)]
    base = datetime(1, 1, 1)
    n = bad = 0
    for kind, name, arg, z in zones:
        ncode = names.setdefault(name, len(names) + 5)
        for dt in instants:
            for fold in (0, 1):
                for nf in (0, 1):
                    d = dt.replace(fold=fold)
                    w = us_of(d - base)
                    aw = d.replace(tzinfo=z)
                    try:
                        fu = z.fromutc(aw)
                        en = tz.enfold(d, fold=nf)
                        real = [0 if kind == "utc" else us_of(z._offset), us_of(z.utcoffset(d)), us_of(z.dst(d)),
                                names.setdefault(z.tzname(d), len(names) + 5), 1 if z.is_ambiguous(d) else 0,
                                us_of(fu.replace(tzinfo=None) - base), fu.fold,
                                us_of(en.replace(tzinfo=None) - base), en.fold]
                    except Exception as ex:
                        real = ["EXC", type(ex).__name__]
                    if kind == "utc":
                        args = [1, 1, 0, 0, w, fold, nf]
                    elif isinstance(arg, timedelta):
                        args = [0, ncode, 1, us_of(arg), w, fold, nf]
                    else:
                        args = [0, ncode, 0, arg, w, fold, nf]
                    model = o.call(M_FIXED, args)
                    n += 1
                    if model != real:
                        bad += 1
                        inp = {"zone": repr(z), "dt": str(d), "fold": fold, "enfold": nf}
                        # the property's own statement for fixed zones: round trip and constant offset
                        off = None if real[0] == "EXC" else real[1]
                        concrete = real[0] == "EXC" or off != real[0] or real[5] - off != w or real[4] != 0
                        verdict.violation({"kind": "fixed-offset zone method differs from the model FacFixed",
                                           "input": inp, "impl": real, "model": model}, concrete=concrete)
    stats["fixed_zone_evaluations"] = n
    stats["fixed_zone_disagreements"] = bad


def gettz_facts(name):
    """the facts GettzFunc.nocache consults about `name`, computed independently of it"""
    from dateutil import tz
    from dateutil.zoneinfo import get_zonefile_instance
    T = tz.tz
    falsy = not name
    env = "TZ" in os.environ
    eff = name
    if falsy and env:
        eff = os.environ["TZ"]
    none_or_colon = eff is None or eff in ("", ":")

    def parses(path):
        try:
            tz.tzfile(path)
            return True
        except (IOError, OSError, ValueError):
            return False
    localfile = False
    for fp in T.TZFILES:
        cands = [fp] if os.path.isabs(fp) else [os.path.join(p, fp) for p in T.TZPATHS]
        hit = next((c for c in cands if os.path.isfile(c)), None)
        if hit is None and not os.path.isabs(fp):
            continue
        if hit is not None and parses(hit):
            localfile = True
            break
    nm = eff
    if isinstance(nm, str) and nm.startswith(":"):
        nm = nm[1:]
    isabs = bool(nm) and os.path.isabs(nm)
    abs_isfile = isabs and os.path.isfile(nm)
    path = False
    if nm and not isabs:
        for p in T.TZPATHS:
            fp = os.path.join(p, nm)
            if not os.path.isfile(fp):
                fp = fp.replace(" ", "_")
                if not os.path.isfile(fp):
                    continue
            if parses(fp):
                path = True
                break
    tarball = bool(nm) and bool(get_zonefile_instance().get(nm))
    digit = bool(nm) and any(c in "0123456789" for c in nm)
    tzstr_ok = False
    if nm is not None:
        try:
            tz.tzstr.instance(nm)
            tzstr_ok = True
        except ValueError:
            pass
        except Exception:
            tzstr_ok = None      # another exception class propagates out of gettz: not modelled
    gmt_utc = nm in ("GMT", "UTC")
    tzn = nm in time.tzname if nm is not None else False
    return [falsy, env, none_or_colon, localfile, isabs, abs_isfile, path, tarball, digit, tzstr_ok, gmt_utc, tzn]


def kind_checks(verdict, o, stats):
    """which kind of zone gettz(name) returns: hand decision function FacKind.gettz_kind against the
    real GettzFunc.nocache on a name pool (with and without tz.TZPATHS)"""
    from dateutil import tz
    from dateutil.zoneinfo import get_zonefile_instance
    pool = [None, "", ":", "UTC", "GMT", ":UTC", "EST5EDT", "America/New_York", "America/New York", "Europe/London",
            "No/Such", "QQQ", "RRR", "UTC+3", "GMT-3", "5", "EST5EDT,4", "X1", "EST", "/usr/share/zoneinfo/UTC",
            "/no/such/file", ":/usr/share/zoneinfo/UTC", "Asia/Tokyo", "utc", "gmt", "A B", "Etc/GMT+3", "localtime",
            "posixrules", "Zulu", "bogus"]
    n = bad = 0
    hist = {}
    for cfg in ("paths", "nopaths"):
        w = CTX.world(cfg)
        with TzPaths(w, cfg):
            for name in pool:
                facts = gettz_facts(name)
                if facts[9] is None:
                    continue
                try:
                    rv = tz.gettz.nocache(name)
                except Exception as ex:
                    verdict.violation({"kind": "gettz.nocache raised", "input": {"name": repr(name), "config": cfg},
                                       "exception": type(ex).__name__})
                    continue
                tar = get_zonefile_instance()
                if rv is None:
                    real = 2
                elif rv is tz.UTC:
                    real = 5
                elif isinstance(rv, tz.tzlocal):
                    real = 1
                elif isinstance(rv, tz.tzstr):
                    real = 4
                elif any(rv is z for z in tar.zones.values()):
                    real = 3
                elif isinstance(rv, tz.tzfile):
                    real = 0
                else:
                    real = -1
                model = o.call(M_KIND, [1 if name is None else 0] + [1 if x else 0 for x in facts])
                n += 1
                hist[real] = hist.get(real, 0) + 1
                if model[0] != real:
                    bad += 1
                    verdict.violation({"kind": "correspondence: kind of zone returned by gettz differs from "
                                               "FacKind.gettz_kind", "input": {"name": repr(name), "config": cfg},
                                       "impl": real, "model": model, "facts": facts}, concrete=False)
    w = CTX.world("paths")
    w.reset()
    stats["gettz_kind_names"] = n
    stats["gettz_kind_disagreements"] = bad
    stats["gettz_kind_histogram"] = {str(k): v for k, v in sorted(hist.items())}


def arithmetic_and_fresh_checks(verdict, stats):
    """(a) "aware datetimes built from equal requests use same-zone arithmetic": two factory calls with
    equal arguments give ONE tzinfo object, so the difference of two aware datetimes is wall-clock
    arithmetic (CPython: same tzinfo object -> naive subtraction), also across a DST transition, whereas
    equal-but-distinct zones (instance()/nocache products) subtract in UTC;
    (b) the "equal" half of "nocache / instance return fresh equal objects": for every valid pool request
    the fresh product is a different object, == the factory product both ways, and answers alike."""
    from dateutil import tz
    w = CTX.world("paths")
    w.reset()
    d1, d2 = datetime(2021, 3, 14, 1, 30), datetime(2021, 3, 14, 3, 30)     # across the US spring-forward
    n = 0
    for label, mk, fresh in [("tzstr('EST5EDT')", lambda: tz.tzstr("EST5EDT"), lambda: tz.tzstr.instance("EST5EDT")),
                             ("tzstr('EST5EDT,M3.2.0,M11.1.0')", lambda: tz.tzstr("EST5EDT,M3.2.0,M11.1.0"),
                              lambda: tz.tzstr.instance("EST5EDT,M3.2.0,M11.1.0")),
                             ("gettz('America/New_York')", lambda: tz.gettz("America/New_York"),
                              lambda: tz.gettz.nocache("America/New_York")),
                             ("gettz('EST5EDT')", lambda: tz.gettz("EST5EDT"), lambda: tz.gettz.nocache("EST5EDT")),
                             ("tzoffset('A', 3600)", lambda: tz.tzoffset("A", 3600), lambda: tz.tzoffset.instance("A", 3600)),
                             ("tzutc()", lambda: tz.tzutc(), None)]:
        z1, z2 = mk(), mk()
        if z1 is None:
            continue
        n += 1
        inp = {"request": label}
        if z1 is not z2:
            verdict.violation({"kind": "same-zone arithmetic: equal requests returned different objects", "input": inp})
            continue
        wall = d2.replace(tzinfo=z2) - d1.replace(tzinfo=z1)
        if wall != d2 - d1:
            verdict.violation({"kind": "same-zone arithmetic: difference of two datetimes of one zone is not "
                                       "wall-clock arithmetic", "input": inp, "got": str(wall), "want": str(d2 - d1)})
        if fresh is not None:
            f1 = fresh()
            utc = d2.replace(tzinfo=f1) - d1.replace(tzinfo=z1)
            want = (d2 - f1.utcoffset(d2)) - (d1 - z1.utcoffset(d1))
            if utc != want:
                verdict.violation({"kind": "inter-zone arithmetic between equal but distinct zones is not UTC "
                                           "arithmetic", "input": inp, "got": str(utc), "want": str(want)})
    stats["same_zone_arithmetic_requests"] = n
    # (b) fresh equal objects
    m = bad = 0
    for f in (L.FOFF, L.FSTR, L.FGET):
        for e in w.pool[f]:
            ent = w.entries[e]
            if not ent["valid"] or not cacheable(w, e):
                continue
            args = ent["args"]
            try:
                made = (tz.tzoffset(*args) if f == L.FOFF else tz.tzstr(*args) if f == L.FSTR else tz.gettz(*args))
                fresh = (tz.tzoffset.instance(*args) if f == L.FOFF else tz.tzstr.instance(*args) if f == L.FSTR
                         else tz.gettz.nocache(*args))
            except Exception as ex:
                verdict.violation({"kind": "exception", "what": "a valid request raised",
                                   "input": {"fac": f, "args": repr(args)}, "exception": type(ex).__name__})
                continue
            m += 1
            inp = {"fac": f, "args": repr(args)}
            static = ent["kind"][0] == L.K_STATIC
            inp["resolves_through"] = {L.K_TZSTR: "tzstr", L.K_STATIC: "permanent object", L.K_FRESH: "constructor"}.get(
                ent["kind"][0], "other")
            if fresh is made and not static:
                bad += 1
                verdict.violation({"kind": "instance()/nocache() returned the cached object, not a fresh one", "input": inp})
            elif not (fresh == made and made == fresh) or fresh != made:
                bad += 1
                verdict.violation({"kind": "instance()/nocache() product is not equal to the factory product", "input": inp})
            elif L.zone_answers(fresh) != L.zone_answers(made):
                bad += 1
                verdict.violation({"kind": "instance()/nocache() product answers differently from the factory product",
                                   "input": inp})
    w.reset()
    stats["fresh_equal_requests"] = m
    stats["fresh_equal_failures"] = bad
    # (c) requests that raise because of a defect recorded for another property: run, not pruned
    known = {}
    for api, name, exc, why in EXPECTED_BY_FINDING:
        try:
            tz.gettz(name)
            outcome = "returned"
        except Exception as ex:
            outcome = type(ex).__name__
        fid = None
        try:
            kf = json.load(open(os.path.join(C.VERIF, "known_findings.json")))
            for fnd in kf.get("findings", []):
                if fnd.get("property") == "C08" and "TypeError" in fnd.get("what", ""):
                    fid = fnd["id"]
        except Exception:
            pass
        known["gettz(%r)" % name] = {"outcome": outcome, "expected_by": fid or "C08 finding (being recorded by the posix "
                                     "builder: malformed TZ string -> TypeError, not ValueError)", "why": why}
        if outcome not in (exc, "returned", "ValueError"):
            verdict.violation({"kind": "exception", "what": "gettz raised an unexpected exception class",
                               "input": {"name": name}, "exception": outcome})
    tz.gettz.cache_clear()
    stats["expected_by_finding_of_another_property"] = known


def glue_checks(verdict, o):
    from dateutil import tz
    stats = {"zones": 0, "eq_pairs": 0, "eq_true": 0, "classes": {}}
    fixed_checks(verdict, o, stats)
    kind_checks(verdict, o, stats)
    arithmetic_and_fresh_checks(verdict, stats)
    zs = zone_pool()
    stats["zones"] = len(zs)
    names = {"UTC": 1, "GMT": 2}
    classes = {}
    enc = [encode_zone(z, i + 1, names, classes) for i, z in enumerate(zs)]
    for z in zs:
        stats["classes"][type(z).__name__] = stats["classes"].get(type(z).__name__, 0) + 1
    for z in zs:
        if isinstance(z, (tz.tzutc, tz.tzoffset, tz.tzlocal, tz.tzrange, tz.tzfile)):
            try:
                hash(z)
                verdict.violation({"kind": "correspondence: zone is hashable but the translated class has "
                                           "__hash__ = None", "input": {"zone": repr(z)}}, concrete=False)
            except TypeError:
                pass
    # == table against the model, reflexivity, symmetry, equal => equal offsets
    reqs = [(M_ZEQ, enc[i] + enc[j]) for i in range(len(zs)) for j in range(len(zs))]
    model = o.call_many(reqs)
    n = 0
    for i, a in enumerate(zs):
        for j, b in enumerate(zs):
            real = bool(a == b)
            real_ne = bool(a != b)
            m = model[n]
            n += 1
            stats["eq_pairs"] += 1
            stats["eq_true"] += real
            inp = {"a": repr(a), "b": repr(b), "i": i, "j": j}
            if real_ne == real:
                verdict.violation({"kind": "zone != is not the negation of ==", "input": inp})
            if i == j and not real:
                verdict.violation({"kind": "zone equality is not reflexive", "input": inp})
            if real != bool(b == a):
                verdict.violation({"kind": "zone equality is not symmetric", "input": inp})
            if real and not (isinstance(a, tz.tzlocal) or isinstance(b, tz.tzlocal)) and \
                    [x[0] for x in answers(a)] != [x[0] for x in answers(b)]:
                verdict.violation({"kind": "equal zones report different offsets", "input": inp})
            if real and isinstance(a, tz.tzlocal) != isinstance(b, tz.tzlocal):
                la, other = (a, b) if isinstance(a, tz.tzlocal) else (b, a)
                if la._std_offset != other.utcoffset(PROBES[0]) or la._hasdst:
                    verdict.violation({"kind": "equal zones report different offsets", "input": inp})
            if m != [1 if real else 0, 1 if real else 0, 1 if real_ne else 0]:
                verdict.violation({"kind": "correspondence: == differs from FacEq.zone_eq", "input": inp,
                                   "impl": real, "model": m}, concrete=False)
    return stats


# --------------------------------------------------------------------------------------

def run_input(inp):
    """re-run a recorded case (replay file / regression corpus line) on implementation, model and spec"""
    cfg = inp.get("config", "paths")
    w = CTX.world(cfg)
    if inp["mode"] == "sequential":
        prog = [op_from_json(w, j) for j in inp["program"]]
        r = case_sequential(cfg, prog)
        r["input"] = {"mode": "sequential", "config": cfg, "program": [op_json(w, op) for op in prog]}
        return r
    progs = [[op_from_json(w, j) for j in p] for p in inp["programs"]]
    it = iter(list(inp["schedule"]))

    def pick(s):
        for t in it:
            if t in s.unfinished():
                return t
        u = [t for t in s.unfinished() if s.runnable(t)]
        return u[0] if u else None
    global make_pick
    saved = make_pick
    make_pick = lambda spec, rnd: pick  # noqa: E731
    try:
        r = case_threads(cfg, progs, ("replay",), "replay", utc_fresh=bool(inp.get("utc_fresh")))
    finally:
        make_pick = saved
    r["input"] = dict(inp, schedule=r["sched"])
    return r


def replay(path):
    data = json.load(open(path))
    C.ensure_built([AREA], VO)
    inp = data.get("input")
    if not isinstance(inp, dict) or "mode" not in inp:
        print("replay names a broken obligation / glue check, no schedule:", json.dumps(data, indent=1)[:3000])
        return 0
    r = run_input(inp)
    print("input      ", json.dumps(inp)[:2000])
    if inp["mode"] == "sequential":
        print("impl/model ", "states agree after every operation" if not r["diff"] else r["diff"])
    else:
        print("impl/model ", "every step is a step of the transition system" if not r["diff"] else r["diff"])
    print("spec       ", r["props"] or "holds on the identities the implementation returned")
    return 0


def main():
    argv = sys.argv[1:]
    if "--replay" in argv:
        return replay(argv[argv.index("--replay") + 1])
    tier = C.tier_from_argv(argv)
    t0 = time.time()
    verdict = C.Verdict(CID, MATCHERS)
    build_err = None
    build_log = ""
    try:
        _ok, build_log = C.ensure_built([AREA], VO)
    except C.BuildError as ex:
        build_err = ex
    t_build = time.time() - t0
    if build_err is not None:
        props = {"obligations": 0, "discharged": 0, "theorems": [], "assumptions": {},
                 "cmd": "coqc props/C18.v", "log": build_err.log, "ok": False}
    else:
        props = C.compile_props(CID)
    t_props = time.time() - t0 - t_build

    quick = tier == "quick"
    nproc = 12 if quick else 14
    n_seq = 300 if quick else 7000
    n_rand = 100 if quick else 3000
    tasks = []
    for i in range(n_seq):
        tasks.append(("seq", "paths" if i % 5 else "nopaths", i))
    w = CTX.world("paths")
    nsc = len(scenarios(w))
    # quick: five race scenarios with every <= 2-pre-emption schedule, one more with every
    # <= 1-pre-emption schedule (+ a few second pre-emptions); thorough: all fourteen in full
    sc_list = [0, 1, 2, 3, 4, 6] if quick else list(range(nsc))
    sc_full = {0, 1, 2, 3, 4} if quick else set(range(nsc))
    a_max = 22 if quick else 30
    for sc in sc_list:
        for first in (0, 1):
            for a in range(0, a_max):
                tasks.append(("sys", sc, first, a, sc in sc_full))
    for first in (0, 1):
        for a in range(0, 6):
            tasks.append(("utcfresh", first, a))
    for i in range(n_rand):
        tasks.append(("rand", i))
    n_clone_chunks = 16
    clone_tasks = [("clone", c, n_clone_chunks, not quick) for c in range(n_clone_chunks)]
    tasks = clone_tasks + tasks      # (the heaviest tasks first)

    env_warnings = []
    validity = []
    for cfg in ("paths", "nopaths"):
        wv = CTX.world(cfg)
        validity += [dict(v, config=cfg) for v in wv.validity_problems]
    wp = CTX.world("paths")
    n_file = sum(1 for e in wp.pool[L.FGET] if wp.entries[e]["kind"][0] == L.K_FRESH)
    if n_file < 10:
        env_warnings.append("only %d gettz pool names resolve to zone files: the system tz database seems to be "
                            "missing, the gettz race scenarios degenerate to uncached returns" % n_file)
    table_violation = None
    try:
        table_ok = True
        CTX.line_table()
    except ValueError as ex:
        table_ok = False
        table_violation = {"kind": "correspondence: the factory source contains a statement the model does not "
                                   "have (line classification is fail-closed)", "input": None, "detail": str(ex)}
        # (thread tasks still run, on the fallback table, to find a concrete failing schedule)

    # regression corpus (minimised earlier failures) runs first, in this process
    results = []
    reg_path = os.path.join(C.VERIF, "corpus", "regressions", "C18.jsonl")
    n_reg = 0
    if os.path.exists(reg_path):
        for i, line in enumerate(open(reg_path)):
            line = line.strip()
            if not line or line.startswith("#"):
                continue
            try:
                r = run_input(json.loads(line)["input"])
            except Exception as ex:
                r = {"diff": "regression case failed to run: %r" % (ex,), "props": [], "input": {"line": i}, "failed": True}
            r["task"] = ("reg", i)
            results.append(r)
            n_reg += 1

    import multiprocessing as mp
    ctxmp = mp.get_context("fork")
    # the parent's oracle process must not be shared with forked children
    if CTX.oracle is not None:
        CTX.oracle.close()
        CTX.oracle = None
    t_pool0 = time.time()
    with ctxmp.Pool(nproc) as pool:
        for r in pool.imap_unordered(worker, tasks, chunksize=4):
            if isinstance(r, list):
                results += r
            else:
                results.append(r)

    t_pool = time.time() - t_pool0
    stats = {"sequential": 0, "sequential_ops": 0, "systematic": 0, "random": 0, "utcfresh": 0, "steps": 0,
             "blocked_steps": 0, "returns": 0, "returns_hit": 0, "exceptions_expected": 0,
             "histories_exceeding_lru": 0, "traces_validated": 0, "diffs": 0, "prop_violations": 0,
             "model_spec_false": 0}
    seen_sys = set()
    samples = []
    hist = {}
    distinct = set()      # hashes of distinct cases in which at least one cached-path call returned
    pending = []          # (concrete?, payload): submitted concrete first (only 5 replays are printed)
    if table_violation is not None:
        pending.append((False, table_violation))
    for v in validity:
        if v["what"] == "a valid request raised":
            pending.append((True, {"kind": "exception", "what": "a request that is valid by the documented API raised "
                                   "(validity is decided by the check's static table, not by the implementation)",
                                   "input": v}))
        else:
            pending.append((False, {"kind": "exception-missing", "what": v["what"], "input": v}))
    for wtxt in env_warnings:
        pending.append((False, {"kind": "environment: " + wtxt, "input": None}))

    class _Collect:
        @staticmethod
        def violation(payload, concrete=True):
            pending.append((concrete, payload))
    real_verdict, verdict = verdict, _Collect
    clone_stats = {"clone_zones": 0, "clones": 0, "clone_classes": {}, "clone_variants_absent": [],
                   "clone_grid_instants_x_folds": 0, "probe_exceptions": 0}
    clone_payloads = []
    for r in results:
        kind = r["task"][0]
        if kind == "clone":
            st = r.get("clone_stats")
            if st is None:     # the worker failed: fail closed
                pending.append((False, {"kind": "glue check failed to run", "input": None, "detail": r.get("diff")}))
                continue
            clone_payloads += r["clone_payloads"]
            clone_stats["clone_zones"] += st["clone_zones"]
            clone_stats["clones"] += st["clones"]
            clone_stats["probe_exceptions"] += st.get("probe_exceptions", 0)
            clone_stats["clone_variants_absent"] += st["clone_variants_absent"]
            clone_stats["clone_grid_instants_x_folds"] = st["clone_grid_instants_x_folds"]
            for k, v in st["clone_classes"].items():
                clone_stats["clone_classes"][k] = clone_stats["clone_classes"].get(k, 0) + v
            continue
        if kind == "sys" or kind == "utcfresh":
            key = (r["task"][:2] if kind == "sys" else ("u",), tuple(r.get("sched", [])))
            if key in seen_sys:
                continue
            seen_sys.add(key)
        if kind == "seq":
            stats["sequential"] += 1
            stats["sequential_ops"] += r.get("nops", 0)
            stats["returns_hit"] += r.get("hits", 0)
            stats["exceptions_expected"] += r.get("nexc", 0)
            if r.get("distinct_keys", 0) > 8:
                stats["histories_exceeding_lru"] += 1
            for j in r.get("input", {}).get("program", []):
                hist[j[0]] = hist.get(j[0], 0) + 1
        elif kind == "reg":
            stats["regression"] = stats.get("regression", 0) + 1
            if r.get("input", {}).get("mode") == "threads" and not r.get("diff"):
                stats["traces_validated"] += 1
        else:
            stats[{"sys": "systematic", "rand": "random", "utcfresh": "utcfresh"}[kind]] += 1
            stats["steps"] += r.get("nsteps", 0)
            stats["blocked_steps"] += r.get("blocked_steps", 0)
            if not r.get("diff") and not r.get("failed"):
                stats["traces_validated"] += 1
        stats["returns"] += r.get("nret", 0)
        if r.get("nret", 0) > 0 and not r.get("failed"):
            import hashlib
            distinct.add(hashlib.sha1(json.dumps(r.get("input"), sort_keys=True, default=str).encode()).hexdigest())
        if r.get("model_spec") == 0:
            stats["model_spec_false"] += 1
            verdict.violation({"kind": "the extracted model's own history violates the spec (theorem contradicted)",
                               "input": r.get("input")}, concrete=False)
        pv = [p for p in r.get("props", [])]
        for pk, wit in pv:
            stats["prop_violations"] += 1
            names = {"identity": "identity: a later call for the same key returned a different object while the "
                                 "earlier one was still referenced",
                     "exception": "a valid request raised", "exception-missing": "an invalid request did not raise",
                     "deadlock": "deadlock: every unfinished thread is blocked", "hang": "a thread hung",
                     "tzutc-identity": "tzutc() returned an object other than tz.UTC",
                     "harness": "harness self-check"}
            verdict.violation({"kind": pk, "what": names.get(pk, pk), "witness": wit, "input": r.get("input")},
                              concrete=pk not in ("harness", "exception-missing"))
        if r.get("diff"):
            stats["diffs"] += 1
            if not pv:
                verdict.violation({"kind": "correspondence: implementation run is not a run of the model",
                                   "detail": r["diff"], "input": r.get("input"), "trace": r.get("trace")},
                                  concrete=False)
        if len(samples) < 10 and kind != "seq" and not r.get("diff") and r.get("nsteps", 0) > 15 and \
                (len(samples) < 5 or kind == "rand"):
            samples.append({"input": r["input"], "steps": r["nsteps"], "blocked_steps": r["blocked_steps"],
                            "result": "every step validated against the extracted transition system"})

    verdict = real_verdict
    for payload in clone_payloads:
        pending.append((True, payload))
    for concrete, payload in sorted(pending, key=lambda x: (not x[0])):
        verdict.violation(payload, concrete=concrete)
    glue = {}
    if build_err is None:
        try:
            glue = glue_checks(verdict, CTX.orc())
        except Exception as ex:
            verdict.violation({"kind": "glue check failed to run", "input": None, "detail": repr(ex)}, concrete=False)

    if not props["ok"]:
        gen_failed = "GENERATOR-FAILED" in (props.get("log") or "") or "generator_failed" in (props.get("log") or "") \
            or "GENERATOR FAILED" in build_log or "FacEqGen" in (props.get("log") or "") \
            or "FacCfgGen" in (props.get("log") or "")
        verdict.violation({"kind": "broken proof obligation" + (
                               " (C18_gen_*: the source no longer translates to / no longer equals the model: "
                               "harness/gen_factory.py)" if gen_failed else ""),
                           "theorem_file": "coq/props/C18.v",
                           "theorems": props["theorems"], "discharged": props["discharged"], "input": None,
                           "log_tail": props["log"][-3000:]}, concrete=False)
    rc = verdict.finish()
    n_thread_runs = stats["systematic"] + stats["random"] + stats["utcfresh"]
    cov = {
        "evaluations": stats["sequential"] + n_thread_runs + n_reg,
        "regression_corpus_cases": n_reg,
        "distinct_nontrivial": len(distinct),
        "rule": "a case is a sequential history (programs generated from (seed, index)) or (programs, realised "
                "thread schedule); distinct = distinct SHA-1 of the canonical JSON of programs+schedule (systematic "
                "schedules are additionally de-duplicated by their realised tid sequence before counting); "
                "non-trivial = at least one cached-path factory call returned an object in that case",
        "traces_validated_against_impl": stats["traces_validated"],
        "thread_runs": {"systematic_le2_preemptions_2_threads": stats["systematic"],
                        "random_3_4_threads": stats["random"], "fresh_singleton_subclass": stats["utcfresh"],
                        "scheduling_points": stats["steps"], "blocked_grants": stats["blocked_steps"]},
        "exhaustive": False,
        "small_scope": (
            "2 threads, 1-2 operations each; a schedule = thread A runs a steps, B runs b steps, A finishes, B "
            "finishes (<= 2 pre-emptions), both choices of A. quick: a in 0..%d only (bodies have 13-26 scheduling "
            "points, so pre-emption points late in long bodies -- e.g. after step %d of the ~21-step gettz->tzstr "
            "body -- are NOT enumerated), every b for scenarios %s and b in {0,1,2,all} for the others; "
            "thorough: a in 0..29 and every b for all %d scenarios, i.e. complete for the listed scenarios"
            % (a_max - 1, a_max - 1, sorted(sc_full & set(sc_list)), nsc)) if quick else (
            "2 threads, 1-2 operations each; every schedule 'A runs a steps, B runs b steps, A finishes, B finishes' "
            "(<= 2 pre-emptions; a in 0..29 covers every body, every b), both choices of A, all %d scenarios" % nsc),
        "tie_only_theorems": ["C18_gen_ne", "C18_gen_unhashable", "C18_gen_cfg", "C18_gen_fixed_tzoffset",
                              "C18_gen_fixed_tzutc", "C18_gen_fixed_init", "C18_gen_fixed_enfold",
                              "C18_gen_fixed_bridge_tzoffset", "C18_gen_fixed_bridge_tzutc"],
        "tie_only_note": "these nine are reflexivity / definitional equalities between a regenerated one-liner and "
                         "the hand model: their content is the fail-closed translator's acceptance test, not a proof "
                         "effort; the six C18_gen_fixed_* concern C04/C05 (fixed-offset zones) rather than C18",
        "restrictions": [
            "identity ('gettz with the same name returns that very object') is claimed only for names gettz caches: "
            "a name that resolves to tzlocal() or to no zone (None), and gettz() without a name, are returned uncached "
            "by design and carry no identity claim (model: EUncached, not an observation of the spec)",
            "identity and 'never two live objects per key' hold per cache epoch: across gettz.cache_clear() identity "
            "is lost (finding F-C18-a, C18_retention_cache_clear_refuted)"],
        "assumptions_in_theorems": [
            "C18_eq_zones_equal_offsets: for tzrange/tzstr, tzfile and tzical zones utcoffset is taken to depend only "
            "on the attributes __eq__ compares (true by typing of the statement); for tzfile this is the tzfile area's "
            "C06_gen_eq_zones_behave_same, for tzrange/tzstr it is assumed and exercised by the == table x probe grid"],
        "environment_warnings": env_warnings,
        "sequential": {"histories": stats["sequential"], "operations": stats["sequential_ops"],
                       "histories_with_more_than_8_keys": stats["histories_exceeding_lru"],
                       "calls_returning_a_still_held_object": stats["returns_hit"],
                       "expected_exceptions": stats["exceptions_expected"]},
        "input_distribution": hist,
        "samples": samples,
        "model_vs_impl_disagreements": stats["diffs"],
        "spec_vs_impl_violations": stats["prop_violations"],
        "glue": dict(glue, **clone_stats),
        "partial_theorems": ["C18_retention_only_guarded (guard: no gettz.cache_clear in the programs; the unguarded "
                             "statement is refuted: C18_retention_cache_clear_refuted, finding F-C18-a); "
                             "C18_factory_identity carries the same guard as 'same cache epoch'"],
        "refuted_theorems": ["C18_retention_cache_clear_refuted (current code, F-C18-a)",
                             "C18_old_factory_identity_refuted (code before /repo e7e8908: what the fix bought)",
                             "C18_singleton_uninitialised_refuted (a _TzSingleton class not instantiated at import)"],
        "differential_only": ["copy/deepcopy/pickle protocols 0-%d" % pickle.HIGHEST_PROTOCOL,
                              "name resolution inside GettzFunc.nocache (classified by probing, not modelled)",
                              "weakref finaliser timing / pre-emption inside a source line / free-threaded CPython"],
        "known_findings_hit": verdict.known_hits,
        "line_table_ok": table_ok,
        "phase_seconds": {"build_incl_waiting_for_the_global_build_lock": round(t_build, 1),
                          "props_compile": round(t_props, 1), "correspondence_pool": round(t_pool, 1)},
    }
    C.write_evidence(CID, tier, t0, props, cov,
                     ["WeakValueDictionary contract: an entry is visible iff its referent is strongly referenced; "
                      "get is atomic; setdefault is a read followed by a write",
                      "_thread lock: mutual exclusion, acquire blocks while held (instrumented lock in the scheduler)",
                      "CPython reference counting frees an object when its last strong reference goes",
                      "line-level scheduler + line classification by source text (harness/factory_lib.py)"],
                     len(verdict.violations))
    print("C18 %s: obligations %d/%d, %d sequential histories, %d thread runs (%d validated, %d steps), "
          "diffs %d, property violations %d, known %r, build %.0fs props %.0fs pool %.0fs, %.1fs" % (
              tier, props["discharged"], props["obligations"], stats["sequential"], n_thread_runs,
              stats["traces_validated"], stats["steps"], stats["diffs"], stats["prop_violations"],
              verdict.known_hits, t_build, t_props, t_pool, time.time() - t0))
    return rc


if __name__ == "__main__":
    sys.exit(main())
