#!/usr/bin/env python3
"""C11 -- cached recurrences behave like uncached ones under any interleaving; no deadlock.

Coq theorems (coq/props/C11.v) over the statement-level transition system of
rrulebase._iter_cached / __iter__ / the query methods (coq/rcache/RCacheModel.v), tied to the real
code by
  (i)  single-threaded histories: create / next() / query over 2-4 live iterators of one cached
       rrule or rruleset, against the extracted model and against the uncached rule;
  (ii) real threads under the deterministic line-level scheduler of harness/rcache_sched.py: every
       run's snapshot trace (|cache|, complete flag, generator alive, lock owner, _len, local i,
       program counters) is validated line by line as a run of the extracted transition system.
Deadlock, hang, exception, or an iterator/query observing anything but the uncached rule's answer
is a concrete violation with a replayable schedule."""
import itertools
import json
import re
import os
import sys
import time

sys.path.insert(0, os.path.dirname(os.path.abspath(__file__)))
import common as C

C.reexec_under_impl_python()

import rcache_rules as R
import rcache_sched as S

CID = "C11"
AREA = "rcache"
VO = ["props/C11.vo", "rcache/PyList.vo", "rcache/RCacheModel.vo", "rcache/RCacheSpec.vo",
      "rcache/RCacheThm.vo", "rcache/RQueryModel.vo", "rcache/RQuerySpec.vo", "rcache/RQueryThm.vo",
      "base/Cal.vo", "rr/RRBase.vo", "rr/RRNorm.vo", "rcache/RReplace.vo", "rcache/RGenBase.vo", "gen/RQueryGen.vo", "gen/RCacheGen.vo", "rcache/RCacheGenThm.vo"]


def listing(recipe):
    return [R.to_int(x) for x in R.build(recipe, False)]


class Machinery(Exception):
    """the check's own machinery cannot run as designed (not a statement about dateutil)"""


def safe_listing(recipe, verdict, what):
    """listing of the UNCACHED rule; a failure here is reported (non-concrete), never a crash"""
    try:
        with R.watchdog(120):
            return listing(recipe)
    except R.Timeout:
        verdict.violation({"kind": "listing the uncached rule did not finish within 120 s (%s)" % what,
                           "input": {"mode": "history", "recipe": recipe, "ops": [["list"]], "history": [[2, 0]]}},
                          concrete=False)
    except Exception as ex:
        verdict.violation({"kind": "listing the uncached rule raised %s (%s)" % (type(ex).__name__, what),
                           "input": {"mode": "history", "recipe": recipe, "ops": [["list"]], "history": [[2, 0]]}},
                          concrete=False)
    return None


def prog_args(L, ops, flags=1):
    a = [flags, len(L)] + L + [len(ops)]
    for op in ops:
        a += S.op_code(op)
    return a


def expected(recipe, op):
    """what the same operation observes on an UNCACHED rule"""
    return S.run_op(R.build(recipe, False), op)


# ------------------------------------------------------------------ (i) single-threaded histories

def run_history(recipe, ops, hist, cache=True):
    """hist: list of (kind, tid): 0 create iterator, 1 next(), 2 run the query op of tid.
    Returns the observation list in the encoding of hist_run (ExtractRcache.v)."""
    rule = R.build(recipe, cache)
    if cache:
        rule._cache_lock = S.STLock()
    its = {}
    obs = []
    for (k, t) in hist:
        if k == 0:
            try:
                its[t] = iter(rule)
                obs.append(9)
            except Exception as ex:
                obs += ["EXC", type(ex).__name__]
                break
        elif k == 1:
            try:
                v = next(its[t])
                obs += [1, R.to_int(v)]
            except StopIteration:
                obs.append(0)
            except S.DeadlockDetected:
                obs.append(3)
                break
            except IndexError:
                obs += [2, 1]
            except TypeError:
                obs += [2, 2]
            except ValueError:
                obs += [2, 3]
            except Exception as ex:
                obs += ["EXC", type(ex).__name__]
                break
        else:
            res = S.run_op(rule, ops[t])
            if res == ["DEADLOCK"]:
                obs.append(3)
                break
            if res and res[0] == "EXC":
                obs += res
                break
            obs += [5] + res
    return obs


def spec_history(L, recipe, ops, hist, memo):
    """the property: every next() of every iterator returns the next element of list(uncached rule),
    StopIteration after the last; every query returns what it returns on an uncached rule"""
    pos = {}
    obs = []
    for (k, t) in hist:
        if k == 0:
            pos[t] = 0
            obs.append(9)
        elif k == 1:
            if pos[t] < len(L):
                obs += [1, L[pos[t]]]
                pos[t] += 1
            else:
                obs.append(0)
        else:
            key = json.dumps(ops[t])
            if key not in memo:
                memo[key] = expected(recipe, ops[t])
            res = memo[key]
            obs += [5] + res
    return obs


def query_ops(L, r):
    n = len(L)
    ts = sorted(set([L[0] - 1, L[0], L[n // 2], L[n // 2] + 1, L[-1], L[-1] + 1])) if L else [R.T0]
    ops = [["get", r.choice([0, n // 2, max(n - 1, 0), n, n + 3])], ["count"], ["list"],
           ["take", r.choice([0, 1, n // 2, n, n + 1])],
           ["contains", r.choice(ts)], ["between", r.choice(ts), r.choice(ts), r.random() < 0.5],
           ["before", r.choice(ts), r.random() < 0.5], ["after", r.choice(ts), r.random() < 0.5],
           ["sliceto", r.choice([0, 1, n // 2, 10, n, n + 2])], ["negidx", r.choice([0, 1, n // 2, max(n - 1, 0), n])],
           ["xafter", r.choice(ts), r.choice([None, 0, 1, 2, n // 2, n, n + 1, -1]), r.random() < 0.5]]
    return ops


def histories(n, L, r, tier):
    """(ops, hist, family) for one rule of length n"""
    out = []
    it2 = [["list"], ["list"]]
    # F1: all interleavings of two iterators, n+2 next() calls each (small n)
    lim = 3 if tier == "quick" else 4
    if n <= lim:
        k = n + 2
        for pos in itertools.combinations(range(2 * k), k):
            h = [(0, 0), (0, 1)]
            ps = set(pos)
            h += [(1, 0 if j in ps else 1) for j in range(2 * k)]
            out.append((it2, h, "all-interleavings-2"))
    if n <= 1:
        it3 = [["list"]] * 3
        k = n + 2
        seen = set()
        for perm in itertools.permutations([0] * k + [1] * k + [2] * k):
            if perm in seen:
                continue
            seen.add(perm)
            out.append((it3, [(0, 0), (0, 1), (0, 2)] + [(1, t) for t in perm], "all-interleavings-3"))
    # F2: phases a^p b^q a* b*, b created before / after a's phase
    cand = [0, 1, 9, 10, 11, 20, 21, 30, n, n + 1] if tier == "quick" else \
        [0, 1, 2, 9, 10, 11, 19, 20, 21, 29, 30, 31, n - 1, n, n + 1]
    marks = sorted(set(x for x in cand if 0 <= x <= n + 1))
    for p in marks:
        for q in marks:
            for late in (False, True):
                h = [(0, 0)] + ([] if late else [(0, 1)]) + [(1, 0)] * p + ([(0, 1)] if late else [])
                h += [(1, 1)] * q + [(1, 0)] * (n + 2 - p) + [(1, 1)] * (n + 2 - q)
                out.append((it2, h, "phases"))
    # alternation
    out.append((it2, [(0, 0), (0, 1)] + [(1, j % 2) for j in range(2 * n + 4)], "alternate"))
    out.append(([["list"]] * 3, [(0, 0), (0, 1), (0, 2)] + [(1, j % 3) for j in range(3 * n + 6)], "alternate"))
    # F3: random: 2-4 iterators created lazily, queries interleaved
    nr = 10 if tier == "quick" else 150
    for _ in range(nr):
        ni = r.randint(2, 4)
        qs = r.sample(query_ops(L, r), r.randint(0, 3))
        ops = [["list"]] * ni + qs
        pend = []
        for t in range(ni):
            pend.append([(0, t)] + [(1, t)] * r.choice([n + 2, n + 1, r.randint(0, n + 2)]))
        for j in range(len(qs)):
            pend.append([(2, ni + j)])
        h = []
        while pend:
            w = r.choice(pend)
            burst = r.choice([1, 1, 1, 2, 5, 10, 11])
            for _b in range(burst):
                if not w:
                    break
                h.append(w.pop(0))
            if not w:
                pend.remove(w)
        out.append((ops, h, "random"))
    return out


def check_histories(o, tier, r, verdict, stats, samples, t_end):
    lengths = list(range(0, 32))
    recs = [(n, R.daily(n)) for n in lengths]
    for n in (0, 1, 9, 10, 11, 20, 21, 30):
        for rec in R.variants_of_length(n)[1:]:
            recs.append((n, rec))
    if tier == "thorough":
        recs += [(None, R.random_recipe(r)) for _ in range(150)]
    for (n_expected, recipe) in recs:
        if time.time() > t_end:
            stats["histories_stopped_by_time_budget"] = True
            break
        try:
            with R.watchdog(60):
                L = listing(recipe)
        except (R.Timeout, IndexError, TypeError, ValueError, RuntimeError) as ex:
            verdict.violation({"kind": "listing the uncached rule failed: %s" % type(ex).__name__,
                               "input": {"mode": "history", "recipe": recipe, "ops": [["list"]], "history": [[2, 0]]}},
                              concrete=False)
            continue
        n = len(L)
        if n_expected is not None and n != n_expected:
            verdict.violation({"kind": "machinery: the recipe meant to list %d occurrences lists %d (rule generation "
                                       "changed); this rule is skipped" % (n_expected, n),
                               "input": {"mode": "history", "recipe": recipe, "ops": [["list"]], "history": [[2, 0]]}},
                              concrete=False)
            continue
        memo = {}
        cases = histories(n, L, r, tier)
        reqs = []
        for (ops, h, fam) in cases:
            reqs.append((10, prog_args(L, ops) + [x for kt in h for x in kt]))
        model = R.call_many(o, reqs)
        for (ops, h, fam), mod in zip(cases, model):
            try:
                with R.watchdog(60):
                    got = run_history(recipe, ops, h)
                    want = spec_history(L, recipe, ops, h, memo)
            except R.Timeout:
                stats["hist_impl_vs_spec"] += 1
                verdict.violation({"kind": "operation never completes (no answer within 60 s) in a single-threaded history",
                                   "input": {"mode": "history", "recipe": recipe, "ops": ops, "history": h}})
                stats["timeouts"] = stats.get("timeouts", 0) + 1
                if stats["timeouts"] >= 3:
                    return
                continue
            except (IndexError, TypeError, ValueError, RuntimeError) as ex:
                verdict.violation({"kind": "operation on the rule raised %s" % type(ex).__name__,
                                   "input": {"mode": "history", "recipe": recipe, "ops": ops, "history": h},
                                   "exception": repr(ex)[:300]})
                continue
            stats["histories"] += 1
            for op in ops:
                stats["ops_hist"][op[0]] = stats["ops_hist"].get(op[0], 0) + 1
            stats["hist_family"][fam] = stats["hist_family"].get(fam, 0) + 1
            stats["hist_len"][str(n)] = stats["hist_len"].get(str(n), 0) + 1
            if n >= 1 and len(set(t for (k, t) in h if k == 1)) >= 2:
                stats["nontrivial"].add(("H", json.dumps(recipe, sort_keys=True), json.dumps(ops), json.dumps(h)))
            inp = {"mode": "history", "recipe": recipe, "ops": ops, "history": h}
            if got != want:
                stats["hist_impl_vs_spec"] += 1
                kind = "deadlock: next()/query blocks forever on the cache lock" if 3 in got[-1:] else \
                    "cached rule observed differently from the uncached rule"
                verdict.violation({"kind": kind, "input": inp, "impl": got, "uncached_spec": want, "model": mod})
            elif got != mod:
                stats["hist_impl_vs_model"] += 1
                verdict.violation({"kind": "correspondence: extracted transition system differs from implementation "
                                           "on a single-threaded history", "input": inp, "impl": got, "model": mod},
                                  concrete=False)
            if len(samples) < 5 and fam == "random" and r.random() < 0.02:
                samples.append({"mode": "history", "rule": R.describe(recipe), "n": n, "ops": ops,
                                "history": h[:60], "impl": got[:40], "model": mod[:40]})


# ------------------------------------------------------------------ rules whose generator raises (F-C11-raise)

def raising_recipes():
    import datetime as dt
    from dateutil import rrule as rr
    t = R.to_int(dt.datetime(2000, 1, 1, 0, 30))
    return [{"kind": "rrule", "kw": {"freq": rr.MINUTELY, "dtstart": t, "interval": 1440, "byhour": [1], "count": 3}},
            {"kind": "rrule", "kw": {"freq": rr.MINUTELY, "dtstart": t, "interval": 2880, "byhour": [7, 9]}},
            {"kind": "rrule", "kw": {"freq": rr.SECONDLY, "dtstart": t, "interval": 3600, "byminute": [5], "count": 12}},
            {"kind": "rrule", "kw": {"freq": rr.SECONDLY, "dtstart": t, "interval": 86400, "byhour": [5]}},
            # generators raising ANOTHER class: a set mixing naive and aware instants -> TypeError in sort / heap
            {"kind": "rruleset", "rdates": [R.T0, R.T0 + R.DAY], "aware_rdates": [R.T0 + 3600]},
            {"kind": "rruleset", "rrules": [{"freq": rr.DAILY, "count": 3, "dtstart": R.T0}], "aware_rdates": [R.T0 + 5]}]


def matcher_raising_generator(payload):
    """F-C11-raise: the rule cannot be listed at all -- list(uncached rule) raises (any exception class:
    ValueError of impossible rules, TypeError of sets mixing naive and aware instants, ...)"""
    inp = payload.get("input") or {}
    if inp.get("mode") != "raising" or not str(payload.get("kind", "")).startswith("cached rule whose generator raises"):
        return False
    try:
        list(R.build(inp["recipe"], False))
    except Exception:
        pass
    else:
        return False
    # ... and the cached observation must be exactly what the transition system with raises = true predicts
    # (so an unrelated defect on such a rule, e.g. a deadlock, is NOT absorbed)
    pred = payload.get("model_raises_true")
    if pred is not None:
        return payload.get("impl_classes") == pred
    return payload.get("trace_validated_with_raises_true") is True


def gen_class_code(recipe):
    """enc_exn code of the class the rule's own generator raises (2 TypeError, 3 ValueError), from the uncached rule"""
    try:
        list(R.build(recipe, False))
    except TypeError:
        return 2
    except ValueError:
        return 3
    except Exception:
        return None
    return None


def map_gen_class(obs, gcode):
    """the model calls the generator's exception EValueError (code 3) whatever its class; rename it to the class
    the implementation's generator really raises (these rules yield no value, so `2, 3` is always a marker)"""
    out = list(obs)
    for k in range(len(out) - 1):
        if out[k] == 2 and out[k + 1] == 3:
            out[k + 1] = gcode
    return out


def check_raising(o, verdict, stats, samples):
    # every operation is one thread of the model: a tid is used for one query run only
    ops = [["list"], ["list"], ["list"], ["count"], ["get", 0], ["take", 2], ["count"]]
    hists = [[(2, 0), (2, 1), (2, 2), (2, 3), (2, 4), (2, 5)],
             [(0, 0), (0, 1), (1, 0), (1, 1), (1, 1), (1, 0), (2, 3), (2, 2)],
             [(2, 3), (2, 6), (2, 0), (2, 4)],
             [(0, 0), (2, 5), (1, 0), (0, 1), (1, 1), (1, 0)]]
    for recipe in raising_recipes():
        for h in hists:
            cached = run_history(recipe, ops, h, cache=True)
            uncached = run_history(recipe, ops, h, cache=False)
            gcode = gen_class_code(recipe)
            model = map_gen_class(o.call(10, prog_args([], ops, 3) + [x for kt in h for x in kt]), gcode)
            stats["raising_histories"] += 1
            stats["raising_by_class"][str(gcode)] = stats["raising_by_class"].get(str(gcode), 0) + 1
            inp = {"mode": "raising", "recipe": recipe, "ops": ops, "history": h}
            cached_n = [(-1 if x is None else x) for x in cached]
            if cached != uncached:
                stats["raising_cached_vs_uncached"] += 1
                verdict.violation({"kind": "cached rule whose generator raises is observed differently from the uncached rule",
                                   "input": inp, "impl": cached, "impl_classes": cached_n, "uncached_spec": uncached,
                                   "model_raises_true": model})
            if cached_n != model:
                stats["raising_impl_vs_model"] += 1
                verdict.violation({"kind": "correspondence: transition system with a raising generator differs from implementation",
                                   "input": inp, "impl": cached, "model": model}, concrete=False)
        for k in range(6):
            tops = [["list"], ["count"], ["list"], ["take", 1]][:2 + k % 3]
            plan = [[(k + j) % len(tops), 3 + 5 * ((k * 7 + j * 3) % 9)] for j in range(8)]
            one_thread_case(o, recipe, [], tops, plan, "raising-generator-threads", verdict, stats, samples,
                            None, raises=True)
        samples.append({"mode": "raising", "rule": R.describe(recipe), "ops": ops, "history": hists[0],
                        "cached": run_history(recipe, ops, hists[0], True),
                        "uncached": run_history(recipe, ops, hists[0], False)})


# ------------------------------------------------------------------ (ii) threads under the scheduler

def run_schedule(recipe, ops, plan, max_steps=None):
    rule = R.build(recipe, True)
    run = S.Run(rule, ops)
    n_guess = 40
    run.run_plan(plan, max_steps or 4000 + 600 * n_guess)
    return run


def validate_trace(o, L, ops, run, flags=1):
    """replay the executed schedule in the extracted transition system and compare line by line.
    Returns (ok, detail, model_final)"""
    sched = run.schedule
    out = o.call(11, prog_args(L, ops, flags) + sched)
    if not isinstance(out, list):
        return False, {"oracle": out}, None
    k = 0
    for j, e in enumerate(run.log):
        m = out[k:k + 10]
        k += 10
        if len(m) < 10 or m[0] < 0:
            return False, {"step": j, "reason": "model trace ended early", "model": m}, None
        tid, enabled, before, lenc, comp, galive, owner, lenp, i, after = e
        impl = [enabled, before, lenc, comp, galive, owner, lenp]
        if impl != m[:7] or after != m[9] or (i is not None and after is not None and after <= 25 and i != m[7]):
            return False, {"step": j, "thread": tid,
                           "impl": {"enabled": enabled, "pc_before": before, "len_cache": lenc, "complete": comp,
                                    "gen_alive": galive, "lock_owner_plus1": owner, "len_plus1": lenp, "i": i,
                                    "pc_after": after},
                           "model": {"enabled": m[0], "pc_before": m[1], "len_cache": m[2], "complete": m[3],
                                     "gen_alive": m[4], "lock_owner_plus1": m[5], "len_plus1": m[6], "i": m[7],
                                     "pc_after": m[9]}}, None
    fin = out[k:]
    if len(fin) < 3 or fin[0] != -1:
        return False, {"reason": "no final record", "model": fin[:20]}, None
    all_done, stuck = fin[1], fin[2]
    rest = fin[3:]
    finals = []
    for _t in ops:
        pc = rest[0]
        if rest[1] == 1:
            res = rest[1:3 + rest[2]]
            rest = rest[3 + rest[2]:]
        elif rest[1] == 2:
            res = rest[1:3]
            rest = rest[3:]
        else:
            res = None
            rest = rest[2:]
        finals.append((pc, res))
    return True, {"all_done": all_done, "stuck": stuck}, finals


def thread_cases(tier, r):
    """(recipe, ops, plan, family)"""
    out = []
    two = [["list"], ["list"]]
    lens1 = [0, 1, 10, 11] if tier == "quick" else [0, 1, 9, 10, 11, 20, 21]
    # one pre-emption: A runs a lines, B runs to completion, A finishes -- every a
    for n in lens1:
        total = 45 + 7 * n + 30 * (n // 10 + 1)
        stride = 1
        for a in range(0, total, stride):
            out.append((R.daily(n), two, [[0, a], [1, -1], [0, -1]], "1-preemption"))
    # two pre-emptions, complete grid for the shortest rules: A a lines, B b lines, A*, B*
    for (n, st) in ([(0, 4)] if tier == "quick" else [(0, 1), (1, 2), (10, 7)]):
        total = 45 + 7 * n + 30 * (n // 10 + 1)
        for a in range(0, total, st):
            for b in range(0, total, st):
                out.append((R.daily(n), two, [[0, a], [1, b], [0, -1], [1, -1]], "2-preemptions-grid"))
    # two pre-emptions: A a lines, B b lines, A to completion, B to completion
    lens2 = [0, 1, 9, 10, 11, 20, 21]
    n2 = 450 if tier == "quick" else 12000
    for _ in range(n2):
        n = r.choice(lens2)
        total = 45 + 7 * n + 30 * (n // 10 + 1)
        a = r.choice([r.randint(0, total), r.randint(0, 30), 6 + r.randint(0, 14)])
        b = r.choice([r.randint(0, total), r.randint(0, 30), 6 + r.randint(0, 60)])
        rec = R.daily(n) if r.random() < 0.6 else r.choice(R.variants_of_length(n))
        out.append((rec, two, [[0, a], [1, b], [0, -1], [1, -1]], "2-preemptions"))
    # random schedules, 3-4 threads, iterators mixed with queries
    n3 = 400 if tier == "quick" else 10000
    for _ in range(n3):
        n = r.choice([0, 1, 2, 5, 9, 10, 11, 19, 20, 21, 30, r.randint(0, 31)])
        rec = R.daily(n) if r.random() < 0.5 else r.choice(R.variants_of_length(n))
        try:
            L = listing(rec)
        except Exception:
            continue        # reported by check_threads when the case is run
        nt = r.randint(2, 4)
        pool = query_ops(L, r)
        ops = [["list"]] + [r.choice(pool) if r.random() < 0.6 else ["list"] for _ in range(nt - 1)]
        r.shuffle(ops)
        plan = []
        for _s in range(r.randint(2, 40)):
            plan.append([r.randrange(nt), r.choice([1, 1, 2, 3, 5, 8, 13, 30, -1])])
        out.append((rec, ops, plan, "random-%d-threads" % nt))
    return out


def check_threads(o, tier, r, verdict, stats, samples, t_end):
    memoL = {}
    for (recipe, ops, plan, fam) in thread_cases(tier, r):
        if time.time() > t_end:
            stats["threads_stopped_by_time_budget"] = True
            break
        if stats.get("leaked_threads", 0) >= 3 or stats["thread_problems"] >= 25:
            stats["threads_stopped_after_repeated_hangs_or_deadlocks"] = True
            break
        key = json.dumps(recipe, sort_keys=True)
        if key not in memoL:
            memoL[key] = safe_listing(recipe, verdict, "thread case")
        L = memoL[key]
        if L is None:
            continue
        try:
            one_thread_case(o, recipe, L, ops, plan, fam, verdict, stats, samples, r)
        except (IndexError, TypeError, ValueError, RuntimeError) as ex:
            verdict.violation({"kind": "operation on the rule raised %s" % type(ex).__name__,
                               "input": {"mode": "threads", "recipe": recipe, "ops": ops, "plan": plan},
                               "exception": repr(ex)[:300]})


def one_thread_case(o, recipe, L, ops, plan, fam, verdict, stats, samples, r=None, raises=False):
    run = run_schedule(recipe, ops, plan)
    stats["schedules"] += 1
    for op in ops:
        stats["ops_hist_threads"][op[0]] = stats["ops_hist_threads"].get(op[0], 0) + 1
    stats["leaked_threads"] = stats.get("leaked_threads", 0) + run.leaked
    stats["sched_family"][fam] = stats["sched_family"].get(fam, 0) + 1
    stats["steps"] += len(run.log)
    stats["blocked_steps"] += sum(1 for e in run.log if e[1] == 0)
    switches = sum(1 for a, b in zip(run.schedule, run.schedule[1:]) if a != b)
    if switches >= 2 and len(L) >= 1:
        stats["nontrivial"].add(("T", json.dumps(recipe, sort_keys=True), json.dumps(ops), tuple(run.schedule)))
    inp = {"mode": "raising" if raises else "threads", "recipe": recipe, "ops": ops, "plan": plan,
           "executed_schedule": run.schedule}
    concrete = False
    ok, detail, finals = validate_trace(o, L, ops, run, 3 if raises else 1)
    gcode = gen_class_code(recipe) if raises else None
    if run.problem or run.leaked:
        concrete = True
        stats["thread_problems"] += 1
        verdict.violation({"kind": "%s under a thread schedule (an operation never completes)" % (run.problem or "leaked thread"),
                           "input": inp, "thread_status": run.status, "pcs": run.pc, "results": run.results})
    else:
        want = [expected(recipe, op) for op in ops]
        if run.results != want and raises:
            stats["raising_cached_vs_uncached"] += 1
            modres_r = [map_gen_class(f[1], gcode) if f[1] else f[1] for f in finals] if ok else None
            concrete = verdict.violation({"kind": "cached rule whose generator raises is observed differently from "
                                                  "the uncached rule under a thread schedule",
                                          "input": inp, "impl": run.results, "uncached_spec": want,
                                          "trace_validated_with_raises_true":
                                              bool(ok and modres_r == [([(-1 if x is None else x) for x in res] if res else res)
                                                                       for res in run.results])})
        elif run.results != want:
            concrete = True
            stats["thread_impl_vs_spec"] += 1
            verdict.violation({"kind": "cached rule observed differently from the uncached rule under a thread schedule",
                               "input": inp, "impl": run.results, "uncached_spec": want})
    if ok:
        stats["traces_validated"] += 1
        if not concrete:
            modres = [map_gen_class(f[1], gcode) if (raises and f[1]) else f[1] for f in finals]
            if modres != [([(-1 if x is None else x) for x in res] if res else res) for res in run.results] \
                    or not detail["all_done"]:
                stats["thread_impl_vs_model"] += 1
                verdict.violation({"kind": "correspondence: final results of the transition system differ from implementation",
                                   "input": inp, "impl": run.results, "model": modres, "model_flags": detail},
                                  concrete=False)
    else:
        stats["traces_rejected"] += 1
        if not concrete:
            verdict.violation({"kind": "correspondence: snapshot trace of the implementation is not a run of the "
                                       "extracted transition system", "input": inp, "first_difference": detail},
                              concrete=False)
    if r is not None and len(samples) < 12 and r.random() < 0.01:
        samples.append({"mode": "threads", "rule": R.describe(recipe), "n": len(L), "ops": ops, "plan": plan,
                        "executed_schedule_len": len(run.schedule), "context_switches": switches,
                        "executed_schedule_head": run.schedule[:80], "results": [x[:8] for x in run.results],
                        "trace_validated": ok})


# ------------------------------------------------------------------ _invalidate_cache boundary (F-C10-stale)

def invalidate_witness():
    """the concrete run of C11_invalidate_live_iterator_refuted on the real code: a cached rruleset of 3
    dates, an iterator advanced once (it is then in its tail loop), a mutator, next(): the model predicts
    TypeError.  The defect itself is C10's open finding F-C10-stale; here only the MODEL'S PREDICTION is
    compared with the implementation (no violation is raised for the known defect)."""
    from dateutil import rrule as rr
    s = rr.rruleset(cache=True)
    for k in range(3):
        s.rdate(R.to_dt(R.T0 + k * R.DAY))
    it = iter(s)
    first = next(it)
    s.rdate(R.to_dt(R.T0 + 10 * R.DAY))          # _invalidate_cache
    try:
        next(it)
        out = "value"
    except TypeError:
        out = "TypeError"
    except StopIteration:
        out = "StopIteration"
    except Exception as ex:
        out = type(ex).__name__
    # without a live iterator the mutated set simply lists the new sequence
    s2 = rr.rruleset(cache=True)
    for k in range(3):
        s2.rdate(R.to_dt(R.T0 + k * R.DAY))
    list(s2)
    s2.rdate(R.to_dt(R.T0 + 10 * R.DAY))
    # C11_invalidate_then_iterate on the real code: every operation finished, mutator, NEW operations: they answer
    # for the new sequence (listing, count() through the re-published _len, an index through the new cache)
    new_seq = [R.T0, R.T0 + R.DAY, R.T0 + 2 * R.DAY, R.T0 + 10 * R.DAY]
    clean = ([R.to_int(x) for x in s2] == new_seq and s2.count() == 4 and R.to_int(s2[-1]) == new_seq[-1] and
             [R.to_int(x) for x in s2] == new_seq)
    return {"first": R.to_int(first), "live_iterator_after_mutator": out, "no_live_iterator_lists_new_sequence": clean}


# ------------------------------------------------------------------ regression corpus

def run_regressions(o, verdict, stats, samples):
    corpus = os.path.join(C.VERIF, "corpus", "regressions", CID + ".jsonl")
    if os.path.exists(corpus):
        for line in open(corpus):
            line = line.strip()
            if not line:
                continue
            c = json.loads(line)
            L = safe_listing(c["recipe"], verdict, "regression corpus")
            if L is None:
                continue
            if c["mode"] == "threads":
                one_thread_case(o, c["recipe"], L, c["ops"], c["plan"], "regression", verdict, stats, samples)
            else:
                h = [tuple(x) for x in c["history"]]
                got = run_history(c["recipe"], c["ops"], h)
                want = spec_history(L, c["recipe"], c["ops"], h, {})
                stats["histories"] += 1
                stats["hist_family"]["regression"] = stats["hist_family"].get("regression", 0) + 1
                if got != want:
                    stats["hist_impl_vs_spec"] += 1
                    verdict.violation({"kind": "regression corpus: cached rule observed differently from the "
                                               "uncached rule (or deadlock)",
                                       "input": {"mode": "history", "recipe": c["recipe"], "ops": c["ops"],
                                                 "history": h}, "impl": got, "uncached_spec": want})


# ------------------------------------------------------------------ replay / main

def replay(path):
    data = json.load(open(path))
    C.ensure_built([AREA], VO)
    o = C.Oracle(AREA)
    inp = data.get("input") or {}
    if inp.get("mode") == "history":
        recipe, ops, h = inp["recipe"], inp["ops"], [tuple(x) for x in inp["history"]]
        L = listing(recipe)
        print("rule      ", R.describe(recipe), " n =", len(L))
        print("ops       ", ops)
        print("history   ", h)
        print("impl      ", run_history(recipe, ops, h))
        print("model     ", o.call(10, prog_args(L, ops) + [x for kt in h for x in kt]))
        print("spec      ", spec_history(L, recipe, ops, h, {}))
    elif inp.get("mode") == "raising" and "history" in inp:
        recipe, ops, h = inp["recipe"], inp["ops"], [tuple(x) for x in inp["history"]]
        print("rule      ", R.describe(recipe), " (its generator raises ValueError)")
        print("ops       ", ops)
        print("history   ", h)
        print("impl      ", run_history(recipe, ops, h, cache=True))
        print("model     ", o.call(10, prog_args([], ops, 3) + [x for kt in h for x in kt]), "(raises = true)")
        print("spec      ", run_history(recipe, ops, h, cache=False), "(uncached rule)")
    elif inp.get("mode") in ("threads", "raising"):
        recipe, ops = inp["recipe"], inp["ops"]
        rz = inp.get("mode") == "raising"
        L = [] if rz else listing(recipe)
        sched = inp.get("executed_schedule") or []
        plan = [[t, 1] for t in sched] if sched else inp["plan"]
        run = run_schedule(recipe, ops, plan)
        print("rule      ", R.describe(recipe), " n =", len(L))
        print("ops       ", ops)
        print("schedule  ", run.schedule)
        print("impl      ", "problem=%s" % run.problem, "status", run.status, "pcs", run.pc, "results", run.results)
        ok, detail, finals = validate_trace(o, L, ops, run, 3 if rz else 1)
        print("model     ", "trace accepted" if ok else "trace REJECTED", detail, finals)
        print("spec      ", [expected(recipe, op) for op in ops])
    else:
        print("replay names a broken obligation, no schedule:", json.dumps(data, indent=1)[:3000])
    o.close()
    return 0


def translator_status(build_log):
    """harness/gen_rcache.py (run by common.regenerate on every check) regenerates coq/gen/RQueryGen.v and
    coq/gen/RCacheGen.v from /repo's source; when it aborts the files are poisoned and the C11_gen_* /
    C12_gen_* obligations (and with them the whole props file) stop compiling"""
    log = build_log or ""
    failed = "GENERATOR FAILED: gen_rcache.py" in log
    msg = None
    if failed:
        ms = re.findall(r"TRANSLATE-ERROR: ([^\n]*)", log[:log.index("GENERATOR FAILED: gen_rcache.py")])
        msg = ms[-1] if ms else "generator exited non-zero"
    return {"script": "harness/gen_rcache.py", "outputs": ["coq/gen/RQueryGen.v", "coq/gen/RCacheGen.v"],
            "status": "aborted" if failed else "ok", "message": msg}


def main():
    argv = sys.argv[1:]
    if "--replay" in argv:
        return replay(argv[argv.index("--replay") + 1])
    tier = C.tier_from_argv(argv)
    t0 = time.time()
    verdict = C.Verdict(CID, {"raising_generator": matcher_raising_generator})
    build_err = None
    build_log = ""
    try:
        _ok, build_log = C.ensure_built([AREA], VO)
    except C.BuildError as ex:
        build_err = ex
    translator = translator_status(build_log)
    if build_err is not None:
        props = {"obligations": 1, "discharged": 0, "theorems": [], "assumptions": {},
                 "cmd": "coqc props/C11.v", "log": build_err.log, "ok": False}
    else:
        props = C.compile_props(CID)
    t1 = time.time()
    r = C.rng("C11")
    stats = {"histories": 0, "hist_family": {}, "hist_len": {}, "hist_impl_vs_spec": 0, "hist_impl_vs_model": 0,
             "schedules": 0, "sched_family": {}, "steps": 0, "blocked_steps": 0, "thread_problems": 0,
             "thread_impl_vs_spec": 0, "thread_impl_vs_model": 0, "traces_validated": 0, "traces_rejected": 0,
             "ops_hist": {}, "ops_hist_threads": {}, "invalidate_witness": None, "raising_histories": 0,
             "raising_by_class": {}, "raising_cached_vs_uncached": 0, "raising_impl_vs_model": 0,
             "nontrivial": set()}
    samples = []
    have_oracle = os.path.exists(os.path.join(C.BIN, "oracle_" + AREA))
    if sys.version_info[:2] != (3, 12):
        # the program-counter table (one pc per `line` event of _iter_cached) was established for CPython 3.12
        verdict.violation({"kind": "machinery: the line-level scheduler's pc table is bound to the `line` events of "
                                   "CPython 3.12; this interpreter is %d.%d -- thread traces are not comparable"
                                   % sys.version_info[:2], "input": None}, concrete=False)
        have_oracle = False
    if have_oracle:
        o = C.Oracle(AREA)
        # regression corpus first
        try:
            with R.watchdog(60):
                run_regressions(o, verdict, stats, samples)
        except R.Timeout:
            verdict.violation({"kind": "operation never completes (regression corpus did not finish within 60 s)",
                               "input": {"mode": "history", "recipe": R.daily(10), "ops": [["list"], ["list"]],
                                         "history": [[0, 0], [0, 1]] + [[1, j % 2] for j in range(24)]}})
        try:
            with R.watchdog(30):
                iw = invalidate_witness()
        except R.Timeout:
            iw = {"live_iterator_after_mutator": "timeout", "no_live_iterator_lists_new_sequence": False}
        stats["invalidate_witness"] = iw
        if iw["live_iterator_after_mutator"] != "TypeError" or not iw["no_live_iterator_lists_new_sequence"]:
            verdict.violation({"kind": "correspondence: _invalidate_cache boundary theorems (C11_invalidate_*) no longer "
                                       "describe the implementation", "input": None, "observed": iw,
                               "model": {"live_iterator_after_mutator": "TypeError",
                                         "no_live_iterator_lists_new_sequence": True}}, concrete=False)
        budget_h = 35 if tier == "quick" else 400
        budget_t = 40 if tier == "quick" else 600
        try:
            with R.watchdog(120):
                check_raising(o, verdict, stats, samples)
        except R.Timeout:
            verdict.violation({"kind": "operation never completes on a rule whose generator raises (120 s)",
                               "input": {"mode": "raising", "recipe": raising_recipes()[0], "ops": [["list"]],
                                         "history": [[2, 0]]}}, concrete=False)
        check_histories(o, tier, r, verdict, stats, samples, t1 + budget_h)
        check_threads(o, tier, r, verdict, stats, samples, time.time() + budget_t)
        o.close()
    else:
        verdict.violation({"kind": "no oracle: the extracted model could not be built", "input": None,
                           "log_tail": (build_err.log if build_err else "")[-2000:]}, concrete=False)

    if not props["ok"] and not any(c for (_p, c) in verdict.violations):
        verdict.violation({"kind": ("translator abort (harness/gen_rcache.py: %s): the regenerated model no longer "
                                    "exists, gen obligations broken" % translator["message"])
                           if translator["status"] == "aborted" else "broken proof obligation",
                           "translator": translator, "theorem_file": "coq/props/C11.v",
                           "theorems": props["theorems"], "discharged": props["discharged"],
                           "input": None, "log_tail": props["log"][-3000:]}, concrete=False)
    # (audit) a loaded machine must not pass silently with far fewer cases: export the truncation flags, and
    # report when a whole stream did not run at all
    trunc = {"histories_stopped_by_time_budget": bool(stats.get("histories_stopped_by_time_budget")),
             "threads_stopped_by_time_budget": bool(stats.get("threads_stopped_by_time_budget")),
             "threads_stopped_after_repeated_hangs_or_deadlocks":
                 bool(stats.get("threads_stopped_after_repeated_hangs_or_deadlocks")),
             "histories": stats["histories"], "schedules": stats["schedules"],
             "floor_histories": 2000 if tier == "quick" else 20000, "floor_schedules": 300 if tier == "quick" else 5000}
    trunc["truncated"] = bool(trunc["histories_stopped_by_time_budget"] or trunc["threads_stopped_by_time_budget"])
    trunc["below_floor"] = bool(stats["histories"] < trunc["floor_histories"] or stats["schedules"] < trunc["floor_schedules"])
    if have_oracle and (stats["histories"] == 0 or stats["schedules"] == 0) and not verdict.violations:
        verdict.violation({"kind": "stream truncated: %d histories, %d thread schedules were run (time budget used up "
                                   "before the stream started: machine overloaded?)" % (stats["histories"], stats["schedules"]),
                           "input": None, "truncation": trunc}, concrete=False)
    rc = verdict.finish()
    nontriv = len(stats.pop("nontrivial"))
    cov = {
        "evaluations": stats["histories"] + stats["schedules"],
        "distinct_nontrivial": nontriv,
        "truncation": trunc,
        "rule": "(i) single-threaded histories over cached rrule(DAILY,count=n) n=0..31 and rules/sets of length "
                "{0,1,9,10,11,20,21,30} leaving the generator through every exit: all interleavings of next() of 2 "
                "iterators for n<=3 (quick) / 4 and of 3 iterators for n<=1, phase families a^p b^q a* b* with p,q "
                "around multiples of 10 and the second iterator created before/after, strict alternation, random "
                "histories of 2-4 lazily created iterators "
                "mixed with list/take/index/negative index/slice [:k]/count/contains/between/before/after/xafter queries; (ii) real threads under the "
                "line-level scheduler: ONE pre-emption at every line offset is enumerated only for two `list` iterators over "
                "rrule(DAILY,count=n), n in {0,1,10,11} (quick) / {0,1,9,10,11,20,21} (thorough); TWO pre-emptions on a "
                "complete (a,b) grid only for n=0 with stride 4 (quick) / n=0 stride 1, n=1 stride 2, n=10 stride 7 "
                "(thorough), otherwise sampled for lengths {0,1,9,10,11,20,21}; queries take part only in the random plans for 2-4 threads mixing iterators and queries. distinct = (rule, ops, history or executed "
                "schedule); non-trivial = history with >=2 iterators advancing on a non-empty rule, or schedule with "
                ">=2 context switches on a non-empty rule",
        "exhaustive": False,
        "traces_validated_against_impl": stats["traces_validated"],
        "traces_rejected": stats["traces_rejected"],
        "samples": samples[:12],
        "input_distribution": {"histories": stats["histories"], "histories_by_family": stats["hist_family"],
                               "histories_by_rule_length": stats["hist_len"],
                               "operations_in_histories": stats["ops_hist"],
                               "operations_in_thread_schedules": stats["ops_hist_threads"],
                               "schedules": stats["schedules"], "schedules_by_family": stats["sched_family"],
                               "scheduled_line_steps": stats["steps"],
                               "steps_observed_blocked_on_the_lock": stats["blocked_steps"]},
        "history_impl_vs_uncached_spec_disagreements": stats["hist_impl_vs_spec"],
        "history_impl_vs_model_disagreements": stats["hist_impl_vs_model"],
        "thread_deadlock_hang_livelock": stats["thread_problems"],
        "thread_impl_vs_uncached_spec_disagreements": stats["thread_impl_vs_spec"],
        "thread_impl_vs_model_final_result_disagreements": stats["thread_impl_vs_model"],
        "raising_generator_histories": stats["raising_histories"],
        "raising_generator_histories_by_exception_code (2 TypeError, 3 ValueError)": stats["raising_by_class"],
        "raising_generator_cached_vs_uncached_disagreements (finding F-C11-raise)": stats["raising_cached_vs_uncached"],
        "raising_generator_impl_vs_model_disagreements": stats["raising_impl_vs_model"],
        "invalidate_cache_boundary_witness_on_impl": stats.get("invalidate_witness"),
        "guards": ["mutators (_invalidate_cache) are the boundary between two runs of the transition system: "
                   "C11_invalidate_then_iterate (any operations, all finished, mutator, any new operations under any "
                   "schedule: invariant + answers for the NEW sequence) / C11_invalidate_live_iterator_refuted "
                   "(F-C10-stale)",
                   "theorems are about generators that end normally (raises = false); the complement is "
                   "C11_raising_generator_refuted / known finding F-C11-raise"],
        "partial_theorems": [t for t in props["theorems"] if "partial" in t],
        "tie_only": {
            "C11_gen_init_is_model": "reflexivity on a regenerated constant",
            "C11_gen_batch_is_model": "reflexivity on a regenerated constant (batch size 10 at line offset 13)",
            "C11_gen_invalidate_is_model": "the regenerated assignments of _invalidate_cache equal the hand-written "
                                           "reset (four fields), definitional after unfolding",
            "C11_gen_table_is_model": "a checked syntactic fingerprint (24 instruction tags with jump targets); the "
                                      "meaning of each tag is hand-written (RGenBase.exec_instr), so this is not an "
                                      "independent semantics of the Python source",
        },
        "outside_the_model": ["pre-emption inside a source line (bytecode level)", "free-threaded CPython",
                              "_invalidate_cache (rruleset mutators) racing with live iterators",
                              "rules whose generator raises (ValueError of impossible sub-daily rules)"],
        "known_findings_hit": verdict.known_hits,
        "translator": translator,
        "model_tie": "query methods / _iter_cached table / _invalidate_cache / __init__ regenerated from /repo's AST "
                     "by harness/gen_rcache.py on this run and proved equal to the hand-written model (C1x_gen_* "
                     "theorems); plus the differential correspondence below",
    }
    C.write_evidence(CID, tier, t0, props, cov,
                     ["_thread lock: mutual exclusion, acquire blocks while held (the instrumented lock of "
                      "harness/rcache_sched.py implements exactly this contract and reports instead of blocking)",
                      "the underlying generator rule._iter() yields list(uncached rule) and assigns _len just before "
                      "finishing (rrule.py 877-1034, 1424); checked by the trace validation, not proved",
                      "thread switches happen between source lines of the anchored functions (sys.settrace line events)",
                      "datetime comparison = integer order of whole seconds since 1970"],
                     len(verdict.violations))
    print("C11 %s: obligations %d/%d, %d histories, %d schedules (%d line steps, %d traces validated, %d rejected), "
          "spec-diff %d+%d, problems %d, model-diff %d+%d, %.1fs"
          % (tier, props["discharged"], props["obligations"], stats["histories"], stats["schedules"], stats["steps"],
             stats["traces_validated"], stats["traces_rejected"], stats["hist_impl_vs_spec"],
             stats["thread_impl_vs_spec"], stats["thread_problems"], stats["hist_impl_vs_model"],
             stats["thread_impl_vs_model"], time.time() - t0))
    return rc


if __name__ == "__main__":
    sys.exit(main())
