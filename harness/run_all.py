#!/usr/bin/env python3
"""Run every check registered in MANIFEST.json (tier from argv, default quick), print a summary,
validate each evidence file against the schema.  Not itself a registered check."""
import json, os, subprocess, sys, time
V = os.path.dirname(os.path.dirname(os.path.abspath(__file__)))
tier = sys.argv[1] if len(sys.argv) > 1 else "quick"
only = sys.argv[2:]
m = json.load(open(os.path.join(V, "MANIFEST.json")))
rows = []
for c in m["checks"]:
    pid = c["property_id"]
    if only and pid not in only:
        continue
    cmd = c["quick_cmd"] if tier == "quick" else c.get("thorough_cmd", c["quick_cmd"])
    ev = c["evidence_file"]
    if os.path.exists(ev):
        os.remove(ev)
    t0 = time.time()
    p = subprocess.run(cmd, shell=True, cwd=V, stdout=subprocess.PIPE, stderr=subprocess.STDOUT, text=True)
    dt = time.time() - t0
    viol = [l for l in p.stdout.splitlines() if l.startswith("VIOLATION")]
    known = [l for l in p.stdout.splitlines() if l.startswith("KNOWN-FINDING")]
    evok = "missing"
    if os.path.exists(ev):
        r = subprocess.run(["python3-vt", "-c", "import json,jsonschema,sys;jsonschema.validate(json.load(open(sys.argv[1])),json.load(open('/root/.vp/EVIDENCE.schema.json')))", ev],
                           stdout=subprocess.PIPE, stderr=subprocess.STDOUT, text=True)
        evok = "valid" if r.returncode == 0 else "INVALID " + r.stdout[-200:]
    rows.append((pid, p.returncode, len(viol), len(known), evok, round(dt, 1)))
    print("%s exit=%d violations=%d known=%d evidence=%s %.1fs" % rows[-1], flush=True)
    if p.returncode != 0:
        print(p.stdout[-1500:])
bad = [r for r in rows if r[1] != 0 or r[4] != "valid"]
print("ALL CLEAN" if not bad else "PROBLEMS: %s" % [r[0] for r in bad])
