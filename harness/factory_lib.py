"""C18 support: encoding of factory scenarios for the extracted transition system, a sequential
executor and a deterministic line-level thread scheduler for the REAL dateutil factories.

One real scheduling point == one step of the Coq model (coq/factory/FacModel.v):
  'start'  the worker is about to begin its next operation                    (PIdle)
  'key' 'get' 'chk' 'touch' 'len' 'pop' 'noc' 'cacheable' 'set' 'cnew' 'cclr' 'sset' 'sloop'
  'uchk' 'unew' 'uret'   line events (sys.settrace) of the factory bodies, classified by the
                         TEXT of the source line (fail closed on an unknown statement)
  'cons'   the line of _TzFactory.instance (the constructor call)
  'sdread' 'sdwrite'     the two dictionary accesses inside WeakValueDictionary.setdefault
  'acq' 'rel'            the instrumented lock (reports "would block" instead of blocking)
  'deliver'              the call has returned / raised; the worker stores the result
"""
import gc
import inspect
import os
import re
import sys
import threading
import time
import weakref
from collections import OrderedDict

FOFF, FSTR, FGET = 0, 1, 2
K_FRESH, K_RAISE, K_STATIC, K_LOCAL, K_NONE, K_TZSTR = 0, 1, 2, 3, 4, 5

PC_NAMES = ["PIdle", "PKey", "PAcq", "PGet", "PChk", "PCons", "PSdRead", "PSdWrite", "PTouch", "PLen",
            "PPop", "PRel", "PRet", "PExcRel", "PExc", "GAcq", "GGet", "GChk", "GNoc", "GCacheable", "GSet",
            "GEarlyRel", "GEarlyRet", "GExcRel", "CAcq", "CNew", "CClr", "CRel", "SAcq", "SSet", "SLoop",
            "SRel", "SExcRel", "UChk", "UNew", "URet", "UDel", "PDone"]
LABEL_PCS = {
    "start": {"PIdle"}, "key": {"PKey"}, "acq": {"PAcq", "GAcq", "CAcq", "SAcq"}, "get": {"PGet", "GGet"},
    "chk": {"PChk", "GChk"}, "cons": {"PCons"}, "sdread": {"PSdRead"}, "sdwrite": {"PSdWrite"},
    "noc": {"GNoc"}, "cacheable": {"GCacheable"}, "set": {"GSet"}, "touch": {"PTouch"}, "len": {"PLen"},
    "pop": {"PPop"}, "rel": {"PRel", "PExcRel", "GEarlyRel", "GExcRel", "CRel", "SRel", "SExcRel"},
    "deliver": {"PRet", "PExc", "GEarlyRet", "UDel", "PDone"}, "cnew": {"CNew"}, "cclr": {"CClr"},
    "sset": {"SSet"}, "sloop": {"SLoop"}, "uchk": {"UChk"}, "unew": {"UNew"}, "uret": {"URet"},
}


# ----------------------------------------------------------------------------------------
# operations:  ("call", fac, keyint, (kindtag, a, b), slot, entry) | ("instance", fac, keyint, slot, entry)
#              ("utc", slot) | ("drop", slot) | ("clear",) | ("size", n)
# `entry` indexes World.entries (the real call arguments); the model sees only the key number.

def enc_op(op):
    t = op[0]
    if t == "call":
        _, f, k, kd, slot = op[:5]
        return [0, f, k, kd[0], kd[1], kd[2], slot]
    if t == "instance":
        return [1, op[3], 0, 0, 0, 0, 0]
    if t == "utc":
        return [2, op[1], 0, 0, 0, 0, 0]
    if t == "drop":
        return [3, op[1], 0, 0, 0, 0, 0]
    if t == "clear":
        return [4, 0, 0, 0, 0, 0, 0]
    if t == "size":
        return [5, op[1], 0, 0, 0, 0, 0]
    raise ValueError(op)


def enc_scenario(progs, sched, verbose=True, single0=-1):
    a = [1 if verbose else 0, single0, len(progs)]
    for p in progs:
        a.append(len(p))
        for op in p:
            a += enc_op(op)
    return a + list(sched)


def parse_fac(v, i):
    lock, size, n = v[i], v[i + 1], v[i + 2]
    i += 3
    vis = sorted((v[i + 2 * j], v[i + 2 * j + 1]) for j in range(n))
    i += 2 * n
    m = v[i]
    i += 1
    lru = [(v[i + 2 * j], v[i + 2 * j + 1]) for j in range(m)]
    i += 2 * m
    return {"lock": lock, "size": size, "vis": vis, "lru": lru}, i


def parse_snapshot(v, i):
    facs = []
    for _ in range(3):
        f, i = parse_fac(v, i)
        facs.append(f)
    single, n = v[i], v[i + 1]
    i += 2
    refs = sorted((v[i + 2 * j], v[i + 2 * j + 1]) for j in range(n))
    return {"facs": facs, "single": single, "refs": refs}


def parse_trace(out):
    """-> (records, tail) ; record = dict(tid, pc0, blocked, pc1, left, snap or None)"""
    recs = []
    i = 0
    while i < len(out) and out[i] != -7:
        n = out[i]
        body = out[i + 1:i + 1 + n]
        rec = {"tid": body[0], "pc0": body[1], "blocked": body[2], "pc1": body[3], "left": body[4],
               "snap": parse_snapshot(body, 5) if n > 5 else None}
        recs.append(rec)
        i += 1 + n
    tail = out[i + 1:i + 5]
    return recs, {"finished": tail[0], "spec": tail[1], "spec_strict": tail[2], "one_live": tail[3]}


def snap_tokens(snap):
    """canonical token list; object ids are ('o', id), everything else ('v', int)"""
    t = []
    for f in snap["facs"]:
        t += [("v", f["lock"]), ("v", f["size"]), ("v", len(f["vis"]))]
        for k, o in f["vis"]:
            t += [("v", k), ("o", o)]
        t.append(("v", len(f["lru"])))
        for k, o in f["lru"]:
            t += [("v", k), ("o", o)]
    t.append(("o", snap["single"]) if snap["single"] else ("v", 0))
    t.append(("v", len(snap["refs"])))
    for s, o in snap["refs"]:
        t += [("v", s), ("o", o)]
    return t


class Renamer:
    """bijection between model object ids and real object serials, built along the trace"""

    def __init__(self):
        self.m2r, self.r2m = {}, {}

    def match(self, mt, rt):
        if len(mt) != len(rt):
            return "length %d vs %d" % (len(mt), len(rt))
        for pos, (a, b) in enumerate(zip(mt, rt)):
            if a[0] != b[0]:
                return "token %d: model %r real %r" % (pos, a, b)
            if a[0] == "v":
                if a[1] != b[1]:
                    return "token %d: model %r real %r" % (pos, a[1], b[1])
            else:
                if self.m2r.setdefault(a[1], b[1]) != b[1] or self.r2m.setdefault(b[1], a[1]) != a[1]:
                    return "token %d: object identity differs (model o%r, real #%r)" % (pos, a[1], b[1])
        return None


# ----------------------------------------------------------------------------------------
# real objects: serial numbers that survive id() reuse

class Serials:
    def __init__(self):
        self.by_id = {}
        self.n = 0

    def of(self, obj):
        if obj is None:
            return 0
        i = id(obj)
        ent = self.by_id.get(i)
        if ent is not None and ent[0]() is obj:
            return ent[1]
        self.n += 1
        n = self.n

        def gone(_wr, i=i, n=n, d=self.by_id):
            e = d.get(i)
            if e is not None and e[1] == n:
                del d[i]
        self.by_id[i] = (weakref.ref(obj, gone), n)
        return n


# ----------------------------------------------------------------------------------------
# the real factories

import datetime as _dtm

ANSWER_PROBES = [_dtm.datetime(2021, 1, 15, 12), _dtm.datetime(2021, 3, 14, 1, 30), _dtm.datetime(2021, 3, 14, 3, 30),
                 _dtm.datetime(2021, 7, 1, 12), _dtm.datetime(2021, 11, 7, 1, 30), _dtm.datetime(1970, 1, 1)]


def zone_answers(z):
    """what a completely built zone answers at a few instants (both folds)"""
    out = []
    for dt in ANSWER_PROBES:
        for fold in (0, 1):
            d = dt.replace(tzinfo=z, fold=fold)
            out.append((d.utcoffset(), d.dst(), d.tzname()))
    return out


class World:
    """The three real factories with their private state reachable and resettable, plus a
    classification of every key (what the constructor / nocache does for it)."""

    def __init__(self):
        from dateutil import tz
        from dateutil.tz import _factories as F
        self.tz, self.F = tz, F
        self.off_cls, self.str_cls, self.gettz = tz.tzoffset, tz.tzstr, tz.gettz
        self.utc_cls = tz.tzutc
        import datetime as _dt
        self.tzinfo_cls = _dt.tzinfo
        self.saved = None
        self.keys = {}      # (fac, real key) -> int
        self.entries = []   # dict(fac, key, args, kind)
        from dateutil.zoneinfo import get_zonefile_instance
        self.tarball = get_zonefile_instance()
        self.statics = []   # permanent objects, index n -> model id -(n)-1 ; 0 = tz.UTC
        self.statics.append(tz.UTC)
        self.validity_problems = []

    def key(self, f, rk):
        k = self.keys.get((f, rk))
        if k is None:
            k = self.keys[(f, rk)] = 100 * f + sum(1 for (g, _r) in self.keys if g == f)
        return k

    def static_index(self, obj):
        for i, o in enumerate(self.statics):
            if o is obj:
                return i
        self.statics.append(obj)
        return len(self.statics) - 1

    def add_entry(self, f, args, valid=True):
        """register real call arguments; computes the map key and what the constructor does.
        `valid` comes from the caller's STATIC table (documented API), not from the implementation:
        a valid request that raises while being probed is still labelled as succeeding (so that the
        run reports the exception as unexpected) and recorded in self.validity_problems."""
        e = self._add_entry(f, args)
        ent = self.entries[e]
        raised = ent["kind"][0] == K_RAISE or (ent["kind"][0] == K_TZSTR and ent["kind"][2] and f == FSTR)
        if valid and ent["kind"][0] == K_RAISE:
            self.validity_problems.append({"what": "a valid request raised", "fac": f, "args": repr(args),
                                           "exception": ent.get("probe_exception")})
            ent["kind"] = (K_FRESH, 0, 0)
        elif not valid and ent["kind"][0] != K_RAISE:
            self.validity_problems.append({"what": "an invalid request did not raise", "fac": f, "args": repr(args)})
        ent["valid"] = valid
        # reference answers of a freshly built zone of this request ("never a half-built zone")
        ent["answers"] = None
        if valid and ent["kind"][0] in (K_FRESH, K_STATIC, K_TZSTR, K_LOCAL):
            try:
                z = (self.tz.tzoffset.instance(*args) if f == FOFF else
                     self.tz.tzstr.instance(*args) if f == FSTR else self.tz.gettz.nocache(*args))
                ent["answers"] = zone_answers(z) if z is not None else None
            except Exception:
                ent["answers"] = None
        return e

    def _add_entry(self, f, args):
        tz = self.tz
        if f == FOFF:
            name, off = args
            rk = (name, off.total_seconds()) if hasattr(off, "total_seconds") else (name, off)
            exc_name = None
            try:
                tz.tzoffset.instance(*args)
                kind = (K_FRESH, 0, 0)
            except Exception as ex:
                kind = (K_RAISE, 0, 0)
                exc_name = type(ex).__name__
        elif f == FSTR:
            rk = (args[0], args[1] if len(args) > 1 else False)
            exc_name = None
            try:
                tz.tzstr.instance(*args)
                kind = (K_FRESH, 0, 0)
            except Exception as ex:
                kind = (K_RAISE, 0, 0)
                exc_name = type(ex).__name__
        else:
            exc_name = None
            name = args[0]
            rk = name
            s = name
            if not s:
                s = os.environ.get("TZ", "")
            if isinstance(s, str) and s.startswith(":"):
                s = s[1:]
            try:
                rv = tz.gettz.nocache(name)
                if rv is None:
                    if any(c in "0123456789" for c in s) and not os.path.isabs(s):
                        kind = (K_TZSTR, self.key(FSTR, (s, False)), 1)
                    else:
                        kind = (K_NONE, 0, 0)
                elif isinstance(rv, tz.tzlocal) or name is None:
                    kind = (K_LOCAL, 0, 0)
                elif isinstance(rv, tz.tzstr):
                    kind = (K_TZSTR, self.key(FSTR, (s, False)), 0)
                elif rv is tz.UTC or any(rv is z for z in self.tarball.zones.values()):
                    kind = (K_STATIC, self.static_index(rv), 0)
                else:
                    kind = (K_FRESH, 0, 0)
            except Exception as ex:
                kind = (K_RAISE, 0, 0)
                exc_name = type(ex).__name__
        e = {"fac": f, "key": self.key(f, rk), "args": args, "kind": kind, "probe_exception": exc_name}
        self.entries.append(e)
        return len(self.entries) - 1

    @staticmethod
    def is_cached_path(op, res):
        if op[1] != FGET:
            return True
        kd = op[3]
        return kd[0] in (K_FRESH, K_STATIC) or (kd[0] == K_TZSTR and not kd[2])

    # private attribute names
    OFF = "_TzOffsetFactory__"
    STR = "_TzStrFactory__"
    GET = "_GettzFunc__"

    def lock_attr(self, f):
        return {FOFF: (self.off_cls, "_cache_lock"), FSTR: (self.str_cls, self.STR + "cache_lock"),
                FGET: (self.gettz, "_cache_lock")}[f]

    def priv(self, f, name):
        owner, pre = {FOFF: (self.off_cls, self.OFF), FSTR: (self.str_cls, self.STR),
                      FGET: (self.gettz, self.GET)}[f]
        return owner, pre + name

    def get_priv(self, f, name):
        o, a = self.priv(f, name)
        return getattr(o, a)

    def reset(self):
        """fresh caches (state isolation between cases); the code under test is untouched"""
        for f in (FOFF, FSTR, FGET):
            o, a = self.priv(f, "instances")
            setattr(o, a, weakref.WeakValueDictionary())
            o, a = self.priv(f, "strong_cache")
            setattr(o, a, OrderedDict())
            o, a = self.priv(f, "strong_cache_size")
            setattr(o, a, 8)
        gc.collect()

    def set_locks(self, mk):
        self.saved = []
        for f in (FOFF, FSTR, FGET):
            o, a = self.lock_attr(f)
            self.saved.append((o, a, getattr(o, a)))
            setattr(o, a, mk(f))

    def restore_locks(self):
        for o, a, v in self.saved or []:
            setattr(o, a, v)
        self.saved = None

    def key_of_real(self, f, rk):
        return self.keys.get((f, rk))

    def snapshot(self, ser, refs, lock_owner):
        facs = []
        for f in (FOFF, FSTR, FGET):
            inst = self.get_priv(f, "instances")
            vis = sorted((self.key(f, k), ser.of(v)) for k, v in list(inst.items()))
            lru = [(self.key(f, k), ser.of(v)) for k, v in list(self.get_priv(f, "strong_cache").items())]
            facs.append({"lock": lock_owner(f), "size": self.get_priv(f, "strong_cache_size"),
                         "vis": vis, "lru": lru})
        single = ser.of(getattr(self.utc_cls, "_TzSingleton__instance"))
        return {"facs": facs, "single": single,
                "refs": sorted((s, ser.of(o)) for s, o in refs.items())}


# ----------------------------------------------------------------------------------------
# line classification (by source text)

def _classify(func, rules, stutter, strict=True):
    """{lineno: label} for the lines of func; unknown statement -> ValueError (fail closed)."""
    lines, start = inspect.getsourcelines(func)
    out = {}
    unknown = []
    for i, raw in enumerate(lines):
        txt = raw.strip()
        if i == 0 or not txt or txt.startswith("#") or txt.startswith('"""') or txt.startswith("def "):
            continue
        for pat, lab in rules:
            if pat in txt:
                out[start + i] = lab
                break
        else:
            if not any(p in txt for p in stutter):
                unknown.append((start + i, txt))
    if unknown and strict:
        raise ValueError("unmodelled statement(s) in %s: %r" % (func.__qualname__, unknown))
    return out


FACTORY_RULES = [("key = ", "key"), (".get(key", "get"), ("if instance is None", "chk"),
                 (".pop(key", "touch"), ("if len(", "len"), (".popitem(", "pop")]
FACTORY_STUTTER = ["if isinstance(offset, timedelta)", "else:", "with cls.", ".setdefault(key", "cls.instance(",
                   "return instance"]
GETTZ_RULES = [(".get(name", "get"), ("if rv is None", "chk"), ("self.nocache(", "noc"),
               ("if not (name is None", "cacheable"), ("__instances[name] = rv", "set"),
               (".pop(name", "touch"), ("if len(", "len"), (".popitem(", "pop")]
GETTZ_STUTTER = ["with self._cache_lock", "or isinstance(rv", "or rv is None", "else:", "return rv"]


def build_line_table(world):
    """code object -> {lineno: label}.  For the dateutil functions the table comes from the fail-closed
    AST translator (harness/factory_cfg.py), the same one that generates coq/gen/FacCfgGen.v, whose
    control-flow tables are proved equal to the ones `step` follows; only the two dictionary accesses
    inside the stdlib's WeakValueDictionary.setdefault are located by their text."""
    import factory_cfg
    F = world.F
    G = type(world.gettz)
    src = os.path.dirname(os.path.dirname(inspect.getsourcefile(F)))
    tab = {}
    for func in (F._TzOffsetFactory.__call__, F._TzStrFactory.__call__, F._TzFactory.instance, G.__call__,
                 G.cache_clear, G.set_cache_size, F._TzSingleton.__call__):
        tab[func.__code__] = factory_cfg.lines_for(func, src)     # TranslateError is a ValueError
    tab[weakref.WeakValueDictionary.setdefault.__code__] = _classify(
        weakref.WeakValueDictionary.setdefault, [("o = self.data[key]()", "sdread"),
                                                 ("self.data[key] = KeyedRef(", "sdwrite")], [], strict=False)
    return tab


def build_line_table_text(world):
    """fallback used ONLY to keep searching for a concrete failing schedule when the translator has
    rejected the source (that rejection is itself reported): statements located by their text"""
    F = world.F
    G = type(world.gettz)
    tab = {}

    def add(func, rules, stutter):
        tab[func.__code__] = _classify(func, rules, stutter, strict=False)
    add(F._TzOffsetFactory.__call__, FACTORY_RULES, FACTORY_STUTTER)
    add(F._TzStrFactory.__call__, FACTORY_RULES, FACTORY_STUTTER)
    add(F._TzFactory.instance, [("type.__call__(", "cons")], [])
    add(G.__call__, GETTZ_RULES, GETTZ_STUTTER)
    add(G.cache_clear, [("self.__instances = ", "cnew"), ("strong_cache.clear()", "cclr")], [])
    add(G.set_cache_size, [("strong_cache_size = size", "sset"), ("while len(", "sloop")], [])
    add(F._TzSingleton.__call__, [("if cls.__instance is None", "uchk"), ("cls.__instance = ", "unew"),
                                  ("return cls.__instance", "uret")], [])
    add(weakref.WeakValueDictionary.setdefault, [("o = self.data[key]()", "sdread"),
                                                ("self.data[key] = KeyedRef(", "sdwrite")], [])
    return tab


# ----------------------------------------------------------------------------------------
# performing one operation on the real factories

class Ops:
    def __init__(self, world):
        self.w = world

    def call(self, op):
        f = op[1]
        args = self.w.entries[op[5]]["args"]
        if f == FOFF:
            return self.w.off_cls(*args)
        if f == FSTR:
            return self.w.str_cls(*args)
        return self.w.gettz(*args)

    def instance(self, op):
        f = op[1]
        args = self.w.entries[op[4]]["args"]
        if f == FOFF:
            return self.w.off_cls.instance(*args)
        if f == FSTR:
            return self.w.str_cls.instance(*args)
        return self.w.gettz.nocache(*args)


class Hang(Exception):
    pass


class Sched:
    """Runs `progs` (one list of operations per thread) on the real factories, one scheduling
    point at a time, in the order `pick` chooses.  Records after every grant
    (tid, label the thread stood at, blocked?, snapshot)."""

    def __init__(self, world, progs, table, timeout=20.0):
        self.w, self.progs, self.table = world, progs, table
        self.n = len(progs)
        self.ops = Ops(world)
        self.refs = {}
        self.ser = Serials()
        self.timeout = timeout
        self.cv = threading.Condition()
        self.turn = None              # tid allowed to run, or None = controller
        self.label = [None] * self.n  # label the thread is paused at
        self.blocked = [False] * self.n
        self.finished = [False] * self.n
        self.error = [None] * self.n
        self.owner = {FOFF: None, FSTR: None, FGET: None}
        self.tids = {}
        self.trace = []
        self.returns = []             # chronological observations of cached-path returns
        self.excs = []
        self.epoch = 0                # number of executed 'cnew' statements
        self.tep = [0] * self.n
        self.cur = [None] * self.n
        self.waitlock = [None] * self.n
        self.utc_results = []
        self.abort = False

    # ---- worker side
    def me(self):
        return self.tids[threading.get_ident()]

    def pause(self, label, blocked=False):
        t = self.me()
        with self.cv:
            self.label[t] = label
            self.blocked[t] = blocked
            self.turn = None
            self.cv.notify_all()
            while self.turn != t:
                if self.abort:
                    raise SystemExit
                self.cv.wait(0.5)
            self.blocked[t] = False

    def tracer(self, frame, event, arg):
        tab = self.table.get(frame.f_code)
        if tab is None:
            return None
        if event == "call":
            return self.tracer
        if event == "line":
            lab = tab.get(frame.f_lineno)
            if lab is not None:
                if lab == "get" or lab == "sdread":
                    pass
                self.pause(lab)
                if lab == "get":
                    self.tep[self.me()] = self.epoch
                elif lab == "cnew":
                    self.epoch += 1
        return self.tracer

    def make_lock(self, f):
        sched = self

        class ILock(object):
            def acquire(self, *a, **k):
                t = sched.me()
                sched.pause("acq")
                while sched.owner[f] is not None:
                    sched.waitlock[t] = f
                    sched.pause("acq", blocked=True)
                sched.waitlock[t] = None
                sched.owner[f] = t
                return True

            def release(self):
                sched.pause("rel")
                sched.owner[f] = None

            def __enter__(self):
                self.acquire()
                return self

            def __exit__(self, *a):
                self.release()
                return False

            def locked(self):
                return sched.owner[f] is not None
        return ILock()

    def worker(self, t):
        self.tids[threading.get_ident()] = t
        try:
            with self.cv:
                while self.turn != t:
                    if self.abort:
                        return
                    self.cv.wait(0.5)
            # first grant consumed below: we model it as already standing at 'start'
            first = True
            for op in self.progs[t]:
                if not first:
                    self.pause("start")
                first = False
                self.cur[t] = op
                kind = op[0]
                if kind == "drop":
                    self.refs.pop(op[1], None)
                    continue
                if kind == "instance":
                    self.refs[op[3]] = self.ops.instance(op)
                    continue
                res, exc = None, None
                sys.settrace(self.tracer)
                try:
                    if kind == "call":
                        res = self.ops.call(op)
                    elif kind == "utc":
                        res = self.w.utc_cls()
                    elif kind == "clear":
                        self.w.gettz.cache_clear()
                    elif kind == "size":
                        self.w.gettz.set_cache_size(op[1])
                except SystemExit:
                    raise
                except BaseException as ex:
                    exc = ex
                finally:
                    sys.settrace(None)
                self.pause("deliver")
                if exc is not None:
                    self.excs.append((t, op, type(exc).__name__))
                    exc = None
                elif kind == "call":
                    slot = op[4]
                    held = [self.ser.of(o) for o in self.refs.values()]
                    cacheable = self.w.is_cached_path(op, res)
                    if res is None:
                        self.refs.pop(slot, None)
                    else:
                        self.refs[slot] = res
                    want = self.w.entries[op[5]].get("answers")
                    if res is not None and want is not None:
                        try:
                            got = zone_answers(res)
                        except Exception as ex:
                            got = "raised %s" % type(ex).__name__
                        if got != want:
                            self.excs.append((t, op, "half-built zone: answers differ from a fresh instance()"))
                    if cacheable:
                        self.returns.append((op[1], op[2], self.ser.of(res), self.tep[t], held))
                        if not isinstance(res, self.w.tzinfo_cls):
                            self.excs.append((t, op, "returned %s instead of a zone" % type(res).__name__))
                elif kind == "utc":
                    self.refs[op[1]] = res
                    self.utc_results.append(self.ser.of(res) if isinstance(res, self.w.tzinfo_cls) else -1)
                res = None
            self.cur[t] = None
        except SystemExit:
            pass
        except BaseException as ex:  # harness failure inside a worker
            self.error[t] = ex
        finally:
            with self.cv:
                self.finished[t] = True
                self.label[t] = "end"
                self.turn = None
                self.cv.notify_all()

    # ---- controller side
    def grant(self, t):
        """let thread t execute one scheduling point; returns the label it stood at"""
        lab = self.label[t]
        with self.cv:
            self.turn = t
            self.cv.notify_all()
            deadline = time.time() + self.timeout
            while self.turn is not None:
                left = deadline - time.time()
                if left <= 0:
                    raise Hang("thread %d did not reach a scheduling point within %.0fs" % (t, self.timeout))
                self.cv.wait(left)
        return lab

    def run(self, pick, max_steps=4000):
        """pick(sched) -> tid of an unfinished thread (or None to stop)."""
        self.w.set_locks(self.make_lock)
        threads = [threading.Thread(target=self.worker, args=(t,), daemon=True) for t in range(self.n)]
        try:
            for th in threads:
                th.start()
            for t in range(self.n):
                self.label[t] = "start" if self.progs[t] else "end"
            steps = 0
            while steps < max_steps:
                t = pick(self)
                if t is None:
                    break
                if not self.progs[t] or self.finished[t]:
                    # model: a finished thread's step is a no-op; never scheduled by pick
                    continue
                lab = self.grant(t)
                gc.collect()
                blocked = self.blocked[t]
                self.trace.append({"tid": t, "label": lab, "blocked": 1 if blocked else 0,
                                   "snap": self.w.snapshot(self.ser, self.refs,
                                                           lambda f: -1 if self.owner[f] is None else self.owner[f])})
                steps += 1
                errs = [e for e in self.error if e is not None]
                if errs:
                    raise errs[0]
        finally:
            self.abort = True
            with self.cv:
                self.cv.notify_all()
            for th in threads:
                th.join(2.0)
            self.w.restore_locks()
        return self.trace

    def runnable(self, t):
        """unfinished and not waiting for a lock that is still held"""
        if not self.progs[t] or self.finished[t]:
            return False
        return not self.blocked[t] or self.owner[self.waitlock[t]] is None

    def unfinished(self):
        return [t for t in range(self.n) if self.progs[t] and not self.finished[t]]


# ----------------------------------------------------------------------------------------
# sequential execution (no scheduler, the real lock objects)

def run_sequential(world, prog):
    """-> list of snapshots after every operation, observed returns, exceptions"""
    ser = Serials()
    refs = {}
    ops = Ops(world)
    snaps, returns, excs = [], [], []
    utc_results = []
    epoch = 0
    for op in prog:
        kind = op[0]
        res = None
        stuck = [f for f in (FOFF, FSTR, FGET) if getattr(*world.lock_attr(f)).locked()]
        if stuck:
            # a lock left held by an earlier operation: the next call would block forever
            excs.append((op, "lock of factory %r left held (deadlock)" % stuck))
            break
        try:
            if kind == "call":
                res = ops.call(op)
                held = [ser.of(o) for o in refs.values()]
                if res is None:
                    refs.pop(op[4], None)
                else:
                    refs[op[4]] = res
                want = world.entries[op[5]].get("answers")
                if res is not None and want is not None:
                    try:
                        got = zone_answers(res)
                    except Exception as ex:
                        got = "raised %s" % type(ex).__name__
                    if got != want:
                        excs.append((op, "half-built zone: answers differ from a fresh instance()"))
                if world.is_cached_path(op, res):
                    returns.append((op[1], op[2], ser.of(res), epoch, held))
                    if not isinstance(res, world.tzinfo_cls):
                        excs.append((op, "returned %s instead of a zone" % type(res).__name__))
            elif kind == "instance":
                refs[op[3]] = ops.instance(op)
            elif kind == "utc":
                refs[op[1]] = world.utc_cls()
                utc_results.append(refs[op[1]] is world.tz.UTC and isinstance(refs[op[1]], world.utc_cls))
            elif kind == "drop":
                refs.pop(op[1], None)
            elif kind == "clear":
                world.gettz.cache_clear()
                epoch += 1
            elif kind == "size":
                world.gettz.set_cache_size(op[1])
        except Exception as ex:
            excs.append((op, type(ex).__name__))
        res = None
        gc.collect()
        locked = []
        for f in (FOFF, FSTR, FGET):
            o, a = world.lock_attr(f)
            locked.append(getattr(o, a).locked())
        snaps.append(world.snapshot(ser, refs, lambda f: 0 if locked[f] else -1))
    if not all(utc_results):
        excs.append((("utc", -1), "tzutc() is not tz.UTC"))
    return snaps, returns, excs
