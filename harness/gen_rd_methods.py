#!/usr/bin/env python3
"""Fail-closed translator:  /repo/src/dateutil/relativedelta.py, _common.py  ->  coq/gen/RdMethodsGen.v

Translates, from the Python AST of the current source, the straight-line integer methods
  relativedelta._fix, _set_months, __neg__, __abs__, __bool__ (+ the alias __nonzero__), __eq__,
  __ne__, __hash__, __add__ / __sub__ (relativedelta operand), __add__ (timedelta operand), __mul__ (integer factor), module function
  _sign, normalized() (integer fields), the keyword path of __init__ before `yday = 0`, and
  _common.weekday.__init__ / __call__ / __eq__ / __hash__
into Gallina definitions gen_* over coq/rd/RdGenBase.v (`obj` = one field per instance attribute;
attribute writes on self thread a state; every method returns `gres`, GErr = AttributeError from
reading .weekday / .n of None).  coq/rd/RdGenThm.v proves gen_* = the hand model for all inputs.

ACCEPTED SUBSET (anything else raises TranslateError; the method is then NOT defined in the output,
a `TRANSLATE-ERROR` comment is written instead, coq/rd/RdGenThm.v stops compiling and check_C16
reports a broken C16_gen_* obligation -- only C16 depends on the output, so only C16 fails):
 statements
   docstring; `x = e`; `a, b = e1, e2`; `d, m = divmod(e, <nonzero int literal>)`;
   `self.f = e`; `self.f += e`; `self.f -= e`; `self._set_months(e)`;
   `if c: ... [elif ...] [else: ...]` (with or without `return` inside; variables assigned in only
   one arm and not defined before are dropped after the `if`); `return e`;
   `return self.__class__(kw=e, ...)` (keywords = instance attributes, no positional arguments)
   -> gen_init = "assign the fields, then _fix";  `return hash((e, ...))` -> the tuple itself;
   the guards `if not isinstance(other, relativedelta): return NotImplemented` (dropped: the operand
   is a relativedelta), `if isinstance(other, relativedelta): return ...` as first statement of
   __add__ (only that branch is translated), `try: f = float(other) / except TypeError: return
   NotImplemented` of __mul__ (f = other, an integer), `try: ... except AttributeError: return False`
   of weekday.__eq__ (the operand is a weekday object).
 expressions
   int literals, None, True, False, locals, `self.f` / `other.f`, `x.weekday.weekday` / `x.weekday.n`
   and `self.__eq__(other)` (only where evaluated unconditionally; hoisted into a gbind), + - * on ints, unary -, abs(e),
   int(e) and float(e) on ints (identity: exact below 2^53), _sign(e), comparisons == != < <= > >=
   on ints, == != on int-or-None, `is None` / `is not None`, and / or / not with Python truthiness
   (ints: != 0; None: false; weekday objects: always true -- checked: class weekday defines no
   __bool__/__len__), value-returning `a or b` (int, or int-or-None with an int), `a if c else b`,
   tuples.
Second reading (gen_fix_q): the same source of _fix with day/hour/minute/second/microsecond values that
 are exact rationals n / D (floats idealised): such a value is its numerator n (type `scaled`), an int k
 meeting it is k * D, `v > c` is `c * D < n`, divmod(v, c) = (n / (c*D), n mod (c*D)), _sign(v) = sign of n;
 gen_normalized_q reads normalized() the same way: int(v) = Z.quot n D, round(v, k) = v (IDEALISED: exact
 only where the value has at most k decimals), round(v) = nearest integer, ties to even.
DOMAIN of the integer reading (mirrored by hypotheses of the C16_gen_* theorems, coq/rd/RdAlgBound.v):
 `_sign(x)` = int(copysign(1, x)) is read as -1 / +1; the code raises OverflowError for |x| >= 2^1024
 (float_range); `float(other)` and `int(field * f)` in __mul__ are read as the exact integer product, which is
 what the code computes only while other and every product are below 2^53 in absolute value (mul_exact);
 int()/round() in normalized() likewise.  Outside these bounds the generated definitions describe an IDEALISED
 relativedelta over unbounded Python ints, not the code (check_C16 exercises both sides).
Semantics: Python ints are Coq Z; divmod/ // / % are Z.div / Z.modulo (floor, sign of divisor).
"""
import ast
import os
import sys


class TranslateError(Exception):
    pass


# ---------------------------------------------------------------- types
INT, BOOL, NONE, WD = "int", "bool", "none", "wd"
RAT, WDARG = "rat", "wdarg"
SC = "scaled"      # rational reading of a float-valued field: the numerator over the common denominator v_D
SC_FIELDS = ("days", "hours", "minutes", "seconds", "microseconds")      # an exact rational argument (float / Fraction); the weekday= argument


def OPT(t):
    return ("opt", t)


def TUP(ts):
    return ("tup", tuple(ts))


def is_opt(t):
    return isinstance(t, tuple) and t[0] == "opt"


REL = ["years", "months", "days", "leapdays", "hours", "minutes", "seconds", "microseconds"]
ABS = ["year", "month", "day", "hour", "minute", "second", "microsecond"]
RD_FIELDS = {f: INT for f in REL}
RD_FIELDS.update({f: OPT(INT) for f in ABS})
RD_FIELDS["weekday"] = OPT(WD)
RD_FIELDS["_has_time"] = INT
OBJ_ORDER = REL + ABS + ["weekday", "_has_time"]
WD_FIELDS = {"weekday": INT, "n": OPT(INT)}


def coqf(attr):
    return "o_" + attr.lstrip("_")


def unify(a, b):
    if a == b:
        return a
    if a == NONE and is_opt(b):
        return b
    if b == NONE and is_opt(a):
        return a
    if a == NONE:
        return OPT(b)
    if b == NONE:
        return OPT(a)
    if is_opt(a) and a[1] == b:
        return a
    if is_opt(b) and b[1] == a:
        return b
    raise TranslateError("cannot unify types %r and %r" % (a, b))


def coerce(term, t, to):
    if t == to:
        return term
    if t == WDARG and to == OPT(WD):
        return "(wdarg_obj %s)" % term      # the weekday argument stored as given (None or a weekday object)
    if is_opt(to):
        if t == NONE:
            return "None"
        if t == to[1]:
            return "(Some %s)" % term
    raise TranslateError("cannot coerce %r to %r" % (t, to))


def lit(n):
    return str(n) if n >= 0 else "(%d)" % n


# ---------------------------------------------------------------- expressions
class Ctx:
    """translation context of one method"""

    def __init__(self, objs, types, methods):
        self.objs = dict(objs)        # python name -> "rd" | "wdobj"
        self.types = dict(types)      # local name -> type
        self.methods = methods        # names of already generated gen_* helpers
        self.hoisted = {}             # id(ast node) -> (tmp, type)
        self.ntmp = 0
        self.ok, self.bind = "GOk", "gbind"     # result type: gres (AttributeError) or res (ValueError/IndexError)
        self.relaxed_int = False      # int(x) on an int-or-None x (only inside the no-effect warn guard)
        self.scaled = False           # rational reading: day..microsecond fields are numerators over v_D

    def copy(self):
        c = Ctx(self.objs, self.types, self.methods)
        c.hoisted = self.hoisted
        c.ntmp = self.ntmp
        c.ok, c.bind, c.relaxed_int, c.scaled = self.ok, self.bind, self.relaxed_int, self.scaled
        return c


def deref_node(e, cx):
    """x.weekday.weekday / x.weekday.n with x a relativedelta -> (obj name, attr) else None"""
    if (isinstance(e, ast.Attribute) and e.attr in ("weekday", "n") and isinstance(e.value, ast.Attribute)
            and e.value.attr == "weekday" and isinstance(e.value.value, ast.Name)
            and cx.objs.get(e.value.value.id) == "rd"):
        return e.value.value.id, e.attr
    return None


def eq_call_node(e, cx):
    """self.__eq__(other) with both relativedeltas (used by __ne__)"""
    return (isinstance(e, ast.Call) and isinstance(e.func, ast.Attribute) and e.func.attr == "__eq__"
            and isinstance(e.func.value, ast.Name) and cx.objs.get(e.func.value.id) == "rd"
            and len(e.args) == 1 and not e.keywords and isinstance(e.args[0], ast.Name)
            and cx.objs.get(e.args[0].id) == "rd" and "gen_eq" in cx.methods)


def weekdays_subscript(e, cx):
    """weekdays[weekday] with the module tuple `weekdays` and the weekday= argument"""
    return (isinstance(e, ast.Subscript) and isinstance(e.value, ast.Name) and e.value.id == "weekdays"
            and "weekdays" in cx.methods and isinstance(e.slice, ast.Name) and cx.types.get(e.slice.id) == WDARG
            and cx.bind == "bind")


def find_derefs(e, cx, out, conditional=False):
    """collect weekday dereferences (and calls of translated methods) in evaluation positions that
    are always evaluated"""
    d = deref_node(e, cx)
    if d is None and (eq_call_node(e, cx) or weekdays_subscript(e, cx)):
        d = True
    if d is not None:
        if conditional:
            raise TranslateError("weekday attribute read in a conditionally evaluated position")
        out.append(e)
        return
    if isinstance(e, ast.BoolOp):
        for i, v in enumerate(e.values):
            find_derefs(v, cx, out, conditional or i > 0)
        return
    if isinstance(e, ast.IfExp):
        find_derefs(e.test, cx, out, conditional)
        find_derefs(e.body, cx, out, True)
        find_derefs(e.orelse, cx, out, True)
        return
    if isinstance(e, ast.Compare):
        find_derefs(e.left, cx, out, conditional)
        for i, c in enumerate(e.comparators):
            find_derefs(c, cx, out, conditional or i > 0)
        return
    for ch in ast.iter_child_nodes(e):
        if isinstance(ch, ast.expr):
            find_derefs(ch, cx, out, conditional)


def with_hoists(exprs, cx, body):
    """emit gbinds for the weekday dereferences of `exprs`, then body()"""
    nodes = []
    for e in exprs:
        find_derefs(e, cx, nodes)
    pre = []
    for n in nodes:
        if eq_call_node(n, cx):
            cx.ntmp += 1
            tmp = "t%d_eq" % cx.ntmp
            cx.hoisted[id(n)] = (tmp, BOOL)
            pre.append("gbind (gen_eq v_%s v_%s) (fun %s =>\n" % (n.func.value.id, n.args[0].id, tmp))
            continue
        if weekdays_subscript(n, cx):
            cx.ntmp += 1
            tmp = "t%d_wd" % cx.ntmp
            cx.hoisted[id(n)] = (tmp, WD)
            pre.append("bind (weekdays_getitem (wdarg_int v_%s)) (fun %s =>\n" % (n.slice.id, tmp))
            continue
        obj, attr = deref_node(n, cx)
        cx.ntmp += 1
        tmp = "t%d_%s" % (cx.ntmp, attr)
        cx.hoisted[id(n)] = (tmp, INT if attr == "weekday" else OPT(INT))
        fn = "wd_weekday" if attr == "weekday" else "wd_n"
        pre.append("gbind (%s (o_weekday v_%s)) (fun %s =>\n" % (fn, obj, tmp))
    return "".join(pre), ")" * len(pre)


CMP = {ast.Lt: ("<?", False), ast.LtE: ("<=?", False), ast.Gt: ("<?", True), ast.GtE: ("<=?", True)}


def val(e, cx):
    """-> (coq term, type)"""
    if id(e) in cx.hoisted:
        return cx.hoisted[id(e)]
    if deref_node(e, cx) is not None:
        raise TranslateError("weekday attribute read was not hoisted")
    if isinstance(e, ast.Constant):
        if e.value is None:
            return "tt", NONE          # the term of a None-typed value is never used (see coerce)
        if e.value is True:
            return "true", BOOL
        if e.value is False:
            return "false", BOOL
        if isinstance(e.value, int):
            return lit(e.value), INT
        if isinstance(e.value, float) and e.value.is_integer() and abs(e.value) < 2 ** 53:
            return lit(int(e.value)), INT      # e.g. 1e6: exact in the integer reading of normalized()
        raise TranslateError("unsupported constant %r" % (e.value,))
    if isinstance(e, ast.Name):
        if e.id in cx.types:
            return "v_" + e.id, cx.types[e.id]
        if cx.objs.get(e.id) == "wdobj":
            return "v_" + e.id, WD
        raise TranslateError("unknown name %s" % e.id)
    if isinstance(e, ast.Attribute) and isinstance(e.value, ast.Name) and e.value.id in cx.objs:
        kind = cx.objs[e.value.id]
        if kind == "rd":
            if e.attr not in RD_FIELDS:
                raise TranslateError("unknown relativedelta attribute %s" % e.attr)
            ft = SC if (cx.scaled and e.attr in SC_FIELDS) else RD_FIELDS[e.attr]
            return "(%s v_%s)" % (coqf(e.attr), e.value.id), ft
        if kind == "td":
            if e.attr not in ("days", "seconds", "microseconds"):
                raise TranslateError("unknown timedelta attribute %s" % e.attr)
            return "(td_%s v_%s)" % (e.attr, e.value.id), INT
        if e.attr not in WD_FIELDS:
            raise TranslateError("unknown weekday attribute %s" % e.attr)
        return "(%s v_%s)" % ("fst" if e.attr == "weekday" else "snd", e.value.id), WD_FIELDS[e.attr]
    if isinstance(e, ast.BinOp) and type(e.op) in (ast.Add, ast.Sub, ast.Mult):
        (a, ta), (b, tb) = val(e.left, cx), val(e.right, cx)
        op = {ast.Add: "+", ast.Sub: "-", ast.Mult: "*"}[type(e.op)]
        if SC in (ta, tb) and {ta, tb} <= {SC, INT}:
            if isinstance(e.op, ast.Mult):
                if ta == SC and tb == SC:
                    raise TranslateError("product of two float-valued quantities")
                return "(%s * %s)" % (a, b), SC                  # (n/D) * k = (n*k)/D
            return "(%s %s %s)" % (to_sc(a, ta), op, to_sc(b, tb)), SC
        if ta != INT or tb != INT:
            raise TranslateError("arithmetic on non-int")
        return "(%s %s %s)" % (a, op, b), INT
    if isinstance(e, ast.UnaryOp) and isinstance(e.op, ast.USub):
        a, ta = val(e.operand, cx)
        if ta not in (INT, SC):
            raise TranslateError("negation of non-int")
        return "(- %s)" % a, ta
    if isinstance(e, ast.UnaryOp) and isinstance(e.op, ast.Not):
        return cond(e, cx), BOOL
    if isinstance(e, ast.Compare):
        return cond(e, cx), BOOL
    if isinstance(e, ast.BoolOp):
        vs = [val(v, cx) for v in e.values]
        if all(t == BOOL for _, t in vs):
            return cond(e, cx), BOOL
        if isinstance(e.op, ast.Or) and len(vs) == 2:
            (a, ta), (b, tb) = vs
            if ta == INT and tb == INT:
                return "(or_zz %s %s)" % (a, b), INT
            if ta == OPT(INT) and tb == INT:
                return "(or_ozz %s %s)" % (a, b), INT
        raise TranslateError("unsupported value-returning and/or")
    if isinstance(e, ast.IfExp):
        c = cond(e.test, cx)
        (a, ta), (b, tb) = val(e.body, cx), val(e.orelse, cx)
        t = unify(ta, tb)
        return "(if %s then %s else %s)" % (c, coerce(a, ta, t), coerce(b, tb, t)), t
    if isinstance(e, ast.Tuple):
        vs = [val(v, cx) for v in e.elts]
        if len(vs) < 2:
            raise TranslateError("tuple with fewer than two elements")
        return "(" + ", ".join(a for a, _ in vs) + ")", TUP([t for _, t in vs])
    if (isinstance(e, ast.Call) and isinstance(e.func, ast.Name) and e.func.id == "round" and not e.keywords
            and len(e.args) in (1, 2)):
        a, ta = val(e.args[0], cx)
        if ta == SC and len(e.args) == 1:
            return "(round_half_even %s v_D)" % a, INT        # round(n/D): nearest integer, ties to even
        if ta == SC and isinstance(e.args[1], ast.Constant) and isinstance(e.args[1].value, int):
            return a, SC       # round(x, k) to k decimals: IDEALISED as the identity (see RdAlgQModel.v)
        if ta == INT and (len(e.args) == 1 or (isinstance(e.args[1], ast.Constant) and isinstance(e.args[1].value, int)
                                                 and not isinstance(e.args[1].value, bool) and e.args[1].value >= 0)):
            return a, INT                     # round(i) and round(i, k >= 0) of an integer are that integer
        raise TranslateError("unsupported round(...)")
    if isinstance(e, ast.Call) and isinstance(e.func, ast.Name) and not e.keywords and len(e.args) == 1:
        a, ta = val(e.args[0], cx)
        if e.func.id == "abs" and ta in (INT, SC):
            return "(Z.abs %s)" % a, ta
        if e.func.id == "_sign" and ta == SC and "gen_sign" in cx.methods:
            return "(gen_sign %s)" % a, INT          # the sign of n/D (D > 0) is the sign of n
        if e.func.id in ("int", "float") and ta == INT:
            return a, INT
        if e.func.id == "int" and ta == SC:
            return "(Z.quot %s v_D)" % a, INT               # int() truncates toward zero
        if e.func.id == "int" and ta == RAT:
            return "(rat_int %s)" % a, INT
        if e.func.id == "int" and ta == OPT(INT) and cx.relaxed_int:
            return a, OPT(INT)
        if e.func.id == "_sign" and ta == INT and "gen_sign" in cx.methods:
            return "(gen_sign %s)" % a, INT
    raise TranslateError("unsupported expression: " + ast.dump(e)[:160])


def to_sc(term, t):
    """an integer as a numerator over v_D"""
    return term if t == SC else "(%s * v_D)" % term


def truth(term, t):
    if t == BOOL:
        return term
    if t in (INT, SC):
        return "(truth_z %s)" % term
    if t == OPT(INT):
        return "(truth_oz %s)" % term
    if is_opt(t):
        return "(truth_opt %s)" % term      # weekday objects / tuples are always true
    if t == NONE:
        return "false"
    raise TranslateError("truthiness of %r" % (t,))


def cond(e, cx):
    """-> coq bool term (Python truthiness of e)"""
    if isinstance(e, ast.Compare):
        parts = []
        left = e.left
        for op, right in zip(e.ops, e.comparators):
            (a, ta), (b, tb) = val(left, cx), val(right, cx)
            if isinstance(op, (ast.Is, ast.IsNot)):
                if tb != NONE or not (is_opt(ta) or ta in (INT, RAT)):
                    raise TranslateError("`is` is supported only as `<value> is [not] None`")
                p = "(truth_opt %s)" % a if is_opt(ta) else "true"
                parts.append(p if isinstance(op, ast.IsNot) else "(negb %s)" % p)
            elif isinstance(op, (ast.Eq, ast.NotEq)):
                if ta == INT and tb == INT:
                    p = "(%s =? %s)" % (a, b)
                elif ta == RAT and tb == INT:
                    p = "(negb (rat_ne_int %s %s))" % (a, b)
                elif ta == INT and tb == RAT:
                    p = "(negb (rat_ne_int %s %s))" % (b, a)
                elif {ta, tb} <= {INT, OPT(INT), NONE}:
                    p = "(ozeqb %s %s)" % (coerce(a, ta, OPT(INT)), coerce(b, tb, OPT(INT)))
                else:
                    raise TranslateError("== on types %r, %r" % (ta, tb))
                parts.append(p if isinstance(op, ast.Eq) else "(negb %s)" % p)
            elif type(op) in CMP:
                if SC in (ta, tb) and {ta, tb} <= {SC, INT}:
                    a, b, ta, tb = to_sc(a, ta), to_sc(b, tb), INT, INT
                if ta != INT or tb != INT:
                    raise TranslateError("ordering comparison on non-int")
                sym, flip = CMP[type(op)]
                parts.append("(%s %s %s)" % ((b, sym, a) if flip else (a, sym, b)))
            else:
                raise TranslateError("unsupported comparison operator")
            left = right
        return parts[0] if len(parts) == 1 else "(" + " && ".join(parts) + ")"
    if isinstance(e, ast.BoolOp):
        op = " && " if isinstance(e.op, ast.And) else " || "
        return "(" + op.join(cond(v, cx) for v in e.values) + ")"
    if isinstance(e, ast.UnaryOp) and isinstance(e.op, ast.Not):
        return "(negb %s)" % cond(e.operand, cx)
    if (isinstance(e, ast.Call) and isinstance(e.func, ast.Name) and e.func.id == "any" and len(e.args) == 1
            and not e.keywords and isinstance(e.args[0], ast.GeneratorExp)):
        g = e.args[0]
        if (len(g.generators) != 1 or g.generators[0].ifs or g.generators[0].is_async
                or not isinstance(g.generators[0].target, ast.Name) or not isinstance(g.generators[0].iter, ast.Tuple)
                or not all(isinstance(x, ast.Name) and x.id in cx.types for x in g.generators[0].iter.elts)):
            raise TranslateError("unsupported any(...) form")
        var = g.generators[0].target.id
        parts = []
        for x in g.generators[0].iter.elts:       # unrolled over the literal tuple of names
            c2 = cx.copy()
            c2.types[var] = cx.types[x.id]
            parts.append("(let v_%s := v_%s in %s)" % (var, x.id, cond(g.elt, c2)))
        return "(" + " || ".join(parts) + ")" if parts else "false"
    if (isinstance(e, ast.Call) and isinstance(e.func, ast.Name) and e.func.id == "isinstance" and len(e.args) == 2
            and not e.keywords and isinstance(e.args[0], ast.Name) and cx.types.get(e.args[0].id) == WDARG
            and isinstance(e.args[1], ast.Name) and e.args[1].id == "integer_types" and "integer_types" in cx.methods):
        return "(wdarg_is_int v_%s)" % e.args[0].id
    a, t = val(e, cx)
    return truth(a, t)


# ---------------------------------------------------------------- statements
def contains_return(stmts):
    return any(isinstance(n, (ast.Return, ast.Raise)) for s in stmts for n in ast.walk(s))


def is_warn_guard(s):
    """if <test>: warn(...)   -- no effect on the object"""
    return (isinstance(s, ast.If) and not s.orelse and len(s.body) == 1 and isinstance(s.body[0], ast.Expr)
            and isinstance(s.body[0].value, ast.Call) and isinstance(s.body[0].value.func, ast.Name)
            and s.body[0].value.func.id == "warn")


def assigned(stmts):
    out = []

    def add(v):
        if v not in out:
            out.append(v)
    for s in stmts:
        if isinstance(s, ast.Assign):
            for t in s.targets:
                for n in (t.elts if isinstance(t, ast.Tuple) else [t]):
                    if isinstance(n, ast.Name):
                        add(n.id)
                    elif isinstance(n, ast.Attribute) and isinstance(n.value, ast.Name):
                        add(n.value.id)
                    else:
                        raise TranslateError("unsupported assignment target")
        elif isinstance(s, ast.AugAssign):
            t = s.target
            if isinstance(t, ast.Name):
                add(t.id)
            elif isinstance(t, ast.Attribute) and isinstance(t.value, ast.Name):
                add(t.value.id)
            else:
                raise TranslateError("unsupported assignment target")
        elif isinstance(s, ast.If):
            for v in assigned(s.body) + assigned(s.orelse):
                add(v)
        elif isinstance(s, ast.Expr) and isinstance(s.value, ast.Call):
            f = s.value.func
            if isinstance(f, ast.Attribute) and isinstance(f.value, ast.Name):
                add(f.value.id)
    return out


def is_not_isinstance_guard(s):
    """if not isinstance(other, relativedelta): return NotImplemented"""
    return (isinstance(s, ast.If) and not s.orelse and len(s.body) == 1 and is_ret_notimpl(s.body[0])
            and isinstance(s.test, ast.UnaryOp) and isinstance(s.test.op, ast.Not)
            and is_isinstance_rd(s.test.operand))


def is_isinstance_rd(e):
    return (isinstance(e, ast.Call) and isinstance(e.func, ast.Name) and e.func.id == "isinstance"
            and len(e.args) == 2 and not e.keywords and isinstance(e.args[0], ast.Name)
            and e.args[0].id == "other" and isinstance(e.args[1], ast.Name) and e.args[1].id == "relativedelta")


def is_ret_notimpl(s):
    return isinstance(s, ast.Return) and isinstance(s.value, ast.Name) and s.value.id == "NotImplemented"


def ret_expr(e, cx):
    """the value of a `return e`: -> (prefix, coq gres term, suffix, type)"""
    # self.__class__(kw=...)
    if (isinstance(e, ast.Call) and isinstance(e.func, ast.Attribute) and e.func.attr == "__class__"
            and isinstance(e.func.value, ast.Name) and e.func.value.id == "self" and cx.objs.get("self") == "rd"):
        if e.args or any(k.arg is None for k in e.keywords):
            raise TranslateError("constructor call with positional / ** arguments")
        if ("gen_init_q" if cx.scaled else "gen_init") not in cx.methods:
            raise TranslateError("constructor call but gen_init (_fix + the shape of __init__) is not available")
        kws = {}
        for k in e.keywords:
            if k.arg not in RD_FIELDS or k.arg == "_has_time" or k.arg in kws:
                raise TranslateError("unsupported constructor keyword %s" % k.arg)
            kws[k.arg] = k.value
        pre, suf = with_hoists(list(kws.values()), cx, None)
        args = []
        for f in OBJ_ORDER:
            if f == "_has_time":
                args.append("0")
            elif f in kws and cx.scaled and f in SC_FIELDS:
                a, t = val(kws[f], cx)
                if t not in (INT, SC):
                    raise TranslateError("constructor keyword %s is not a number" % f)
                args.append(to_sc(a, t))
            elif f in kws:
                a, t = val(kws[f], cx)
                args.append(coerce(a, t, RD_FIELDS[f]))
            else:
                args.append("0" if RD_FIELDS[f] == INT else "None")
        return pre, "%s (mkobj %s)" % ("gen_init_q v_D" if cx.scaled else "gen_init", " ".join(args)), suf, "obj"
    # self.__class__(weekday, n) inside class weekday
    if (isinstance(e, ast.Call) and isinstance(e.func, ast.Attribute) and e.func.attr == "__class__"
            and isinstance(e.func.value, ast.Name) and e.func.value.id == "self" and cx.objs.get("self") == "wdobj"):
        if len(e.args) != 2 or e.keywords or "gen_wd_init" not in cx.methods:
            raise TranslateError("unsupported weekday constructor call")
        (a, ta), (b, tb) = val(e.args[0], cx), val(e.args[1], cx)
        return "", "gen_wd_init wd_blank %s %s" % (coerce(a, ta, INT), coerce(b, tb, OPT(INT))), "", WD
    # hash((...))
    if (isinstance(e, ast.Call) and isinstance(e.func, ast.Name) and e.func.id == "hash"
            and len(e.args) == 1 and not e.keywords and isinstance(e.args[0], ast.Tuple)):
        pre, suf = with_hoists([e.args[0]], cx, None)
        a, t = val(e.args[0], cx)
        return pre, "%s %s" % (cx.ok, a), suf, t
    pre, suf = with_hoists([e], cx, None)
    a, t = val(e, cx)
    return pre, "%s %s" % (cx.ok, a), suf, t


class Method:
    def __init__(self):
        self.ret_types = []


def block(stmts, cx, k, m, ind=1):
    """Coq text (a gres term, or whatever k produces) for stmts followed by k(cx)"""
    pad = "  " * ind
    if not stmts:
        return pad + k(cx)
    s, rest = stmts[0], stmts[1:]
    nxt = lambda c: block(rest, c, k, m, ind)
    if isinstance(s, ast.Expr) and isinstance(s.value, ast.Constant) and isinstance(s.value.value, str):
        return nxt(cx)
    if isinstance(s, ast.Return):
        if rest:
            raise TranslateError("statements after return")
        if s.value is None:
            raise TranslateError("bare return")
        pre, term, suf, t = ret_expr(s.value, cx)
        m.ret_types.append(t)
        return pad + pre + pad + term + suf
    if is_not_isinstance_guard(s):
        return nxt(cx)
    if isinstance(s, ast.Raise):
        exc = s.exc.func if isinstance(s.exc, ast.Call) else s.exc
        if rest or cx.bind != "bind" or not (isinstance(exc, ast.Name) and exc.id == "ValueError") or s.cause:
            raise TranslateError("unsupported raise")
        return pad + "Err EValue"
    if is_warn_guard(s):
        c2 = cx.copy()
        c2.relaxed_int = True
        cond(s.test, c2)          # must be a translatable, effect-free test; its value does not matter
        return nxt(cx)
    if isinstance(s, ast.Assign):
        if len(s.targets) != 1:
            raise TranslateError("chained assignment")
        tgt = s.targets[0]
        # d, m = divmod(e, c)
        if (isinstance(tgt, ast.Tuple) and isinstance(s.value, ast.Call) and isinstance(s.value.func, ast.Name)
                and s.value.func.id == "divmod"):
            c = s.value
            if (len(tgt.elts) != 2 or not all(isinstance(x, ast.Name) for x in tgt.elts) or len(c.args) != 2
                    or c.keywords or not isinstance(c.args[1], ast.Constant)
                    or not isinstance(c.args[1].value, int) or isinstance(c.args[1].value, bool)
                    or c.args[1].value == 0):
                raise TranslateError("unsupported divmod form")
            pre, suf = with_hoists([c.args[0]], cx, None)
            a, ta = val(c.args[0], cx)
            if ta not in (INT, SC):
                raise TranslateError("divmod of non-int")
            d = lit(c.args[1].value)
            if ta == SC:
                if c.args[1].value < 0:
                    raise TranslateError("divmod of a float-valued quantity by a negative literal")
                d = "(%s * v_D)" % d       # divmod(n/D, c) = (floor(n / (c*D)), (n mod (c*D)) / D)
            c2 = cx.copy()
            c2.types[tgt.elts[0].id] = INT
            c2.types[tgt.elts[1].id] = ta
            return (pad + pre + pad + "let '(v_%s, v_%s) := ((%s / %s), (%s mod %s)) in\n"
                    % (tgt.elts[0].id, tgt.elts[1].id, a, d, a, d) + nxt(c2) + suf)
        # a, b = e1, e2
        if isinstance(tgt, ast.Tuple):
            if (not isinstance(s.value, ast.Tuple) or len(s.value.elts) != len(tgt.elts)
                    or not all(isinstance(x, ast.Name) for x in tgt.elts)):
                raise TranslateError("unsupported tuple assignment")
            pre, suf = with_hoists(list(s.value.elts), cx, None)
            vs = [val(v, cx) for v in s.value.elts]
            c2 = cx.copy()
            for x, (_, t) in zip(tgt.elts, vs):
                c2.types[x.id] = t
            return (pad + pre + pad + "let '(%s) := (%s) in\n"
                    % (", ".join("v_" + x.id for x in tgt.elts), ", ".join(a for a, _ in vs)) + nxt(c2) + suf)
        pre, suf = with_hoists([s.value], cx, None)
        a, t = val(s.value, cx)
        if isinstance(tgt, ast.Name):
            if tgt.id in cx.objs:
                raise TranslateError("assignment to an object name")
            c2 = cx.copy()
            c2.types[tgt.id] = t
            return pad + pre + pad + "let v_%s := %s in\n" % (tgt.id, a) + nxt(c2) + suf
        return pad + pre + pad + field_set(tgt, a, t, cx) + nxt(cx) + suf
    if isinstance(s, ast.AugAssign) and type(s.op) in (ast.Add, ast.Sub):
        pre, suf = with_hoists([s.value], cx, None)
        a, t = val(s.value, cx)
        cur, tc = val(s.target, cx)
        if tc == SC and t in (INT, SC):
            a, t = to_sc(a, t), SC
            new = "(%s %s %s)" % (cur, "+" if isinstance(s.op, ast.Add) else "-", a)
            if isinstance(s.target, ast.Name):
                raise TranslateError("augmented assignment on a float-valued local")
            return pad + pre + pad + field_set(s.target, new, SC, cx) + nxt(cx) + suf
        if t != INT or tc != INT:
            raise TranslateError("augmented assignment on non-int")
        new = "(%s %s %s)" % (cur, "+" if isinstance(s.op, ast.Add) else "-", a)
        if isinstance(s.target, ast.Name):
            return pad + pre + pad + "let v_%s := %s in\n" % (s.target.id, new) + nxt(cx) + suf
        return pad + pre + pad + field_set(s.target, new, INT, cx) + nxt(cx) + suf
    if isinstance(s, ast.Expr) and isinstance(s.value, ast.Call):
        c = s.value
        if (isinstance(c.func, ast.Attribute) and isinstance(c.func.value, ast.Name) and c.func.value.id == "self"
                and cx.objs.get("self") == "rd" and c.func.attr == "_set_months"
                and "gen_set_months" in cx.methods and len(c.args) == 1 and not c.keywords):
            pre, suf = with_hoists([c.args[0]], cx, None)
            a, t = val(c.args[0], cx)
            if t != INT:
                raise TranslateError("_set_months argument is not an int")
            return pad + pre + pad + "gbind (gen_set_months v_self %s) (fun v_self =>\n" % a + nxt(cx) + ")" + suf
        raise TranslateError("unsupported call statement")
    if isinstance(s, ast.Try):
        return try_stmt(s, rest, cx, k, m, ind)
    if isinstance(s, ast.If):
        pre, suf = with_hoists([s.test], cx, None)
        c = cond(s.test, cx)
        if contains_return([s]):
            then_txt = block(s.body, cx.copy(), lambda c2: block(rest, c2, k, m, 0).lstrip(), m, ind + 1)
            else_txt = block(s.orelse, cx.copy(), lambda c2: block(rest, c2, k, m, 0).lstrip(), m, ind + 1)
            return (pad + pre + pad + "if %s then (\n" % c + then_txt + ")\n" + pad + "else (\n" + else_txt + ")" + suf)
        # join: variables surviving the if
        a_body, a_else = assigned(s.body), assigned(s.orelse)
        defined = set(cx.types) | set(cx.objs)
        keep = [v for v in assigned([s]) if (v in a_body and v in a_else) or v in defined]
        if not keep:
            raise TranslateError("if-statement without surviving assignment")
        # first pass: types of the kept variables at the end of each arm
        seen = {}

        def probe(tag):
            def kk(c2):
                seen[tag] = {v: ("obj" if v in c2.objs else c2.types[v]) for v in keep}
                return "probe"
            return kk
        dummy = Method()
        block(s.body, cx.copy(), probe("t"), dummy, 0)
        block(s.orelse, cx.copy(), probe("e"), dummy, 0)
        tys = {v: (seen["t"][v] if seen["t"][v] == "obj" else unify(seen["t"][v], seen["e"][v])) for v in keep}
        monadic = any(deref_node(n, cx) is not None or eq_call_node(n, cx) or weekdays_subscript(n, cx)
                      or (isinstance(n, ast.Expr) and isinstance(n.value, ast.Call))
                      for st in [s] for n in ast.walk(st))

        def tup(c2):
            parts = [("v_" + v) if tys[v] == "obj" else coerce("v_" + v, c2.types[v], tys[v]) for v in keep]
            t = parts[0] if len(parts) == 1 else "(" + ", ".join(parts) + ")"
            return (cx.ok + " " + t) if monadic else t
        then_txt = block(s.body, cx.copy(), tup, m, ind + 2)
        else_txt = block(s.orelse, cx.copy(), tup, m, ind + 2)
        pat = "v_" + keep[0] if len(keep) == 1 else "'(" + ", ".join("v_" + v for v in keep) + ")"
        c2 = cx.copy()
        for v in keep:
            if tys[v] != "obj":
                c2.types[v] = tys[v]
        if monadic:
            return (pad + pre + pad + cx.bind + " (if %s then (\n" % c + then_txt + ")\n" + pad + "  else (\n"
                    + else_txt + ")) (fun %s =>\n" % pat + nxt(c2) + ")" + suf)
        return (pad + pre + pad + "blet (if %s then (\n" % c + then_txt + ")\n" + pad + "  else (\n"
                + else_txt + ")) (fun %s =>\n" % pat + nxt(c2) + ")" + suf)
    raise TranslateError("unsupported statement: " + ast.dump(s)[:160])


def field_set(tgt, term, t, cx):
    if (isinstance(tgt, ast.Attribute) and isinstance(tgt.value, ast.Name) and tgt.value.id == "self"
            and cx.objs.get("self") == "wdobj" and tgt.attr in WD_FIELDS):
        v = coerce(term, t, WD_FIELDS[tgt.attr])
        return "let v_self := %s in\n" % ("(%s, snd v_self)" % v if tgt.attr == "weekday" else "(fst v_self, %s)" % v)
    if not (isinstance(tgt, ast.Attribute) and isinstance(tgt.value, ast.Name) and tgt.value.id == "self"
            and cx.objs.get("self") == "rd"):
        raise TranslateError("unsupported assignment target")
    if tgt.attr not in RD_FIELDS:
        raise TranslateError("assignment to attribute %s is not supported" % tgt.attr)
    ft = RD_FIELDS[tgt.attr]
    if cx.scaled and tgt.attr in SC_FIELDS:
        if t not in (INT, SC):
            raise TranslateError("assignment of a non-number to a float-valued field")
        return "let v_self := set_%s v_self %s in\n" % (coqf(tgt.attr), to_sc(term, t))
    if t == SC:
        raise TranslateError("float-valued quantity stored in an integer field")
    return "let v_self := %s_%s v_self %s in\n" % ("set" if ft == INT else "put", coqf(tgt.attr), coerce(term, t, ft))


def try_stmt(s, rest, cx, k, m, ind):
    if s.orelse or s.finalbody or len(s.handlers) != 1:
        raise TranslateError("unsupported try statement")
    h = s.handlers[0]
    hname = h.type.id if isinstance(h.type, ast.Name) else None
    # try: f = float(other) / except TypeError: return NotImplemented      (integer `other`)
    if (hname == "TypeError" and len(h.body) == 1 and is_ret_notimpl(h.body[0]) and len(s.body) == 1
            and cx.types.get("other") == INT):
        return block(list(s.body) + list(rest), cx, k, m, ind)
    # try: <body> / except AttributeError: return False                    (weekday operand)
    if (hname == "AttributeError" and len(h.body) == 1 and isinstance(h.body[0], ast.Return)
            and isinstance(h.body[0].value, ast.Constant) and h.body[0].value.value is False
            and cx.objs.get("other") == "wdobj"):
        return block(list(s.body) + list(rest), cx, k, m, ind)
    raise TranslateError("unsupported try statement")


# ---------------------------------------------------------------- methods
def find_class(tree, name):
    cls = [n for n in tree.body if isinstance(n, ast.ClassDef) and n.name == name]
    if len(cls) != 1:
        raise TranslateError("class %s not found" % name)
    return cls[0]


def find_def(body, name):
    fs = [n for n in body if isinstance(n, ast.FunctionDef) and n.name == name]
    if len(fs) != 1:
        raise TranslateError("def %s not found (or defined twice)" % name)
    f = fs[0]
    if f.decorator_list or f.args.vararg or f.args.kwarg or f.args.kwonlyargs or f.args.defaults:
        raise TranslateError("unexpected signature / decorator on %s" % name)
    return f


def do_method(fn, params, objs, types, methods, kind, coqname, coqparams, rettype, scaled=False):
    """kind: 'mutator' (returns the state) or 'function'"""
    if [a.arg for a in fn.args.args] != params:
        raise TranslateError("unexpected parameters %r" % [a.arg for a in fn.args.args])
    cx = Ctx(objs, types, methods)
    cx.scaled = scaled
    m = Method()
    if kind == "mutator":
        if contains_return(fn.body):
            raise TranslateError("return inside a mutator")
        k = lambda c: c.ok + " v_self"
    else:
        def k(c):
            raise TranslateError("control reaches the end of the function without return")
    body = block(list(fn.body), cx, k, m, 1)
    for t in m.ret_types:
        if t != rettype[0]:
            raise TranslateError("return type %r, expected %r" % (t, rettype[0]))
    return "Definition %s %s : gres %s :=\n%s.\n" % (coqname, coqparams, rettype[1], body)


def check_init_shape(rd):
    """Frame of __init__ that the composition in coq/rd/RdGenInitThm.v relies on: the defaults of the
    keyword arguments (the operators' constructor calls omit weeks / yearday / nlyearday / dt1 / dt2),
    `if dt1 and dt2: <two-date branch> else: <keyword branch>`, then `self._fix()` as last statement.
    The keyword branch itself is TRANSLATED (gen_init_head here, gen_init_yearday by gen_rd_add.py);
    that gen_init (= _fix on the passed fields) is what the whole path computes for an operator's
    call is a theorem (C16_gen_init_is_kw), no longer an assumption."""
    fn = [n for n in rd.body if isinstance(n, ast.FunctionDef) and n.name == "__init__"]
    if len(fn) != 1:
        raise TranslateError("__init__ not found")
    fn = fn[0]
    names = [a.arg for a in fn.args.args]
    defaults = dict(zip(names[len(names) - len(fn.args.defaults):], fn.args.defaults))
    for f in REL + ["weeks"]:
        d = defaults.get(f)
        if not (isinstance(d, ast.Constant) and d.value == 0 and not isinstance(d.value, bool)):
            raise TranslateError("__init__: default of %s is not 0" % f)
    for f in ABS + ["weekday", "yearday", "nlyearday", "dt1", "dt2"]:
        d = defaults.get(f)
        if not (isinstance(d, ast.Constant) and d.value is None):
            raise TranslateError("__init__: default of %s is not None" % f)
    body = [s for s in fn.body if not (isinstance(s, ast.Expr) and isinstance(s.value, ast.Constant))]
    if len(body) != 2 or not isinstance(body[0], ast.If):
        raise TranslateError("__init__: expected `if dt1 and dt2: ... else: ...` followed by self._fix()")
    t = body[0].test
    if ast.dump(t) != ast.dump(ast.parse("dt1 and dt2", mode="eval").body):
        raise TranslateError("__init__: first test is not `dt1 and dt2`")
    if ast.dump(body[1]) != ast.dump(ast.parse("self._fix()").body[0]):
        raise TranslateError("__init__: last statement is not self._fix()")


HASH_T = TUP([OPT(TUP([INT, INT]))] + [INT] * 8 + [OPT(INT)] * 7)
HASH_COQ = "(option (Z * Z) * Z * Z * Z * Z * Z * Z * Z * Z * option Z * option Z * option Z * option Z " \
           "* option Z * option Z * option Z)"


def translate(rd_src, common_src):
    rd_tree, cm_tree = ast.parse(rd_src), ast.parse(common_src)
    out = ["(* GENERATED by harness/gen_rd_methods.py from /repo/src/dateutil/relativedelta.py and _common.py"
           " -- do not edit *)",
           "From Coq Require Import ZArith Bool.",
           "From V Require Import base.Cal rd.RdBase rd.RdModel rd.RdAlgQModel rd.RdGenBase.",
           "Open Scope Z_scope.", ""]
    errors = []
    methods = set()
    rd = find_class(rd_tree, "relativedelta")
    wdc = find_class(cm_tree, "weekday")

    def attempt(name, f):
        try:
            out.append(f())
            methods.add(name)
        except TranslateError as ex:
            errors.append((name, str(ex)))
            out.append("(* TRANSLATE-ERROR %s: %s *)\n" % (name, str(ex).replace("*)", "* )")))

    # module-level _sign(x): int(copysign(1, x))  ->  -1 for x < 0, +1 otherwise (x an int)
    def sign():
        fn = find_def(rd_tree.body, "_sign")
        b = [s for s in fn.body if not (isinstance(s, ast.Expr) and isinstance(s.value, ast.Constant))]
        ok = (len(fn.args.args) == 1 and len(b) == 1 and isinstance(b[0], ast.Return)
              and ast.dump(b[0].value) == ast.dump(ast.parse("int(copysign(1, %s))" % fn.args.args[0].arg,
                                                             mode="eval").body))
        imp = any(isinstance(n, ast.ImportFrom) and n.module == "math"
                  and any(a.name == "copysign" and a.asname is None for a in n.names) for n in rd_tree.body)
        if not ok or not imp:
            raise TranslateError("_sign is not `return int(copysign(1, x))` with math.copysign")
        return "Definition gen_sign (v_x : Z) : Z := if v_x <? 0 then (-1) else 1.\n"
    attempt("gen_sign", sign)

    # truthiness of weekday objects: the class must not define __bool__ / __len__ / __nonzero__
    for n in wdc.body:
        if isinstance(n, ast.FunctionDef) and n.name in ("__bool__", "__len__", "__nonzero__"):
            errors.append(("weekday", "class weekday defines %s" % n.name))
            out.append("(* TRANSLATE-ERROR weekday: class weekday defines %s (objects no longer always true) *)\n"
                       % n.name)
            methods.discard("gen_sign")   # poisons everything that follows

    S, SO = "(v_self : obj)", "(v_self v_other : obj)"
    attempt("gen_set_months", lambda: do_method(find_def(rd.body, "_set_months"), ["self", "months"],
            {"self": "rd"}, {"months": INT}, methods, "mutator", "gen_set_months", "(v_self : obj) (v_months : Z)",
            ("obj", "obj")))

    def fix():
        if "gen_sign" not in methods:
            raise TranslateError("_sign / weekday truthiness not available")
        txt = do_method(find_def(rd.body, "_fix"), ["self"], {"self": "rd"}, {}, methods, "mutator", "gen_fix", S,
                        ("obj", "obj"))
        methods.add("gen_fix")
        out.append(txt)
        check_init_shape(rd)
        return ("(* the keyword constructor as the operators call it (all fields passed as integers / "
                      "objects, no weeks, yearday, dt1, dt2): assign the fields, then _fix *)\n"
                      "Definition gen_init (args : obj) : gres obj := gen_fix args.\n")
    attempt("gen_init", fix)
    # the SAME source of _fix read on float-valued day/hour/minute/second/microsecond fields, idealised as
    # exact rationals numerator / v_D (months, years stay integers)
    attempt("gen_fix_q", lambda: do_method(find_def(rd.body, "_fix"), ["self"], {"self": "rd"}, {}, methods,
            "mutator", "gen_fix_q", "(v_D : Z) (v_self : obj)", ("obj", "obj"), scaled=True)
            + "Definition gen_init_q (v_D : Z) (args : obj) : gres obj := gen_fix_q v_D args.\n")
    if "gen_fix_q" in methods and "gen_init" in methods:
        methods.add("gen_init_q")
    # the keyword path of __init__ up to (excluding) `yday = 0`: non-integer check, field assignments with
    # weeks, weekday argument forms.  (The yearday conversion that follows is translated by
    # harness/gen_rd_add.py -> gen_init_yearday; coq/rd/RdGenInitThm.v composes the three parts.)
    def init_head():
        if "gen_init" not in methods:
            raise TranslateError("shape of __init__ not accepted")
        want = ast.dump(ast.parse("MO, TU, WE, TH, FR, SA, SU = weekdays = tuple(weekday(x) for x in range(7))").body[0])
        if sum(1 for n in rd_tree.body if ast.dump(n) == want) != 1 or any(
                isinstance(t, ast.Name) and t.id == "weekdays" and ast.dump(n) != want
                for n in ast.walk(rd_tree) if isinstance(n, (ast.Assign, ast.AugAssign))
                for t in ast.walk(n) if isinstance(t, ast.Name) and isinstance(t.ctx, ast.Store)):
            raise TranslateError("module tuple `weekdays` is not tuple(weekday(x) for x in range(7))")
        if not any(isinstance(n, ast.ImportFrom) and n.module == "six" and any(
                a.name == "integer_types" and a.asname is None for a in n.names) for n in rd_tree.body):
            raise TranslateError("integer_types is not imported from six")
        wi = find_def(wdc.body, "__init__") if False else [n for n in wdc.body if isinstance(n, ast.FunctionDef) and n.name == "__init__"]
        if len(wi) != 1:
            raise TranslateError("weekday.__init__ not found")
        ms = set(methods) | {"weekdays", "integer_types"}
        fn = [n for n in rd.body if isinstance(n, ast.FunctionDef) and n.name == "__init__"][0]
        kw = [s for s in fn.body if not (isinstance(s, ast.Expr) and isinstance(s.value, ast.Constant))][0].orelse
        idx = [i for i, st in enumerate(kw) if ast.dump(st) == ast.dump(ast.parse("yday = 0").body[0])]
        if len(idx) != 1:
            raise TranslateError("`yday = 0` not found exactly once in the keyword branch")
        head = kw[:idx[0]]
        types = {"years": RAT, "months": RAT, "weekday": WDARG}
        types.update({f: INT for f in ["days", "leapdays", "weeks", "hours", "minutes", "seconds", "microseconds"]})
        types.update({f: OPT(INT) for f in ABS})
        cx = Ctx({"self": "rd"}, types, ms)
        cx.ok, cx.bind = "Ok", "bind"
        m = Method()
        body = block(list(head), cx, lambda c: "Ok v_self", m, 1)
        pre = "  let v_self := obj_blank in\n" + "".join(
            "  let v_%s := ia_%s v_args in\n" % (f, f) for f in ["years", "months", "days", "leapdays", "weeks", "hours",
                                                               "minutes", "seconds", "microseconds"] + ABS + ["weekday"])
        return "Definition gen_init_head (v_args : iargs) : res obj :=\n%s%s.\n" % (pre, body)
    attempt("gen_init_head", init_head)
    for py, coq in (("__neg__", "gen_neg"), ("__abs__", "gen_abs")):
        attempt(coq, lambda py=py, coq=coq: do_method(find_def(rd.body, py), ["self"], {"self": "rd"}, {}, methods,
                                                      "function", coq, S, ("obj", "obj")))

    def boolm():
        txt = do_method(find_def(rd.body, "__bool__"), ["self"], {"self": "rd"}, {}, methods, "function",
                        "gen_bool", S, (BOOL, "bool"))
        alias = [n for n in rd.body if isinstance(n, ast.Assign) and any(
            isinstance(t, ast.Name) and t.id == "__nonzero__" for t in n.targets)]
        if any(isinstance(n, ast.FunctionDef) and n.name == "__nonzero__" for n in rd.body) or len(alias) > 1 or (
                alias and not (isinstance(alias[0].value, ast.Name) and alias[0].value.id == "__bool__")):
            raise TranslateError("__nonzero__ is not the alias of __bool__")
        return txt
    attempt("gen_bool", boolm)
    attempt("gen_eq", lambda: do_method(find_def(rd.body, "__eq__"), ["self", "other"],
            {"self": "rd", "other": "rd"}, {}, methods, "function", "gen_eq", SO, (BOOL, "bool")))
    attempt("gen_ne", lambda: do_method(find_def(rd.body, "__ne__"), ["self", "other"],
            {"self": "rd", "other": "rd"}, {}, methods, "function", "gen_ne", SO, (BOOL, "bool")))
    attempt("gen_hash", lambda: do_method(find_def(rd.body, "__hash__"), ["self"], {"self": "rd"}, {}, methods,
            "function", "gen_hash", S, (HASH_T, HASH_COQ)))

    def add():
        fn = find_def(rd.body, "__add__")
        b = [s for s in fn.body if not (isinstance(s, ast.Expr) and isinstance(s.value, ast.Constant))]
        if not (b and isinstance(b[0], ast.If) and is_isinstance_rd(b[0].test)):
            raise TranslateError("__add__ does not start with `if isinstance(other, relativedelta):`")
        fake = ast.FunctionDef(name="__add__", args=fn.args, body=b[0].body, decorator_list=[])
        return do_method(fake, ["self", "other"], {"self": "rd", "other": "rd"}, {}, methods, "function",
                         "gen_add", SO, ("obj", "obj"))
    attempt("gen_add", add)

    def add_td():
        fn = find_def(rd.body, "__add__")
        b = [s for s in fn.body if not (isinstance(s, ast.Expr) and isinstance(s.value, ast.Constant))]
        want = ast.dump(ast.parse("isinstance(other, datetime.timedelta)", mode="eval").body)
        if not (len(b) > 1 and isinstance(b[1], ast.If) and ast.dump(b[1].test) == want and not b[1].orelse
                and not b[0].orelse):
            raise TranslateError("second statement of __add__ is not `if isinstance(other, datetime.timedelta):`")
        fake = ast.FunctionDef(name="__add__", args=fn.args, body=b[1].body, decorator_list=[])
        return do_method(fake, ["self", "other"], {"self": "rd", "other": "td"}, {}, methods, "function",
                         "gen_add_td", "(v_self : obj) (v_other : tdv)", ("obj", "obj"))
    attempt("gen_add_td", add_td)
    attempt("gen_sub", lambda: do_method(find_def(rd.body, "__sub__"), ["self", "other"],
            {"self": "rd", "other": "rd"}, {}, methods, "function", "gen_sub", SO, ("obj", "obj")))
    attempt("gen_normalized", lambda: do_method(find_def(rd.body, "normalized"), ["self"], {"self": "rd"}, {},
            methods, "function", "gen_normalized", S, ("obj", "obj")))
    attempt("gen_normalized_q", lambda: do_method(find_def(rd.body, "normalized"), ["self"], {"self": "rd"}, {},
            methods, "function", "gen_normalized_q", "(v_D : Z) (v_self : obj)", ("obj", "obj"), scaled=True))
    attempt("gen_mul", lambda: do_method(find_def(rd.body, "__mul__"), ["self", "other"], {"self": "rd"},
            {"other": INT}, methods, "function", "gen_mul", "(v_self : obj) (v_other : Z)", ("obj", "obj")))

    def rmul():
        alias = [n for n in rd.body if isinstance(n, ast.Assign) and any(
            isinstance(t, ast.Name) and t.id == "__rmul__" for t in n.targets)]
        if len(alias) != 1 or not (isinstance(alias[0].value, ast.Name) and alias[0].value.id == "__mul__"):
            raise TranslateError("__rmul__ is not the alias of __mul__")
        return "(* __rmul__ = __mul__ *)\n"
    attempt("gen_rmul", rmul)
    def wd_init():
        fs = [n for n in wdc.body if isinstance(n, ast.FunctionDef) and n.name == "__init__"]
        if len(fs) != 1:
            raise TranslateError("weekday.__init__ not found")
        fn = fs[0]
        d = fn.args.defaults
        if (fn.decorator_list or fn.args.vararg or fn.args.kwarg or fn.args.kwonlyargs or len(d) != 1
                or not (isinstance(d[0], ast.Constant) and d[0].value is None)):
            raise TranslateError("unexpected signature of weekday.__init__ (expected (self, weekday, n=None))")
        fake = ast.FunctionDef(name="__init__", args=ast.arguments(posonlyargs=[], args=fn.args.args, vararg=None,
                               kwonlyargs=[], kw_defaults=[], kwarg=None, defaults=[]), body=fn.body, decorator_list=[])
        return do_method(fake, ["self", "weekday", "n"], {"self": "wdobj"}, {"weekday": INT, "n": OPT(INT)}, methods,
                         "mutator", "gen_wd_init", "(v_self : wdv) (v_weekday : Z) (v_n : option Z)", (WD, "wdv"))
    attempt("gen_wd_init", wd_init)
    attempt("gen_wd_call", lambda: do_method(find_def(wdc.body, "__call__"), ["self", "n"], {"self": "wdobj"},
            {"n": OPT(INT)}, methods, "function", "gen_wd_call", "(v_self : wdv) (v_n : option Z)", (WD, "wdv")))
    W = "(v_self v_other : wdv)"
    attempt("gen_wd_eq", lambda: do_method(find_def(wdc.body, "__eq__"), ["self", "other"],
            {"self": "wdobj", "other": "wdobj"}, {}, methods, "function", "gen_wd_eq", W, (BOOL, "bool")))
    attempt("gen_wd_hash", lambda: do_method(find_def(wdc.body, "__hash__"), ["self"], {"self": "wdobj"}, {},
            methods, "function", "gen_wd_hash", "(v_self : wdv)", (TUP([INT, OPT(INT)]), "(Z * option Z)")))
    return "\n".join(out), errors


def main():
    here = os.path.dirname(os.path.dirname(os.path.abspath(__file__)))
    repo = os.environ.get("VERIF_REPO", "/repo")
    rd_path = os.path.join(repo, "src/dateutil/relativedelta.py")
    cm_path = os.path.join(repo, "src/dateutil/_common.py")
    out_path = sys.argv[1] if len(sys.argv) > 1 else os.path.join(here, "coq/gen/RdMethodsGen.v")
    try:
        txt, errors = translate(open(rd_path).read(), open(cm_path).read())
    except Exception as ex:      # incl. bugs of this translator: fail closed, for C16 only
        txt, errors = ("(* GENERATED by harness/gen_rd_methods.py -- do not edit *)\n"
                       "(* TRANSLATE-ERROR source: %s *)\n" % str(ex).replace("*)", "* )")), [("source", str(ex))]
    for name, msg in errors:
        print("TRANSLATE-ERROR %s: %s" % (name, msg))
    try:
        old = open(out_path).read()
    except OSError:
        old = None
    if old != txt:
        open(out_path, "w").write(txt)
        print("regenerated", out_path)
    # exit 0 even on a translation error: the incomplete output makes coq/rd/RdGenThm.v (hence
    # props/C16.v) fail to compile -- a broken obligation of C16 only, not of unrelated checks
    return 0


if __name__ == "__main__":
    sys.exit(main())
