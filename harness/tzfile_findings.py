"""Matchers for the open findings of the tzfile area (narrow: each accepts only its own class)."""


def _no_exception(payload):
    d = payload.get("detail") or payload.get("input") or {}
    return d.get("why") != "exception" and "exception" not in str(payload.get("kind", ""))


def short_regime(payload):
    """F-C0x-short-regime (audit A1): a zone OUTSIDE wf_zone (an offset regime shorter than the repeated
    interval / gap at one of its ends), at a wall time that still has at most two UTC pre-images, answers
    wrongly (tzfile.is_ambiguous has no lower bound on how long the old offset lasted).  Only payloads the
    driver marked outside_wf_zone with preimages_of_wall <= 2, and no exceptions."""
    i = payload.get("input") or {}
    return (i.get("outside_wf_zone") is True and isinstance(i.get("preimages_of_wall"), int)
            and i["preimages_of_wall"] <= 2 and _no_exception(payload)
            and str(payload.get("kind", "")).startswith(("property: ", "two instants map", "implementation differs from the executable",
                                                         "fromutc sets fold", "tzfile does not report", "offset/abbreviation reported")))


def tzical_std_offset_change(payload):
    """F-C04/C05-tzical-std-change: an iCalendar zone whose STANDARD offset changes; instants / wall times
    within max(|old offset|, |new offset|, |change|) of the change are converted with the wrong offset (generic _tzinfo._fromutc assumes
    utcoffset() - dst() constant).  Only the era-boundary sub-stream, only wrong answers (no exceptions),
    only within that window."""
    i = payload.get("input") or {}
    return (str(payload.get("kind", "")).startswith("property (generated zone): next to a change of the zone's standard offset")
            and i.get("near_std_change") is True and str(i.get("zone", "")).startswith("tzical:multi-era")
            and all(isinstance(i.get(k), int) for k in ("distance", "old_offset", "new_offset"))
            and abs(i["distance"]) <= max(abs(i["old_offset"]), abs(i["new_offset"]), abs(i["new_offset"] - i["old_offset"]))
            and i.get("impl_ok") is True)


MATCHERS = {"short_regime": short_regime, "tzical_std_offset_change": tzical_std_offset_change}
