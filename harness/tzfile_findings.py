"""Matchers for known findings of the tzfile area."""


def tzical_std_offset_change(payload):
    """F-C04-tzical-std-change: an iCalendar zone whose STANDARD offset changes; instants within the size
    of that change of the change are converted with the wrong offset (generic _tzinfo._fromutc assumes
    utcoffset() - dst() constant).  Only payloads of the era-boundary sub-stream (near_std_change)."""
    i = payload.get("input") or {}
    return (payload.get("kind", "").startswith("property (generated zone): next to a change of the zone's standard offset")
            and i.get("near_std_change") is True and str(i.get("zone", "")).startswith("tzical:multi-era"))


MATCHERS = {"tzical_std_offset_change": tzical_std_offset_change}
