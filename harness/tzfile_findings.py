"""Matchers for known findings of the tzfile area (none open)."""
MATCHERS = {}
