"""Matchers for known findings of the tzfile area (none open; F-C05-resolve-24h was fixed by 7f58098)."""
MATCHERS = {}
