"""Rule recipes shared by check_C11.py / check_C12.py: JSON-able descriptions of finite rrules and
rrulesets, a builder (cache on/off), and the datetime <-> int encoding used for the extracted model."""
import datetime as _dt

EPOCH = _dt.datetime(1970, 1, 1)
_TZ = [None]      # tzinfo of the rule under test (None = naive); set by set_tz(recipe)


def set_tz(recipe):
    """rules are naive unless the recipe says "tz": "utc" | <offset seconds>; query arguments and the
    integer encoding follow the rule (aware datetimes are compared as instants)"""
    tzname = (recipe or {}).get("tz")
    if tzname is None:
        _TZ[0] = None
    else:
        from dateutil import tz
        _TZ[0] = tz.tzutc() if tzname == "utc" else tz.tzoffset(None, int(tzname))


def to_int(d):
    """strictly monotone injection of whole-second datetimes into the integers (aware datetimes: of
    the wall reading in the rule's own fixed-offset zone, which preserves the order of instants)"""
    if d.tzinfo is not None:
        d = d.replace(tzinfo=None)
    delta = d - EPOCH
    return delta.days * 86400 + delta.seconds


def to_dt(z):
    d = EPOCH + _dt.timedelta(seconds=z)
    return d if _TZ[0] is None else d.replace(tzinfo=_TZ[0])


def _kw(rr, kw):
    out = {}
    for k, v in kw.items():
        if k in ("dtstart", "until"):
            out[k] = to_dt(v) if v is not None else None
        elif k == "byweekday":
            out[k] = tuple(rr.weekdays[i] if n is None else rr.weekdays[i](n) for (i, n) in v)
        elif isinstance(v, list):
            out[k] = tuple(v)
        else:
            out[k] = v
    return out


def build(recipe, cache):
    """recipe -> rrule / rruleset object (a new one on every call)"""
    from dateutil import rrule as rr
    set_tz(recipe)
    if recipe["kind"] == "rrule":
        return rr.rrule(cache=cache, **_kw(rr, recipe["kw"]))
    s = rr.rruleset(cache=cache)
    for kw in recipe.get("rrules", []):
        s.rrule(rr.rrule(**_kw(rr, kw)))
    for d in recipe.get("rdates", []):
        s.rdate(to_dt(d))
    for kw in recipe.get("exrules", []):
        s.exrule(rr.rrule(**_kw(rr, kw)))
    for d in recipe.get("exdates", []):
        s.exdate(to_dt(d))
    for d in recipe.get("aware_rdates", []):
        # an aware instant in an otherwise naive set: the generator raises TypeError when it compares them
        from dateutil import tz as _tz
        s.rdate((EPOCH + _dt.timedelta(seconds=d)).replace(tzinfo=_tz.tzutc()))
    return s


T0 = to_int(_dt.datetime(2000, 1, 1, 9, 0, 0))
DAY = 86400


def daily(n, start=T0):
    from dateutil import rrule as rr
    return {"kind": "rrule", "kw": {"freq": rr.DAILY, "count": n, "dtstart": start}}


def until_rule(n):
    """DAILY rule ended by UNTIL (the generator's `until` exit) with exactly n occurrences"""
    from dateutil import rrule as rr
    return {"kind": "rrule", "kw": {"freq": rr.DAILY, "dtstart": T0, "until": T0 + DAY * (n - 1) + 3600}}


def setpos_rule(n, until=False):
    """MONTHLY last-working-day rule (the generator's BYSETPOS branch) with exactly n occurrences"""
    from dateutil import rrule as rr
    kw = {"freq": rr.MONTHLY, "dtstart": T0, "byweekday": [[d, None] for d in range(5)], "bysetpos": -1}
    if until:
        occ = [to_int(d) for d in build({"kind": "rrule", "kw": dict(kw, count=n + 1)}, False)]
        kw["until"] = occ[n] - 1
    else:
        kw["count"] = n
    return {"kind": "rrule", "kw": kw}


def variants_of_length(n):
    """finite rules of length n that leave the underlying generator through each of its exits"""
    return [daily(n), until_rule(n), setpos_rule(n, False), setpos_rule(n, True),
            set_of_length(n, 0), set_of_length(n, 1), set_of_length(n, 2)]


def set_of_length(n, variant=0):
    """an rruleset whose listing has exactly n elements (n >= 0), built so that members overlap
    (duplicates are merged) and exclusions remove elements"""
    from dateutil import rrule as rr
    if variant == 0:
        # daily rule of n+2, two of them excluded, plus rdates that coincide with occurrences
        return {"kind": "rruleset",
                "rrules": [{"freq": rr.DAILY, "count": n + 2, "dtstart": T0}],
                "rdates": [T0 + DAY * k for k in range(0, n + 2, 3)],
                "exdates": [T0, T0 + DAY * (n + 1)]}
    if variant == 1:
        # only rdates
        return {"kind": "rruleset", "rdates": [T0 + 3600 * (7 * k % 97) + DAY * k for k in range(n)][::-1]}
    # two interleaved rules, one exrule removing the overlap-free tail
    a = (n + 1) // 2
    b = n // 2
    return {"kind": "rruleset",
            "rrules": [{"freq": rr.DAILY, "interval": 2, "count": a, "dtstart": T0},
                       {"freq": rr.DAILY, "interval": 2, "count": b + 3, "dtstart": T0 + DAY}],
            "exrules": [{"freq": rr.DAILY, "interval": 2, "count": 3, "dtstart": T0 + DAY + 2 * DAY * b}]}


def random_rrule_kw(r, maxlen=35):
    """a finite, cheap rrule: always bounded by count or until"""
    from dateutil import rrule as rr
    freq = r.choice([rr.YEARLY, rr.MONTHLY, rr.WEEKLY, rr.DAILY, rr.DAILY, rr.HOURLY, rr.MINUTELY, rr.SECONDLY])
    start = to_int(_dt.datetime(r.choice([1999, 2000, 2003, 2004, 2019, 2024]), r.randint(1, 12), r.randint(1, 28),
                                r.choice([0, 9, 23]), r.choice([0, 30, 59]), r.choice([0, 0, 59])))
    kw = {"freq": freq, "dtstart": start, "interval": r.choice([1, 1, 1, 2, 3, 5])}
    if r.random() < 0.75:
        kw["count"] = r.choice([0, 1, 2, 3, 5, 9, 10, 11, 19, 20, 21, 30, 31]) if r.random() < 0.6 else r.randint(0, maxlen)
    else:
        span = {rr.YEARLY: 366 * DAY, rr.MONTHLY: 31 * DAY, rr.WEEKLY: 7 * DAY, rr.DAILY: DAY,
                rr.HOURLY: 3600, rr.MINUTELY: 60, rr.SECONDLY: 1}[freq]
        kw["until"] = start + span * kw["interval"] * r.randint(0, 24) + r.choice([0, 0, -1, 1])
    if freq <= rr.DAILY and r.random() < 0.4:
        days = sorted(r.sample(range(7), r.randint(1, 3)))
        kw["byweekday"] = [[d, None] for d in days]
        if "until" in kw:
            kw["until"] = min(kw["until"], start + 400 * DAY)
    if freq == rr.YEARLY and r.random() < 0.3:
        kw["bymonth"] = sorted(r.sample(range(1, 13), r.randint(1, 2)))
    if freq <= rr.DAILY and r.random() < 0.25:
        kw["byhour"] = sorted(r.sample(range(24), r.randint(1, 2)))
    if r.random() < 0.1:
        kw["wkst"] = r.randint(0, 6)
    return kw


def random_recipe(r, maxlen=35):
    if r.random() < 0.6:
        return {"kind": "rrule", "kw": random_rrule_kw(r, maxlen)}
    rec = {"kind": "rruleset", "rrules": [random_rrule_kw(r, maxlen // 2) for _ in range(r.randint(0, 2))]}
    base = rec["rrules"][0]["dtstart"] if rec["rrules"] else T0
    occ = []
    for kw in rec["rrules"]:
        occ += [to_int(d) for d in list(build({"kind": "rrule", "kw": kw}, False))[:40]]
    pool = occ + [base + DAY * k + r.choice([0, 0, 1, -1, 3600]) for k in range(-2, 12)]
    rec["rdates"] = [r.choice(pool) for _ in range(r.randint(0, 6))]
    rec["exdates"] = [r.choice(pool) for _ in range(r.randint(0, 4))]
    if rec["rrules"] and r.random() < 0.4:
        ex = dict(r.choice(rec["rrules"]))
        ex["interval"] = ex.get("interval", 1) * r.choice([1, 2, 3])
        if "count" in ex:
            ex["count"] = r.randint(0, 6)
        rec["exrules"] = [ex]
    return rec


def aware(recipe, tzname):
    r = dict(recipe)
    r["tz"] = tzname
    return r


def describe(recipe):
    if recipe.get("tz") is not None:
        r = dict(recipe)
        tzname = r.pop("tz")
        return describe(r) + " in tz %s" % tzname
    if recipe["kind"] == "rrule":
        return "rrule(%s)" % ", ".join("%s=%s" % kv for kv in sorted(recipe["kw"].items()))
    return "rruleset(rrules=%d, rdates=%d, exrules=%d, exdates=%d)" % (
        len(recipe.get("rrules", [])), len(recipe.get("rdates", [])),
        len(recipe.get("exrules", [])), len(recipe.get("exdates", [])))


def call_many(o, reqs, limit=20000):
    """Oracle.call_many with chunks bounded in BYTES (requests and replies both stay far below the
    64 KiB pipe capacity, so neither side can block on a full pipe)"""
    out = []
    part, size = [], 0
    for (e, a) in reqs:
        w = 8 * (len(a) + 2) + 16
        if part and size + w > limit:
            out += o.call_many(part, chunk=len(part))
            part, size = [], 0
        part.append((e, a))
        size += w
    if part:
        out += o.call_many(part, chunk=len(part))
    return out


class Timeout(BaseException):
    """raised in the main thread by the watchdog when implementation code does not come back"""


class watchdog(object):
    """with watchdog(seconds): ...  -- SIGALRM based; an endless loop in the implementation becomes an
    exception (reported as a violation: the operation never completes) instead of a hung check"""

    def __init__(self, seconds):
        self.seconds = seconds

    def _fire(self, signum, frame):
        raise Timeout()

    def __enter__(self):
        import signal
        self.old = signal.signal(signal.SIGALRM, self._fire)
        signal.setitimer(signal.ITIMER_REAL, self.seconds)
        return self

    def __exit__(self, *exc):
        import signal
        signal.setitimer(signal.ITIMER_REAL, 0)
        signal.signal(signal.SIGALRM, self.old)
        return False
