#!/usr/bin/env python3
"""Fail-closed translator (Python `ast`): the fixed-offset zones of /repo/src/dateutil/tz/tz.py and the
helpers they use  ->  coq/gen/FixedGen.v  (vocabulary: coq/factory/FacFixed.v).

Translated: tzutc.utcoffset / dst / tzname / is_ambiguous / fromutc, tzoffset.__init__ / utcoffset /
dst / tzname / fromutc / is_ambiguous, tz.tz._get_supported_offset and tz._common.enfold (the branch
of the module-level `if` that the running Python takes).

ACCEPTED SUBSET (anything else: TranslateError -> exit 1 -> common.py poisons coq/gen/FixedGen.v)
  method signature  (self, dt); __init__ (self, name, offset); decorators only `tzname_in_python2`
                    (identity on Python 3) and `_validate_fromutc_inputs` (input validation: raises
                    unless dt is a datetime whose tzinfo is self; identity on the inputs the
                    datetime protocol passes) -- both by NAME, their bodies are not translated
  method body       [docstring] `return e`, e among  ZERO | False | "UTC" | dt | self._offset |
                    self._name | dt + self._offset
  tzoffset.__init__ exactly:  self._name = name ;
                    try: offset = offset.total_seconds()  except (TypeError, AttributeError): pass ;
                    self._offset = datetime.timedelta(seconds=_get_supported_offset(offset))
  _get_supported_offset   module-level `if sys.version_info >= (3, 6): def f(second_offset): return
                    second_offset  else: ...`; only the first branch is translated and the running
                    interpreter must satisfy the test
  enfold            module-level `if hasattr(datetime, 'fold'): def enfold(dt, fold=1): return
                    dt.replace(fold=fold)  else: ...`; first branch, and hasattr must hold
Semantics: times are integer microseconds, a datetime is (wall value, fold); `dt + timedelta` has
fold 0 (CPython); names are numbers ('UTC' = 1).
"""
import ast
import datetime
import os
import sys

VERIF = os.path.dirname(os.path.dirname(os.path.abspath(__file__)))
SRC = os.path.join(os.environ.get("VERIF_REPO", "/repo"), "src", "dateutil")
OUT = os.path.join(VERIF, "coq", "gen", "FixedGen.v")      # coq/gen/FixedGen.v
DECORATORS = {"tzname_in_python2", "_validate_fromutc_inputs"}


class TranslateError(Exception):
    pass


def strip_doc(body):
    if body and isinstance(body[0], ast.Expr) and isinstance(body[0].value, ast.Constant) \
            and isinstance(body[0].value.value, str):
        return body[1:]
    return body


def find_class(tree, name):
    for n in tree.body:
        if isinstance(n, ast.ClassDef) and n.name == name:
            return n
    raise TranslateError("class %s not found" % name)


def find_method(cls, name, params):
    fs = [n for n in cls.body if isinstance(n, ast.FunctionDef) and n.name == name]
    if len(fs) != 1:
        raise TranslateError("%s.%s: expected exactly one definition" % (cls.name, name))
    f = fs[0]
    for dec in f.decorator_list:
        if not (isinstance(dec, ast.Name) and dec.id in DECORATORS):
            raise TranslateError("%s.%s: decorator not accepted: %s" % (cls.name, name, ast.unparse(dec)))
    a = f.args
    if [x.arg for x in a.args] != params or a.vararg or a.kwarg or a.kwonlyargs or a.defaults:
        raise TranslateError("%s.%s: signature must be %r" % (cls.name, name, params))
    return f


def ret_expr(e, kind, has_self):
    """kind: 'time' | 'name' | 'bool' | 'dt'"""
    if isinstance(e, ast.Name) and e.id == "ZERO" and kind == "time":
        return "0"
    if isinstance(e, ast.Constant) and e.value is False and kind == "bool":
        return "false"
    if isinstance(e, ast.Constant) and e.value == "UTC" and kind == "name":
        return "1"
    if isinstance(e, ast.Name) and e.id == "dt" and kind == "dt":
        return "dt"
    if has_self and isinstance(e, ast.Attribute) and isinstance(e.value, ast.Name) and e.value.id == "self":
        if e.attr == "_offset" and kind == "time":
            return "(fz_offset self)"
        if e.attr == "_name" and kind == "name":
            return "(fz_name self)"
    if (has_self and kind == "dt" and isinstance(e, ast.BinOp) and isinstance(e.op, ast.Add)
            and isinstance(e.left, ast.Name) and e.left.id == "dt"
            and ast.dump(e.right) == ast.dump(ast.parse("self._offset").body[0].value)):
        return "(dt_add dt (fz_offset self))"
    raise TranslateError("unsupported %s expression: %s" % (kind, ast.unparse(e)))


METHODS = [("utcoffset", "time", "Z"), ("dst", "time", "Z"), ("tzname", "name", "Z"),
           ("is_ambiguous", "bool", "bool"), ("fromutc", "dt", "dtv")]


def gen_methods(tree, cname, has_self):
    cls = find_class(tree, cname)
    out = []
    for m, kind, ty in METHODS:
        f = find_method(cls, m, ["self", "dt"])
        body = strip_doc(f.body)
        if len(body) != 1 or not isinstance(body[0], ast.Return) or body[0].value is None:
            raise TranslateError("%s.%s: body must be a single `return e`" % (cname, m))
        t = ret_expr(body[0].value, kind, has_self)
        if has_self:
            out.append("Definition gen_%s_%s (self : fz) (dt : dtv) : %s := %s." % (cname, m, ty, t))
        else:
            out.append("Definition gen_%s_%s (dt : dtv) : %s := %s." % (cname, m, ty, t))
    return out


def gen_init(tree):
    cls = find_class(tree, "tzoffset")
    f = find_method(cls, "__init__", ["self", "name", "offset"])
    body = strip_doc(f.body)
    want = ast.parse(
        "self._name = name\n"
        "try:\n    offset = offset.total_seconds()\nexcept (TypeError, AttributeError):\n    pass\n"
        "self._offset = datetime.timedelta(seconds=_get_supported_offset(offset))\n").body
    if len(body) != len(want) or any(ast.dump(a) != ast.dump(b) for a, b in zip(body, want)):
        raise TranslateError("tzoffset.__init__ is not the accepted three-statement body")
    return ["Definition gen_tzoffset_init (name : Z) (offset : oarg) : fz :=",
            "  let offset := total_seconds_or_self offset in",
            "  mkFz name (td_of_seconds (gen_get_supported_offset offset))."]


def module_branch(tree, test_src, fname, params, defaults, holds):
    """the FunctionDef `fname` in the first branch of the module-level `if <test_src>:`"""
    want = ast.dump(ast.parse(test_src).body[0].value)
    for n in tree.body:
        if isinstance(n, ast.If) and ast.dump(n.test) == want:
            fs = [x for x in n.body if isinstance(x, ast.FunctionDef) and x.name == fname]
            if len(fs) != 1:
                break
            if not holds:
                raise TranslateError("the running interpreter does not take the `%s` branch" % test_src)
            f = fs[0]
            if ([a.arg for a in f.args.args] != params or f.decorator_list
                    or [ast.dump(x) for x in f.args.defaults] != [ast.dump(ast.parse(dv).body[0].value) for dv in defaults]):
                raise TranslateError("%s: unexpected signature" % fname)
            return f
    raise TranslateError("module-level `if %s:` defining %s not found" % (test_src, fname))


def translate():
    tz = ast.parse(open(os.path.join(SRC, "tz", "tz.py")).read())
    common = ast.parse(open(os.path.join(SRC, "tz", "_common.py")).read())
    out = ["(* GENERATED by harness/gen_fixedzones.py from dateutil/tz/tz.py and tz/_common.py -- do not edit. *)",
           "From Coq Require Import ZArith List Bool.", "From V Require Import factory.FacFixed.",
           "Open Scope Z_scope.", ""]
    f = module_branch(tz, "sys.version_info >= (3, 6)", "_get_supported_offset", ["second_offset"], [],
                      sys.version_info >= (3, 6))
    body = strip_doc(f.body)
    if len(body) != 1 or ast.dump(body[0]) != ast.dump(ast.parse("return second_offset").body[0]):
        raise TranslateError("_get_supported_offset (>= 3.6) is not `return second_offset`")
    out.append("Definition gen_get_supported_offset (second_offset : oarg) : oarg := second_offset.")
    out += gen_init(tz)
    out += gen_methods(tz, "tzoffset", True)
    out += gen_methods(tz, "tzutc", False)
    f = module_branch(common, "hasattr(datetime, 'fold')", "enfold", ["dt", "fold"], ["1"],
                      hasattr(datetime.datetime, "fold"))
    body = strip_doc(f.body)
    if len(body) != 1 or ast.dump(body[0]) != ast.dump(ast.parse("return dt.replace(fold=fold)").body[0]):
        raise TranslateError("enfold is not `return dt.replace(fold=fold)`")
    out.append("Definition gen_enfold (dt : dtv) (fold : bool) : dtv := dt_replace_fold dt fold.")
    return "\n".join(out) + "\n"


def main():
    try:
        txt = translate()
    except TranslateError as ex:
        print("TRANSLATE-ERROR (gen_fixedzones.py): %s" % ex)
        return 1
    if not os.path.exists(OUT) or open(OUT).read() != txt:
        os.makedirs(os.path.dirname(OUT), exist_ok=True)
        open(OUT, "w").write(txt)
    return 0


if __name__ == "__main__":
    sys.exit(main())
