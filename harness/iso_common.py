"""Shared machinery of the isoparser checks (C07, C20).

A *case* is a tuple (entry, sep, kind, codes, zutc):
  entry  0 isoparse   1 parse_isodate   2 parse_isotime   3 parse_tzstr
  sep    None (module-level isoparse / isoparser()) or the text given to isoparser(sep)
  kind   'str' | 'bytes' | 'sio' (io.StringIO) | 'bio' (io.BytesIO)
  codes  tuple of code points (text) / byte values (bytes)
  zutc   zero_as_utc (entry 3 only)
Results are projected to lists of integers:
  datetime [1,y,m,d,h,mi,s,us,tzk,tzv]   date [1,y,m,d]   time [1,h,mi,s,us,tzk,tzv]   tz [1,tzk,tzv]
  tzk/tzv: 0/0 = None, 1/0 = tz.UTC (tzutc), 2/secs = tzoffset(None, secs)
  ValueError [0,1]   OverflowError [0,2]   any other exception ["EXC", class name]
which is exactly the encoding of coq/extract/ExtractIso.v.
"""
import hashlib
import re
import io
import itertools
import json
import multiprocessing
import os
import sys
import time

import common as C

AREA = "iso"
VO_MODEL = ["iso/IsoBase.vo", "iso/IsoModel.vo", "iso/IsoSpec.vo"]
ENTRY_NAMES = ("isoparse", "parse_isodate", "parse_isotime", "parse_tzstr")
REJECT = [0, 1]

# ----------------------------------------------------------------------------- implementation


def _proj_tz(t):
    from dateutil import tz as T
    if t is None:
        return [0, 0]
    if isinstance(t, T.tzutc):
        return [1, 0]
    if isinstance(t, T.tzoffset):
        td = t.utcoffset(None)
        return [2, td.days * 86400 + td.seconds]
    return ["TZ", type(t).__name__]


def make_input(kind, codes):
    if kind == "str":
        return "".join(map(chr, codes))
    if kind == "bytes":
        return bytes(codes)
    if kind == "sio":
        return io.StringIO("".join(map(chr, codes)))
    if kind == "bio":
        return io.BytesIO(bytes(codes))
    raise KeyError(kind)


_PARSERS = {}


def _parser(sep):
    # isoparser(sep) is constructed per distinct sep (the constructor itself is part of entry 0)
    from dateutil.parser import isoparser
    p = _PARSERS.get(sep)
    if p is None:
        p = _PARSERS[sep] = isoparser(sep)
    return p


def impl_call(case):
    entry, sep, kind, codes, zutc = case
    import datetime as D
    # building the input object is the harness's job: an exception here must never be booked as the
    # implementation's ValueError
    x = make_input(kind, codes)
    try:
        if entry == 0:
            if sep is None:
                from dateutil import parser as P
                r = P.isoparse(x)
            else:
                r = _parser(sep).isoparse(x)
            if type(r) is not D.datetime:
                return ["TYPE", type(r).__name__]
            return [1, r.year, r.month, r.day, r.hour, r.minute, r.second, r.microsecond] + _proj_tz(r.tzinfo)
        p = _parser(None)
        if entry == 1:
            r = p.parse_isodate(x)
            if type(r) is not D.date:
                return ["TYPE", type(r).__name__]
            return [1, r.year, r.month, r.day]
        if entry == 2:
            r = p.parse_isotime(x)
            if type(r) is not D.time:
                return ["TYPE", type(r).__name__]
            return [1, r.hour, r.minute, r.second, r.microsecond] + _proj_tz(r.tzinfo)
        r = p.parse_tzstr(x, zero_as_utc=zutc)
        return [1] + _proj_tz(r)
    except ValueError:
        return [0, 1]
    except OverflowError:
        return [0, 2]
    except Exception as ex:
        return ["EXC", type(ex).__name__]


# ----------------------------------------------------------------------------- oracle requests


# the SPEC side of every comparison is the grammar of the property TEXT (coq/iso/IsoText.v: iso_text / time_text,
# oracle entries 30 / 32); it differs from the implementation's language iso_denotes (entries 10 / 12, proved equal
# to the model) exactly on the two open findings below
SPEC_ISOPARSE, SPEC_ISOTIME = 30, 32

_SUBUS = re.compile(r"(?:24:00:00|240000)[.,]0{6}[0-9]*[1-9][0-9]*(?:[Zz]|[+-][0-9]{2}(?::?[0-9]{2})?)?\Z")


def m_2400_subus(payload):
    """F-C20-2400-subus: 24:00:00 + a fraction that is non-zero only beyond the sixth digit, accepted as 00:00
    (of the next day).  Narrow: the text must end in exactly that time (+ optional offset), the implementation
    must have returned an all-zero time, the text grammar must reject."""
    inp = payload.get("input") or {}
    if inp.get("entry") not in ("isoparse", "parse_isotime") or payload.get("spec") != REJECT:
        return False
    text = "".join(map(chr, inp.get("codes", [])))
    m = _SUBUS.search(text)
    if not m:
        return False
    ri = payload.get("impl") or []
    if inp["entry"] == "isoparse":
        # complete date + one separator byte in front of the time
        if m.start() < 8 or ri[:1] != [1] or ri[4:8] != [0, 0, 0, 0]:
            return False
    else:
        if m.start() != 0 or ri[:5] != [1, 0, 0, 0, 0]:
            return False
    return True


def m_ordinal_digit_sep(payload):
    """F-C07-ordinal-digit-sep: YYYYDDD + digit separator + time, no configured separator, rejected with
    ValueError while the text grammar reads it."""
    inp = payload.get("input") or {}
    if inp.get("entry") != "isoparse" or inp.get("sep") is not None or payload.get("impl") != REJECT:
        return False
    codes = inp.get("codes", [])
    if len(codes) < 10 or not all(48 <= c <= 57 for c in codes[:8]):
        return False
    exp = payload.get("spec_expected") or payload.get("spec") or []
    if exp[:1] != [1]:
        return False
    # the value the text grammar reads is the ordinal date YYYY-DDD
    import datetime as D
    y, n = int("".join(map(chr, codes[:4]))), int("".join(map(chr, codes[4:7])))
    try:
        d = D.date(y, 1, 1) + D.timedelta(days=n - 1)
    except (ValueError, OverflowError):
        return False
    if n < 1 or d.year != y:
        return False
    h24 = codes[8:10] == [50, 52]
    if h24:
        try:
            d = d + D.timedelta(days=1)
        except OverflowError:
            return False
    return exp[1:4] == [d.year, d.month, d.day]


MATCHERS = {"m_2400_subus": m_2400_subus, "m_ordinal_digit_sep": m_ordinal_digit_sep}


def sep_valid(sep):
    return sep is None or (len(sep) == 1 and ord(sep) < 128 and sep not in "0123456789")


def model_req(case):
    entry, sep, _kind, codes, zutc = case
    if entry == 0:
        if sep is None:
            return (0, [-1] + list(codes))
        return (0, [len(sep)] + [ord(c) for c in sep] + list(codes))
    if entry == 3:
        return (3, [1 if zutc else 0] + list(codes))
    return (entry, list(codes))


def spec_req(case):
    """None when the configured separator is invalid (the constructor must raise ValueError)."""
    entry, sep, _kind, codes, zutc = case
    if entry == 0:
        if sep is None:
            return (SPEC_ISOPARSE, [-1] + list(codes))
        if not sep_valid(sep):
            return None
        return (SPEC_ISOPARSE, [1, ord(sep)] + list(codes))
    if entry == 3:
        return (13, [1 if zutc else 0] + list(codes))
    if entry == 2:
        return (SPEC_ISOTIME, list(codes))
    return (10 + entry, list(codes))


def oracle_eval(o, cases):
    """model and spec results for a list of cases"""
    mreq = [model_req(c) for c in cases]
    sreq = [spec_req(c) for c in cases]
    mres = o.call_many(mreq)
    idx = [i for i, r in enumerate(sreq) if r is not None]
    sres_part = o.call_many([sreq[i] for i in idx])
    sres = [list(REJECT) for _ in cases]
    for i, r in zip(idx, sres_part):
        sres[i] = r
    return mres, sres


def case_key(case):
    entry, sep, kind, codes, zutc = case
    return (entry, sep, tuple(codes), bool(zutc) if entry == 3 else True)


def case_hash(case):
    return int.from_bytes(hashlib.blake2b(repr(case_key(case)).encode(), digest_size=8).digest(), "big")


def case_json(case):
    entry, sep, kind, codes, zutc = case
    d = {"entry": ENTRY_NAMES[entry], "sep": sep, "kind": kind, "codes": list(codes),
         "text": "".join(chr(c) if 32 <= c < 127 else "\\x%02x" % c if c < 256 else "\\u%04x" % c for c in codes)}
    if entry == 3:
        d["zero_as_utc"] = bool(zutc)
    return d


def case_from_json(d):
    return (ENTRY_NAMES.index(d["entry"]), d.get("sep"), d.get("kind", "str"), tuple(d["codes"]),
            bool(d.get("zero_as_utc", True)))


# ----------------------------------------------------------------------------- rendering (spec, entry 20..24)

DLEN = [4, 7, 10, 8, 8, 7, 10, 8, 8, 7]
DFORMS = ["YYYY", "YYYY-MM", "YYYY-MM-DD", "YYYYMMDD", "YYYY-Www", "YYYYWww", "YYYY-Www-D", "YYYYWwwD",
          "YYYY-DDD", "YYYYDDD"]
TFORMS = ["hh", "hh:mm", "hhmm", "hh:mm:ss", "hhmmss", "hh:mm:ss.f", "hhmmss.f"]
OFORMS = ["none", "Z", "+-HH", "+-HHMM", "+-HH:MM"]
COMPLETE = [False, False, True, True, False, False, True, True, True, True]

YEARS = [1, 2, 4, 99, 100, 400, 999, 1000, 1582, 1583, 1600, 1900, 1999, 2000, 2001, 2004, 2008, 2009, 2014, 2015,
         2016, 2020, 2026, 2037, 2038, 2100, 9998, 9999]


def _dim(y, m):
    import calendar
    return calendar.monthrange(y, m)[1] if 1 <= y <= 9999 and 1 <= m <= 12 else 31


def draw_date(r, bad=False):
    y = r.choice(YEARS) if r.random() < 0.6 else r.randint(1, 9999)
    m = r.choice([1, 2, 12, r.randint(1, 12), r.randint(1, 12)])
    dim = _dim(y, m)
    d = r.choice([1, 2, 3, 4, 5, 6, 7, dim, dim - 1, dim - 2, dim - 3, r.randint(1, dim), r.randint(1, dim)])
    if bad:
        k = r.randrange(6)
        if k == 0:
            y = r.choice([0, 10000, -1])
        elif k == 1:
            m = r.choice([0, 13, 99])
        elif k == 2:
            d = r.choice([0, dim + 1, 32, 99])
    return y, m, d


def draw_time(r, bad=False):
    h = r.choice([0, 1, 11, 12, 13, 23, r.randint(0, 23), r.randint(0, 23)])
    mi = r.choice([0, 1, 30, 59, r.randint(0, 59)])
    s = r.choice([0, 1, 30, 59, r.randint(0, 59)])
    us = r.choice([0, 1, 9, 10, 100000, 123456, 999999, 999990, 500000, r.randint(0, 999999), r.randint(0, 999999)])
    if bad:
        k = r.randrange(5)
        if k == 0:
            h = r.choice([24, 25, 99])
        elif k == 1:
            mi = r.choice([60, 99])
        elif k == 2:
            s = r.choice([60, 61, 99])
    return h, mi, s, us


def draw_off(r, bad=False):
    kind = r.choice([0, 1, 2, 3, 4, 4])
    flag = r.randrange(2)
    oh = r.choice([0, 0, 1, 5, 12, 14, 23, r.randint(0, 23)])
    om = r.choice([0, 0, 1, 30, 45, 59, r.randint(0, 59)])
    if bad:
        k = r.randrange(3)
        if k == 0:
            oh = r.choice([24, 25, 99])
        elif k == 1:
            om = r.choice([60, 99])
    return kind, flag, oh, om


SEP_CFGS = [None, None, None, "T", " ", "t", "_", "x", "-", ":", "W", "Z", "+", ",", ".", "\n", "\x00", "\x7f"]


def draw_fmt(r, bad=False):
    """-> (sepcfg, df, has_time, tf, comma, k, sepbyte, extra)"""
    sepcfg = r.choice(SEP_CFGS)
    df = r.randrange(10)
    has_time = 1 if (COMPLETE[df] and r.random() < 0.85) else 0
    tf = r.randrange(7)
    comma = r.randrange(2)
    k = r.choice([1, 2, 3, 4, 5, 6, 6, 7, 8, 9, 9, 12, 20]) if tf >= 5 else 0
    if sepcfg is not None:
        sepbyte = ord(sepcfg)
    else:
        sepbyte = r.choice([84, 84, 32, 116, 95, 120, 45, 58, 87, 90, 43, 44, 46, 10, 0, 127, 48, 57, r.randrange(128)])
    extra = [r.randrange(10) for _ in range(max(0, k - 6))]
    if bad:
        q = r.randrange(6)
        if q == 0:
            has_time = 1                     # a time after an incomplete date
        elif q == 1 and sepcfg is not None:
            sepbyte = r.choice([84, 32, 45])  # a separator other than the configured one
        elif q == 2:
            sepbyte = r.choice([48, 53, 57])  # digit separator (not allowed after YYYYDDD)
        elif q == 3 and tf >= 5:
            k = 0
            extra = []
    return sepcfg, df, has_time, tf, comma, k, sepbyte, extra


def render_req(entry, fmt, dt, off):
    sepcfg, df, has_time, tf, comma, k, sepbyte, extra = fmt
    y, m, d, h, mi, s, us = dt
    return (entry, [(-1 if sepcfg is None else ord(sepcfg)), df, has_time, tf, comma, k, sepbyte] + list(off) +
            [y, m, d, h, mi, s, us] + list(extra))


def split_render(res):
    """[wf; valid; n; string...; expected...] -> (wf, valid, codes, expected)"""
    wf, valid, n = res[0], res[1], res[2]
    return bool(wf), bool(valid), tuple(res[3:3 + n]), res[3 + n:]


def fmt_label(fmt, off, e21=False):
    sepcfg, df, has_time, tf, comma, k, sepbyte, extra = fmt
    lab = DFORMS[df]
    if has_time:
        kb = "" if tf < 5 else ("0" if k == 0 else "1-5" if k < 6 else "6" if k == 6 else "7+")
        lab += "|" + TFORMS[tf] + kb + "|" + OFORMS[min(off[0], 4)]
        if e21:
            lab += "|24:00"
    return lab


# ----------------------------------------------------------------------------- python-side reference renderings
# (sanity of the Coq spec's render_iso against CPython's own formatting, for the forms CPython can print)


def py_reference(df, y, m, d):
    import datetime as D
    dt = D.date(y, m, d)
    iy, iw, iwd = dt.isocalendar()
    yd = dt.timetuple().tm_yday
    return ["%04d" % y, "%04d-%02d" % (y, m), dt.isoformat(), "%04d%02d%02d" % (y, m, d),
            "%04d-W%02d" % (iy, iw), "%04dW%02d" % (iy, iw), "%04d-W%02d-%d" % (iy, iw, iwd),
            "%04dW%02d%d" % (iy, iw, iwd), "%04d-%03d" % (y, yd), "%04d%03d" % (y, yd)][df]


# ----------------------------------------------------------------------------- pools


def _retrying(arg):
    """bin/oracle_iso can be re-linked in place by a concurrently running check of another tree (common.build_oracle);
    a worker whose oracle process dies is restarted (jobs are deterministic functions of their tag)."""
    fn, job = arg
    for attempt in range(4):
        try:
            return fn(job)
        except (RuntimeError, BrokenPipeError, OSError) as ex:
            if attempt == 3 or not ("died" in str(ex) or isinstance(ex, (BrokenPipeError, OSError))):
                raise
            time.sleep(3 + 4 * attempt)


def run_pool(fn, jobs, nproc):
    try:
        nproc = max(1, min(nproc, int(os.environ.get("VERIF_NPROC", nproc))))
    except ValueError:
        pass
    wrapped = [(fn, j) for j in jobs]
    if nproc <= 1 or len(jobs) <= 1:
        return [_retrying(w) for w in wrapped]
    ctx = multiprocessing.get_context("fork")
    with ctx.Pool(min(nproc, len(jobs))) as p:
        return p.map(_retrying, wrapped, chunksize=1)


def merge_hist(a, b):
    for k, v in b.items():
        a[k] = a.get(k, 0) + v
    return a


def measure_anchor_coverage(fn):
    """run fn() under coverage.py restricted to isoparser.py; returns (result, summary dict)"""
    try:
        import coverage
    except Exception:
        return fn(), {"available": False}
    path = os.path.join(C.SRC, "dateutil", "parser", "isoparser.py")
    cov = coverage.Coverage(branch=True, include=[path], data_file=None)
    cov.start()
    try:
        res = fn()
    finally:
        cov.stop()
    try:
        an = cov._analyze(path)
        nums = an.numbers
        # statements executed at import time (module / class level, def and decorator lines) were run before
        # the measurement started when the module was already imported: do not count them as missing
        import ast
        tree = ast.parse(open(path).read())
        import_time = set()

        def walk(body):
            for n in body:
                first = min([n.lineno] + [d.lineno for d in getattr(n, "decorator_list", [])])
                if isinstance(n, (ast.FunctionDef, ast.AsyncFunctionDef)):
                    import_time.update(range(first, n.body[0].lineno))
                elif isinstance(n, ast.ClassDef):
                    import_time.update(range(first, n.body[0].lineno))
                    walk(n.body)
                else:
                    import_time.update(range(n.lineno, (n.end_lineno or n.lineno) + 1))
        walk(tree.body)
        missing_fn = sorted(l for l in an.missing if l not in import_time)
        return res, {"available": True, "file": "src/dateutil/parser/isoparser.py",
                     "statements": nums.n_statements,
                     "missing_statements_inside_functions": len(missing_fn),
                     "branches": nums.n_branches, "missing_branches": nums.n_missing_branches,
                     "missing_lines_inside_functions": missing_fn[:60]}
    except Exception as ex:
        return res, {"available": False, "error": repr(ex)}


# ----------------------------------------------------------------------------- model <-> source tie


def theorem_names(cid):
    import re
    src = open(os.path.join(C.COQ, "props", cid + ".v")).read()
    src = re.sub(r"\(\*.*?\*\)", "", src, flags=re.S)
    return re.findall(r"^\s*Theorem\s+([A-Za-z0-9_']+)", src, flags=re.M)


def gen_poisoned():
    """common.regenerate() replaces coq/gen/IsoGen.v by a non-compiling file when gen_iso.py aborts"""
    try:
        txt = open(os.path.join(C.COQ, "gen", "IsoGen.v")).read()
    except OSError:
        return "coq/gen/IsoGen.v is missing"
    return txt[:1800] if "generator_failed" in txt else ""


def broken_kind(build_err, props):
    if props.get("poison"):
        return ("broken proof obligation: the source-to-Coq translator harness/gen_iso.py ABORTED on isoparser.py "
                "(construct outside its accepted subset, or a pinned hand-modelled part changed); the gen_* = model "
                "obligations do not check")
    if build_err is not None:
        return ("broken proof obligation: the source-to-Coq translator aborted or the build failed (%s); "
                "the gen_* = model obligations were not re-checked" % build_err.what)
    missing = [t for t in props["theorems"][props["discharged"]:]]
    if missing and all("_gen_" in t for t in missing):
        return ("broken proof obligation: the functions regenerated from isoparser.py (coq/gen/IsoGen.v) are no longer "
                "proved equal to the hand model: " + ", ".join(missing[:4]))
    return "broken proof obligation"


def model_tie(build_err, props):
    gen = [t for t in props["theorems"] if "_gen_" in t]
    return {
        "how": "coq/gen/IsoGen.v is regenerated from VERIF_REPO/src/dateutil/parser/isoparser.py by the fail-closed "
               "Python-ast translator harness/gen_iso.py on this run; coq/iso/IsoGenThm.v proves every translated "
               "function equal to the hand model for all inputs; the differential run below additionally compares the "
               "running implementation with the extracted model and spec",
        "translator_aborted": bool(props.get("poison")) or build_err is not None,
        "translator_message": (props.get("poison", "")[-600:] or (build_err.log[-400:] if build_err is not None else "")),
        "gen_obligations": gen,
        "gen_obligations_discharged": [t for t in gen if t in props["theorems"][:props["discharged"]]],
        "hand_modelled_and_pinned_by_ast_hash": ["isoparser.__init__", "module tail (DEFAULT_ISOPARSER, isoparse, __all__)",
                                                 "import block", "arguments of raise ValueError(...)"],
    }


def apply_poison(props):
    """If the translator aborted, common.regenerate() poisoned coq/gen/IsoGen.v; the stale IsoGen.vo / IsoGenThm.vo of
    the previous (clean) build may still be on disk and let props/<cid>.v compile.  The gen_* obligations were NOT
    re-checked against this source: count them as not discharged."""
    msg = gen_poisoned()
    if not msg:
        return props
    p = dict(props)
    core = [t for t in p["theorems"] if "_gen_" not in t]
    p["discharged"] = min(p["discharged"], len(core))
    p["ok"] = False
    p["poison"] = msg
    p["log"] = "TRANSLATOR ABORTED (coq/gen/IsoGen.v poisoned):\n" + msg + "\n" + p.get("log", "")
    for ext in (".vo", ".vos", ".vok", ".glob"):      # do not leave a stale compiled copy of a file that is not there
        for stem in ("gen/IsoGen", "iso/IsoGenThm", "iso/IsoGenCor"):
            try:
                os.remove(os.path.join(C.COQ, stem + ext))
            except OSError:
                pass
    return p
