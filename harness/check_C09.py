#!/usr/bin/env python3
"""C09 -- relativedelta(dt1, dt2) is the calendar difference that carries dt2 onto dt1.
Theorems (coq/props/C09.v) + correspondence of the real two-argument constructor with the
extracted model (mk_diff) + the executable SPEC predicate (diff_ok: only relative fields,
normalised, dt2 + d = dt1, months part maximal) evaluated on every implementation result."""
import datetime as _dt
import json
import os
import sys
import time

sys.path.insert(0, os.path.dirname(os.path.abspath(__file__)))
import common as C

C.reexec_under_impl_python()
import rd_common as R
import hashlib


def _h(txt):
    """8-byte digest of a canonical JSON text (distinctness is counted on digests)"""
    return hashlib.blake2b(txt.encode(), digest_size=8).digest()

CID = "C09"
VO = ["props/C09.vo"] + R.VO_MODEL
# relativedelta.py: two-argument branch of __init__, _fix, _set_months, __add__ on a date, __radd__
ANCHOR_RANGES = [(112, 169), (232, 263), (273, 281), (363, 406)]
REPORT = ("diff_ok", "only_relative", "normalised", "dt2_plus_d_is_dt1", "months_maximal")


def promote(o):
    if isinstance(o, _dt.datetime):
        return o
    return _dt.datetime.fromordinal(o.toordinal())


def kind(o):
    if not isinstance(o, _dt.datetime):
        return "date"
    return "aware" if o.tzinfo is not None else "naive"


# ------------------------------------------------------------------ generators

def boundary_dates(tier):
    import calendar
    out = []
    years = [1999, 2000, 2001, 2100] if tier == "quick" else [1999, 2000, 2001, 2100, 1, 9999, 2004, 1900]
    for y in years:
        for m in range(1, 13):
            dim = calendar.monthrange(y, m)[1]
            for d in sorted({1, 28, 29, 30, 31, dim} & set(range(1, dim + 1))):
                out.append((y, m, d))
    return out


TIMES = [(0, 0, 0, 0), (23, 59, 59, 999999), (12, 0, 0, 0), (0, 0, 0, 1), (11, 59, 59, 999999)]


def exhaustive_cases(tier):
    """all ordered pairs of month-boundary dates (as dates), and the same pairs as datetimes with
    boundary times of day"""
    bd = boundary_dates(tier)
    out = []
    for a in bd:
        for b in bd:
            out.append((_dt.date(*a), _dt.date(*b)))
    r = C.rng("C09/exh-times")
    for a in bd:
        for b in bd:
            ta, tb = r.choice(TIMES), r.choice(TIMES)
            out.append((_dt.datetime(*(a + ta)), _dt.datetime(*(b + tb))))
    return out


def gen_pair(r):
    c = r.random()
    kinds = r.choice([("date", "date"), ("naive", "naive"), ("naive", "naive"), ("date", "naive"),
                      ("naive", "date"), ("aware", "aware")])
    a = R.gen_operand(r, kinds=(kinds[0],))
    if c < 0.45:
        # close pair: dt2 within a few months of dt1, day of month near the month end
        import calendar
        delta = r.randint(-75, 75)
        try:
            bdate = _dt.date.fromordinal(a.toordinal() + delta)
        except (ValueError, OverflowError):
            bdate = _dt.date(a.year, a.month, a.day)
        if r.random() < 0.5:
            dim = calendar.monthrange(bdate.year, bdate.month)[1]
            bdate = bdate.replace(day=min(dim, r.choice([28, 29, 30, 31, 1, a.day])))
        y, m, d = bdate.year, bdate.month, bdate.day
    elif c < 0.6:
        y, m, d = a.year, a.month, a.day            # same day
    else:
        y, m, d = R.gen_date(r)
    if kinds[1] == "date":
        b = _dt.date(y, m, d)
    else:
        c2 = r.random()
        if c2 < 0.3 and isinstance(a, _dt.datetime):
            hh, mi, ss, us = a.hour, a.minute, a.second, a.microsecond
            if r.random() < 0.6:
                us = max(0, min(999999, us + r.choice([-1, 1])))
        else:
            hh, mi, ss, us = R.gen_time(r)
        tzinfo = a.tzinfo if kinds[1] == "aware" else None      # one common zone object
        b = _dt.datetime(y, m, d, hh, mi, ss, us, tzinfo=tzinfo)
    return a, b


# ------------------------------------------------------------------ aware operands, DISTINCT tzinfo objects

def lin_us(o):
    """position of the wall value on the model's time line (microseconds since 0001-01-01T00:00)"""
    return ((o.toordinal() - 1) * 86400 + o.hour * 3600 + o.minute * 60 + o.second) * 10 ** 6 + o.microsecond


def zone_pair(desc):
    """two DISTINCT tzinfo objects describing one zone"""
    from dateutil import tz
    if desc[0] == "tzoffset":
        return tz.tzoffset("A", desc[1]), tz.tzoffset("B", desc[1])
    if desc[0] == "tzrange":
        return tz.tzrange("EST", -18000, "EDT"), tz.tzrange("EST", -18000, "EDT")
    raise ValueError(desc)


def gen_distinct(r):
    """(zone description, naive dt1, naive dt2)"""
    import calendar
    if r.random() < 0.3:
        desc = ["tzoffset", r.choice([0, 3600, -18000, 19800, 86340, -86340])]
    else:
        desc = ["tzrange"]
    y = r.randint(1990, 2035)
    c = r.random()
    if c < 0.7:
        # around the default tzrange transitions: first Sunday of April, last Sunday of October, 02:00
        if r.random() < 0.5:
            first = _dt.date(y, 4, 1)
            tr = first + _dt.timedelta(days=(6 - first.weekday()) % 7)
        else:
            last = _dt.date(y, 10, 31)
            tr = last - _dt.timedelta(days=(last.weekday() - 6) % 7)
        a = _dt.datetime(tr.year, tr.month, tr.day) + _dt.timedelta(days=r.randint(-3, 3), hours=r.randint(0, 23),
                                                                      minutes=r.choice([0, 30, 59]))
        b = a + _dt.timedelta(days=r.randint(-70, 70), hours=r.randint(-23, 23), seconds=r.randint(0, 59),
                              microseconds=r.choice([0, 1, 999999]))
    else:
        a = _dt.datetime(y, r.randint(1, 12), r.randint(1, 28), *R.gen_time(r))
        y2 = r.randint(1990, 2035)
        m2 = r.randint(1, 12)
        b = _dt.datetime(y2, m2, min(r.choice([1, 28, 29, 30, 31]), calendar.monthrange(y2, m2)[1]), *R.gen_time(r))
    return (desc, a, b) if r.random() < 0.5 else (desc, b, a)


def run_distinct(cases, oracle, want_samples=0):
    """cases: (zone description, naive dt1, naive dt2).  The operands get two distinct tzinfo objects."""
    from dateutil.relativedelta import relativedelta
    diffs, samples, hist = [], [], {}
    cnt = {"distinct_evaluations": 0, "distinct_model_diff": 0, "distinct_inverse_fails": 0,
           "distinct_offset_changes": 0, "distinct_impl_errors": 0}
    reqs, plan = [], []
    for desc, n1, n2 in cases:
        za, zb = zone_pair(desc)
        dt1, dt2 = n1.replace(tzinfo=za), n2.replace(tzinfo=zb)
        cnt["distinct_evaluations"] += 1
        hk = "distinct:" + desc[0]
        hist[hk] = hist.get(hk, 0) + 1
        item = {"desc": desc, "dt1": dt1, "dt2": dt2}
        try:
            d = relativedelta(dt1, dt2)
            item["r"] = ("ok", R.rd_proj(d))
            back = dt2 + d
            item["back"] = R.dt_proj(back)
            # same wall value and same utcoffset (not `back == dt1`: by PEP 495 an inter-zone == is False
            # whenever an operand lies in a fold or gap, even for identical wall values)
            item["back_ok"] = (back.replace(tzinfo=None) == n1) and (back.utcoffset() == dt1.utcoffset())
            dtm = dt2 + relativedelta(years=d.years, months=d.months)
            item["off_pair"] = [int(dt1.utcoffset().total_seconds()), int(dtm.utcoffset().total_seconds())]
        except Exception as ex:
            cnt["distinct_impl_errors"] += 1
            item["r"] = ("err", R.exc_code(ex))
            item["back"], item["back_ok"], item["off_pair"] = None, False, None
        # utcoffset at every wall value the constructor can consult: the operands and dt2 shifted by the
        # candidate month counts (the shift itself is C03's verified wall-clock addition)
        pts = {lin_us(dt1): dt1.utcoffset(), lin_us(dt2): dt2.utcoffset()}
        m0 = (dt1.year - dt2.year) * 12 + (dt1.month - dt2.month)
        for k in (-3, -2, -1, 0, 1, 2, 3):
            try:
                x = dt2 + relativedelta(months=m0 + k)
            except Exception:
                continue
            pts[lin_us(x)] = x.utcoffset()
        tab = []
        for l, off in sorted(pts.items()):
            tab += [l, (off.days * 86400 + off.seconds) * 10 ** 6 + off.microseconds]
        item["offsets"] = sorted(set(tab[1::2]))
        item["slot"] = len(reqs)
        reqs.append((R.E_MKDIFF_AWARE, [len(tab) // 2] + tab + R.enc_dt(dt1) + R.enc_dt(dt2)))
        plan.append(item)
    res = oracle.call_many(reqs)
    for item in plan:
        model = R.dec_res_rd(res[item["slot"]])
        inp = {"dt1": R.dt_proj(item["dt1"]), "dt2": R.dt_proj(item["dt2"]), "distinct_tzinfo_objects": True,
               "zone": item["desc"], "utcoffsets_us_consulted": item["offsets"],
               "utcoffset_s_of_dt1_and_of_shifted_dt2": item["off_pair"]}
        if len(item["offsets"]) > 1:
            cnt["distinct_offset_changes"] += 1
        # model vs implementation FIRST and unconditionally: the finding's matcher may excuse the inverse-law
        # failure only, never a changed relativedelta(dt1, dt2)
        if model != item["r"]:
            cnt["distinct_model_diff"] += 1
            diffs.append(({"kind": "correspondence: model mk_diff_aware differs from relativedelta(dt1, dt2) "
                                   "(aware operands, distinct tzinfo objects)", "input": inp,
                           "impl": item["r"], "model": model}, False))
        if not item["back_ok"]:
            cnt["distinct_inverse_fails"] += 1
            diffs.append(({"kind": "aware operands of one zone in two distinct tzinfo objects: "
                                   "dt2 + relativedelta(dt1, dt2) != dt1", "input": inp, "impl": item["r"],
                           "impl_dt2_plus_d": item["back"]}, True))
        if len(samples) < want_samples:
            samples.append({"distinct_tzinfo": inp, "impl": item["r"], "model": model,
                            "impl_dt2_plus_d": item["back"], "inverse_holds": item["back_ok"]})
    return {"diffs": diffs, "hist": hist, "samples": [], "dsamples": samples, "cnt": cnt, "nontrivial": set()}


def m_distinct_tzinfo_offset_change(payload):
    """F-C09-distinct-tzinfo: aware operands whose tzinfo attributes are distinct objects AND the zone's
    utcoffset at dt1 differs from the one at dt2 shifted by the result's years/months (the residual is then
    a UTC duration, but it is added back as wall-clock time)"""
    inp = payload.get("input") or {}
    pair = inp.get("utcoffset_s_of_dt1_and_of_shifted_dt2")
    return (payload.get("kind", "").startswith("aware operands of one zone in two distinct tzinfo objects")
            and inp.get("distinct_tzinfo_objects") is True and isinstance(pair, list) and len(pair) == 2
            and pair[0] != pair[1])


MATCHERS = {"m_distinct_tzinfo_offset_change": m_distinct_tzinfo_offset_change}


def malformed_pairs():
    z = R.zones()
    return [(_dt.datetime(2000, 1, 1, tzinfo=z["utc"]), _dt.datetime(2001, 1, 1)),
            (_dt.datetime(2000, 1, 1), _dt.datetime(1999, 1, 1, tzinfo=z["utc"])),
            ("2000-01-01", _dt.date(2000, 1, 1)), (_dt.date(2000, 1, 1), 5),
            (_dt.timedelta(1), _dt.date(2000, 1, 1))]


# ------------------------------------------------------------------ evaluation

def run_batch(pairs, oracle, want_samples=0):
    from dateutil.relativedelta import relativedelta
    hist, diffs, samples = {}, [], []
    cnt = {"evaluations": 0, "model_compared": 0, "spec_evaluated": 0, "model_diff": 0, "spec_diff": 0,
           "self_diff": 0, "impl_errors": 0, "loop_iter_0": 0, "loop_iter_1": 0, "loop_iter_2plus": 0,
           "clipped_shift": 0, "same_instant": 0}
    nontrivial = set()
    reqs, plan = [], []
    for (dt1, dt2) in pairs:
        cnt["evaluations"] += 1
        k = "pair:%s/%s" % (kind(dt1), kind(dt2))
        hist[k] = hist.get(k, 0) + 1
        item = {"dt1": dt1, "dt2": dt2}
        try:
            d = relativedelta(dt1, dt2)
            item["d"] = d
            item["r"] = ("ok", R.rd_proj(d))
        except Exception as ex:
            cnt["impl_errors"] += 1
            item["r"] = ("err", R.exc_code(ex))
            d = None
        e1, e2 = R.enc_dt(dt1), R.enc_dt(dt2)
        item["s_model"] = len(reqs)
        reqs.append((R.E_MKDIFF, e1 + e2))
        if d is not None:
            p = item["r"][1]
            try:
                back = dt2 + d
                item["back"] = ("ok", R.dt_proj(back))
                item["back_ok"] = (promote(back) == promote(dt1))
            except Exception as ex:
                item["back"] = ("err", R.exc_code(ex))
                item["back_ok"] = False
            if R.proj_is_int(p) and R.fits(R.enc_proj(p)):
                item["s_spec"] = len(reqs)
                reqs.append((R.S_DIFF, e1 + e2 + R.enc_proj(p)))
                item["s_pred"] = len(reqs)
                reqs.append((R.S_PRED, R.enc_proj(p)))
            m0 = (dt1.year - dt2.year) * 12 + (dt1.month - dt2.month)
            it = abs(d.years * 12 + d.months - m0)
            cnt["loop_iter_0" if it == 0 else ("loop_iter_1" if it == 1 else "loop_iter_2plus")] += 1
            hk = "months:%s" % ("0" if m0 == 0 else ("+" if m0 > 0 else "-"))
            hist[hk] = hist.get(hk, 0) + 1
        plan.append(item)
    res = oracle.call_many(reqs)

    for item in plan:
        dt1, dt2 = item["dt1"], item["dt2"]
        inp = {"dt1": R.dt_json(dt1), "dt2": R.dt_json(dt2)}
        model = R.dec_res_rd(res[item["s_model"]])
        cnt["model_compared"] += 1
        reported = False
        rep = None
        if "s_spec" in item:
            rep = dict(zip(REPORT, res[item["s_spec"]]))
            cnt["spec_evaluated"] += 1
            if res[item["s_spec"]][0] != 1:
                cnt["spec_diff"] += 1
                reported = True
                diffs.append(({"kind": "relativedelta(dt1, dt2) is not the calendar difference the property demands "
                                       "(failed parts have value 0)", "input": inp, "impl": item["r"],
                               "spec_report": rep}, True))
            same = (promote(dt1) == promote(dt2))
            if same:
                cnt["same_instant"] += 1
                if res[item["s_pred"]][1] != 1 and not reported:
                    cnt["spec_diff"] += 1
                    reported = True
                    diffs.append(({"kind": "relativedelta(dt, dt) is not empty", "input": inp, "impl": item["r"]},
                                  True))
        elif item["r"][0] == "err":
            # the constructor must not fail on valid operands of one kind
            cnt["spec_diff"] += 1
            reported = True
            diffs.append(({"kind": "relativedelta(dt1, dt2) raised on valid operands", "input": inp,
                           "impl": item["r"]}, True))
        if "back_ok" in item and not item["back_ok"] and not reported:
            cnt["self_diff"] += 1
            reported = True
            diffs.append(({"kind": "dt2 + relativedelta(dt1, dt2) != dt1", "input": inp, "impl": item["r"],
                           "impl_dt2_plus_d": item["back"]}, True))
        if model != item["r"]:
            cnt["model_diff"] += 1
            if not reported:
                diffs.append(({"kind": "correspondence: model mk_diff differs from relativedelta(dt1, dt2)",
                               "input": inp, "impl": item["r"], "model": model, "spec_report": rep}, False))
        if item["r"][0] == "ok":
            d = item["d"]
            if bool(d):
                nontrivial.add(_h(json.dumps(inp, sort_keys=True)))
            if (d.years or d.months) and dt2.day > 28 and "back_ok" in item:
                # the whole-month shift of dt2 had to clip the day
                import calendar
                t = dt2.year * 12 + dt2.month - 1 + d.years * 12 + d.months
                if 12 <= t < 120000 and calendar.monthrange(t // 12, t % 12 + 1)[1] < dt2.day:
                    cnt["clipped_shift"] += 1
        if len(samples) < want_samples:
            samples.append({"dt1": R.dt_json(dt1), "dt2": R.dt_json(dt2), "impl": item["r"], "model": model,
                            "spec_report": rep, "impl_dt2_plus_d": item.get("back")})
    return {"diffs": diffs, "hist": hist, "samples": samples, "cnt": cnt, "nontrivial": nontrivial}


def run_malformed():
    """operands outside the property's domain: must be rejected with TypeError, never mis-diffed"""
    from dateutil.relativedelta import relativedelta
    bad = []
    for a, b in malformed_pairs():
        try:
            v = relativedelta(a, b)
            bad.append((repr(a), repr(b), "returned " + repr(v)))
        except TypeError:
            pass
        except Exception as ex:
            bad.append((repr(a), repr(b), type(ex).__name__))
    return bad


def load_corpus():
    path = os.path.join(C.VERIF, "corpus", "regressions", CID + ".jsonl")
    out = []
    if os.path.exists(path):
        for line in open(path):
            line = line.strip()
            if line and not line.startswith("#"):
                j = json.loads(line)
                out.append((R.dt_from_json(j["dt1"]), R.dt_from_json(j["dt2"])))
    return out


def worker(job):
    what, tier, lo, hi = job
    o = C.Oracle("rd")
    try:
        if what == "exh":
            pairs = exhaustive_cases(tier)[lo:hi]
        elif what == "corpus":
            pairs = load_corpus()
        elif what == "distinct":
            out = run_distinct([gen_distinct(C.rng("C09/distinct/%d" % i)) for i in range(lo, hi)], o, want_samples=2)
            out["nontrivial"] = []
            return out
        else:
            pairs = [gen_pair(C.rng("C09/%d" % i)) for i in range(lo, hi)]
        out = run_batch(pairs, o, want_samples=2)
    finally:
        o.close()
    out["nontrivial"] = list(out["nontrivial"])
    return out


def replay(path):
    data = json.load(open(path))
    C.ensure_built([R.AREA], VO)
    inp = data.get("input")
    if isinstance(inp, dict) and inp.get("distinct_tzinfo_objects"):
        n1, n2 = _dt.datetime(*inp["dt1"][1:]), _dt.datetime(*inp["dt2"][1:])
        o = C.Oracle(R.AREA)
        out = run_distinct([(inp["zone"], n1, n2)], o, want_samples=1)
        o.close()
        for smp in out["dsamples"]:
            print("input      dt1=%r dt2=%r in two distinct tzinfo objects of zone %r" % (n1, n2, inp["zone"]))
            print("impl       relativedelta(dt1, dt2) =", smp["impl"])
            print("model      mk_diff_aware           =", smp["model"])
            print("impl       dt2 + d                 =", smp["impl_dt2_plus_d"], " inverse holds:", smp["inverse_holds"])
        for payload, concrete in out["diffs"]:
            print("DIFF (%s): %s" % ("concrete" if concrete else "model only", json.dumps(payload, default=str)))
        return 1 if out["diffs"] else 0
    if not (isinstance(inp, dict) and "dt1" in inp):
        print("replay names a broken obligation, no concrete input:", json.dumps(data, indent=1)[:3000])
        return 0
    dt1, dt2 = R.dt_from_json(inp["dt1"]), R.dt_from_json(inp["dt2"])
    o = C.Oracle(R.AREA)
    out = run_batch([(dt1, dt2)], o, want_samples=1)
    o.close()
    print("input      dt1=%r dt2=%r" % (dt1, dt2))
    for smp in out["samples"]:
        print("impl       relativedelta(dt1, dt2) =", smp["impl"])
        print("model      mk_diff dt1 dt2         =", smp["model"])
        print("spec       diff_ok report          =", smp["spec_report"])
        print("impl       dt2 + d                 =", smp["impl_dt2_plus_d"])
    for payload, concrete in out["diffs"]:
        print("DIFF (%s): %s" % ("concrete" if concrete else "model only", json.dumps(payload, default=str)))
    return 1 if out["diffs"] else 0


def main():
    argv = sys.argv[1:]
    if "--replay" in argv:
        return replay(argv[argv.index("--replay") + 1])
    tier = C.tier_from_argv(argv)
    t0 = time.time()
    verdict = C.Verdict(CID, MATCHERS)
    build_err = None
    try:
        C.ensure_built([R.AREA], VO)
    except C.BuildError as ex:
        build_err = ex
    if build_err is not None:
        props = {"obligations": 1, "discharged": 0, "theorems": [], "assumptions": {},
                 "cmd": "coqc props/C09.v", "log": build_err.log, "ok": False}
    else:
        props = C.compile_props(CID)
    # the obligations about the TRANSLATED source: compile_props() regenerates coq/gen from this run's
    # source tree, rebuilds and compiles the props file under one hold of the build lock; a private
    # re-check (rd_common.private_gen_check) is available with VERIF_PRIVATE_GEN=1
    priv = {"cached": None}
    if os.environ.get("VERIF_PRIVATE_GEN") == "1":
        priv = R.private_gen_check(CID)
        props = R.merge_private(CID, props, priv)
    translator_errors = R.translator_errors()
    for te in translator_errors:
        print("TRANSLATE-ERROR %s" % te[:300])
    if not props["ok"]:
        print("%s: proof obligations discharged %d/%d (broken: see evidence / replay)" % (
            CID, props["discharged"], props["obligations"]))

    n_rand = 40000 if tier == "quick" else 2500000
    procs = R.nprocs(tier)
    n_exh = len(exhaustive_cases(tier))
    jobs = [("corpus", tier, 0, 0)]
    step = max(2000, (n_exh + procs * 3 - 1) // (procs * 3))
    jobs += [("exh", tier, lo, min(n_exh, lo + step)) for lo in range(0, n_exh, step)]
    step = max(2000, n_rand // (procs * 6))
    jobs += [("rand", tier, lo, min(n_rand, lo + step)) for lo in range(0, n_rand, step)]
    n_distinct = 6000 if tier == "quick" else 300000
    step = max(2000, n_distinct // (procs * 3))
    jobs += [("distinct", tier, lo, min(n_distinct, lo + step)) for lo in range(0, n_distinct, step)]
    have_oracle = os.path.exists(os.path.join(C.BIN, "oracle_rd"))
    total = {"diffs": [], "hist": {}, "samples": [], "cnt": {}, "nontrivial": set(), "dsamples": []}
    cov_summary = {"available": False}
    if have_oracle:
        # one small shard in-process under coverage.py (anchored lines), the rest in the pool
        first, cov_summary = R.measure_anchor_coverage(
            lambda: [worker(("corpus", tier, 0, 0)), worker(("rand", tier, n_rand, n_rand + 1500))], ANCHOR_RANGES)
        for out in first + R.pool_map(worker, jobs[1:], procs):
            total["diffs"] += out["diffs"]
            R.merge_hist(total["hist"], out["hist"])
            R.merge_hist(total["cnt"], out["cnt"])
            total["samples"] += out["samples"]
            total["dsamples"] += out.get("dsamples", [])
            total["nontrivial"].update(out["nontrivial"])
    for payload, concrete in sorted(total["diffs"], key=lambda pc: (not pc[1],)):
        verdict.violation(payload, concrete=concrete)
    mal = run_malformed()
    for a, b, what in mal:
        verdict.violation({"kind": "operands outside the domain are not rejected with TypeError",
                           "input": {"dt1": a, "dt2": b}, "impl": what}, concrete=False)
    if (not props["ok"] or not have_oracle) and not verdict.violations:
        verdict.violation({"kind": ("translator abort (harness/gen_rd_add.py / gen_rd_methods.py reject the source: "
                                    "the model is no longer shown to be the code) -- " + "; ".join(translator_errors)[:600])
                           if translator_errors else "broken proof obligation", "theorem_file": "coq/props/C09.v",
                           "theorems": props["theorems"], "discharged": props["discharged"],
                           "input": None, "log_tail": props["log"][-3000:]}, concrete=False)
    rc = verdict.finish()
    cnt = total["cnt"]
    cov = {
        "evaluations": cnt.get("evaluations", 0),
        "distinct_nontrivial": len(total["nontrivial"]),
        "rule": "a case is an ordered pair (dt1, dt2) of dates / naive datetimes / aware datetimes of one common "
                "zone object (mixed date/datetime allowed); relativedelta(dt1, dt2) and dt2 + it run on the "
                "implementation, mk_diff on the extracted model, and the extracted spec predicate diff_ok "
                "(only relative fields, normalised, spec_add d dt2 = dt1, months part maximal) on the "
                "implementation's result. Distinct = distinct pair JSON; non-trivial = the difference is not empty. "
                "Streams: regression corpus, small-scope exhaustive (all ordered pairs of month-boundary days "
                "{1,28,29,30,31,last} of %s, once as dates and once as datetimes with boundary times), "
                "random (%d): 45%% close pairs (within 75 days, month-end biased), 15%% same day, 40%% "
                "independent boundary-biased over years 1..9999 at microsecond resolution" % (
                    "1999-2001,2100" if tier == "quick" else "1999-2001,2100,1,9999,2004,1900", n_rand),
        "exhaustive": False,
        "small_scope_exhaustive_cases": n_exh,
        "samples": total["samples"][:10],
        "input_distribution": dict(sorted(total["hist"].items())),
        "counts": cnt,
        "overshoot_loop_iterations": {"0": cnt.get("loop_iter_0", 0), "1": cnt.get("loop_iter_1", 0),
                                      ">=2": cnt.get("loop_iter_2plus", 0)},
        "model_vs_impl_disagreements": cnt.get("model_diff", 0),
        "spec_vs_impl_disagreements": cnt.get("spec_diff", 0),
        "self_check_disagreements": cnt.get("self_diff", 0),
        "malformed_stream": {"cases": len(malformed_pairs()), "not_rejected": len(mal)},
        "distinct_tzinfo_stream": {"cases": cnt.get("distinct_evaluations", 0),
                                   "what": "aware operands of ONE zone held in two distinct tzinfo objects (two "
                                           "tz.tzoffset of one offset; two tz.tzrange('EST',-18000,'EDT')), pairs "
                                           "around the DST transitions; model = RdAwareModel.mk_diff_aware with the "
                                           "utcoffsets observed on the implementation",
                                   "offset_changes_between_consulted_points": cnt.get("distinct_offset_changes", 0),
                                   "model_vs_impl_disagreements": cnt.get("distinct_model_diff", 0),
                                   "inverse_law_failures": cnt.get("distinct_inverse_fails", 0),
                                   "samples": total["dsamples"][:4]},
        "partial_theorems": [t for t in props["theorems"] if t.endswith("_partial")],
        "theorem_guards": {"all C09 theorems": "both operands valid dates / naive datetimes (year 1..9999); mixed "
                           "date/datetime pairs are coerced to datetimes exactly as the constructor does"},
        "reading_of_equals": "for MIXED date/datetime pairs 'dt2 + d equals dt1' is checked after promoting a date to "
                             "the datetime at its midnight (a Python datetime never == a date); theorem "
                             "C09_diff_inverse_uncoerced states the same reading; for operands of one kind it is literal",
        "only_differential_tested": ["aware pairs sharing ONE tzinfo object: NO theorem (the model has no tzinfo; CPython "
                                      "then compares and subtracts wall times)",
                                      "aware pairs with DISTINCT tzinfo objects: modelled (RdAwareModel); theorem guard = "
                                      "complement of the finding's matcher (C09_aware_distinct_inverse)",
                                      "rejection of non-date / mixed naive-aware operands (TypeError)"],
        "known_findings_hit": verdict.known_hits,
        "translated_source": {"translator_errors": translator_errors,
                              "gen_obligations": [t for t in props["theorems"] if "_gen_" in t],
                              "private_recheck": ("not requested" if priv.get("cached") is None else
                                                  "cached result for identical inputs" if priv.get("cached") else "compiled in this run"),
                              "what": "gen/RdAddGen.v + gen/RdMethodsGen.v are regenerated from the source by the "
                                      "fail-closed translators harness/gen_rd_add.py / gen_rd_methods.py; the "
                                      "*_gen_* theorems prove generated = hand model for all inputs"},
        "anchor_coverage_of_one_shard": dict(cov_summary, note="expected missing: 116 (TypeError, exercised by the "
                                             "malformed stream outside the measured shard), 233-236 and 253-256 (_fix "
                                             "carries of microseconds / months: unreachable from this constructor, "
                                             "timedelta.microseconds < 10^6 and _set_months already normalises), 363, "
                                             "383/386/394-401 (absolute fields, leapdays and weekday of __add__: a "
                                             "difference never has them -- theorem C09_diff_only_relative)"),
    }
    C.write_evidence(CID, tier, t0, props, cov,
                     ["CPython datetime/date/timedelta comparison and subtraction modelled on the time line "
                      "(coq/rd/RdBase.v lin / dt_of_lin over coq/base/Cal.v), tied by this correspondence",
                      "aware datetimes of one tzinfo object behave as naive ones (CPython rule), not modelled"],
                     len(verdict.violations))
    print("C09 %s: obligations %d/%d, %d pairs (%d exhaustive-stream), %d distinct non-trivial, loop iterations "
          "0/1/2+ = %d/%d/%d, model-diff %d, spec-diff %d, self-diff %d, distinct-tzinfo stream %d cases / %d model-diff / "
          "%d inverse failures (known findings %d), %.1fs" % (
              tier, props["discharged"], props["obligations"], cnt.get("evaluations", 0), n_exh,
              len(total["nontrivial"]), cnt.get("loop_iter_0", 0), cnt.get("loop_iter_1", 0),
              cnt.get("loop_iter_2plus", 0), cnt.get("model_diff", 0), cnt.get("spec_diff", 0),
              cnt.get("self_diff", 0), cnt.get("distinct_evaluations", 0), cnt.get("distinct_model_diff", 0),
              cnt.get("distinct_inverse_fails", 0), sum(verdict.known_hits.values()), time.time() - t0))
    return rc


if __name__ == "__main__":
    sys.exit(main())
