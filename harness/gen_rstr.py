#!/usr/bin/env python3
"""Fail-closed translator:  /repo/src/dateutil/rrule.py  ->  coq/gen/RstrGen.v

Translates, from the Python AST of the current source, into Gallina over coq/rstr/RstrGenBase.v
(exception monad `gres`, call table g_*) and the primitives of RstrPrim / RstrModel:
  _rrulestr._handle_int, _handle_int_list, _handle_FREQ, _handle_WKST, _handle_UNTIL,
  _handle_BYWEEKDAY, the getattr dispatch table (from the class's `_handle_*` attribute names and
  aliases), _parse_rfc_rrule, _parse_rfc (class RfcFn; the unfold while-loop and the TZID regex
  statement are recognised verbatim and mapped to unfold_lines / tzid_findall), _parse_date,
  _parse_date_value (class PdvFn; the tzids None / callable / mapping block is recognised verbatim
  and mapped to the environment's zone lookup), the tables _freq_map / _weekday_map / FREQNAMES, and
  rrule.__str__ (class StrFn).  No method of _rrulestr is left hand-modelled (PINS is empty; the
  pin mechanism stays for future use); rrule.__init__ (the model's `ctor`) is hand-modelled and
  not translated.
coq/rstr/RstrGenThm.v and RstrGenThm2.v prove gen_* = hand model for all inputs; props/C13.v states
C13_gen_*.

ACCEPTED SUBSET (anything else raises TranslateError -> exit 1 -> common.regenerate() poisons
coq/gen/RstrGen.v -> the C13_gen_* obligations stop checking):
 statements
   docstring; `global parser` and `if not parser: from dateutil import parser` (lazy import: no-op);
   `x = e`; `a, b = e` (e a list: ValueError unless exactly two items); `d[<str const>] = e` and
   `d[name.lower()] = e` on the keyword dictionary; `l = []` followed by
   `for x in e: ... l.append(e')` (append must be the last statement on every path: a monadic map);
   `for x in e: ...` whose body only updates the keyword dictionary (a monadic fold; names assigned
   in the body must not be read after the loop); the index scan
   `for i in range(len(s)): if s[i] not in <str const>: break` (-> scan_idx); `if / elif / else`
   (the continuation is translated once per branch, with the branch's own variable types;
   `if v:` on a "string or None" variable refines v); `raise ValueError(...)`;
   `try: <updates of the dictionary> except <classes>: raise ValueError(...)` (several handlers);
   `getattr(self, "_handle_" + name)(rrkwargs, name, value, ignoretz=ignoretz, tzinfos=tzinfos)`
   (-> gen_dispatch); `return rrule(dtstart=dtstart, cache=cache, **rrkwargs)`, also inside
   `try: .. except <classes>: raise <Exc>` (-> the dictionary; the constructor is the hand model `ctor`,
   the handlers are applied to its result in gen_rule); for __str__ see translate_str below.
 expressions
   names, str / int constants, None; int(e) [ValueError]; e.split(<1 char>); e.upper(); e.lower();
   e.find(<1 char>) != -1 / == -1 and `<1 char> in e` (has_char); len(e) as a truth value;
   list[<int const>] [IndexError]; s[:-1], s[:i], s[i:]; self._freq_map[e] / self._weekday_map[e]
   [KeyError]; weekdays[e](n) [IndexError / ValueError when n == 0]; `s or None`;
   parser.parse(value, ignoretz=kwargs.get("ignoretz"), tzinfos=kwargs.get("tzinfos")) (-> g_parse:
   the compact date forms; ValueError; anything else is outside the model); `a != <str const>`;
   `<str const> not in rrkwargs`; [f(x) for x in e].
CALL TABLE (trusted meaning of library calls): int -> py_int; str.split(c) -> split_on;
 str.upper/lower -> upper/lower; str.find / in -> has_char; parser.parse -> parse_date (compact
 forms only); weekdays[i](n) -> g_weekday (checked: `weekdays = tuple(weekday(x) for x in range(7))`
 and rrule.weekday.__init__ raises ValueError for n == 0); rrule(...) -> ctor (hand model);
 strftime('%m%dT%H%M%S') / '{0:04d}'.format(year) -> d2 / d4 fields; str(int) -> str_of_int;
 '{n:+d}' -> fmt_plus; repr(weekday)[0:2] and repr(weekday) with n None -> wd_name;
 in _parse_date_value: rule_tzids[k] -> tzid_lookup (KeyError = None); parm.split('TZID=')[-1] ->
 split_last_tzid; tzlookup(name) (tz.gettz / callable tzids / tzids.get) -> tz_get (o_tzids o), the
 zone table of the test environment, 0 = None; d.tzinfo is None -> dtz d = 0; d.replace(tzinfo=z) ->
 dt_with_tz; str.startswith(c) -> startswith; `p in {consts}` -> leqb disjunction.
"""
import ast
import hashlib
import os
import sys

VERIF = os.path.dirname(os.path.dirname(os.path.abspath(__file__)))
REPO = os.environ.get("VERIF_REPO", "/repo")
SRC = os.path.join(REPO, "src", "dateutil", "rrule.py")
OUT = os.environ.get("GEN_RSTR_OUT") or os.path.join(VERIF, "coq", "gen", "RstrGen.v")

# pinned AST hashes of the hand-modelled remainder (see pin_check)
PINS = {}


class TranslateError(Exception):
    pass


def fail(msg, node=None):
    where = " (line %d)" % node.lineno if node is not None and hasattr(node, "lineno") else ""
    raise TranslateError(msg + where + (": " + ast.dump(node)[:300] if node is not None else ""))


def lit(s):
    return "[" + "; ".join(str(ord(c)) for c in s) + "]"


EXC = {"ValueError": "XValue", "KeyError": "XKey", "AttributeError": "XAttr", "IndexError": "XIndex",
       "OverflowError": "XOverflow"}
STATIC_KEYS = {"freq": ("set_freq", "int", "k_freq"), "until": ("set_until", "dt", "k_until"),
               "wkst": ("set_wkst", "int", "k_wkst"), "byweekday": ("set_byweekday", "listwd", "k_byweekday")}


def is_const_str(e, n=None):
    return isinstance(e, ast.Constant) and isinstance(e.value, str) and (n is None or len(e.value) == n)


class Fn:
    """translation of one function body"""

    def __init__(self, tables, ret_kind):
        self.n = 0
        self.tables = tables
        self.ret_kind = ret_kind          # 'state' (handlers) or 'rrule' (_parse_rfc_rrule)

    def fresh(self, base="t"):
        self.n += 1
        return "%s%d" % (base, self.n)

    # ---------------------------------------------------------- expressions
    def ex(self, e, env):
        """-> (pre, term, type); pre = [(var, monadic term)]"""
        if isinstance(e, ast.Name):
            if e.id not in env:
                fail("unknown name " + e.id, e)
            return [], env[e.id][0], env[e.id][1]
        if isinstance(e, ast.Constant):
            if e.value is None:
                return [], "None", "none"
            if isinstance(e.value, str):
                return [], lit(e.value), "str"
            if isinstance(e.value, int) and not isinstance(e.value, bool):
                return [], ("%d" % e.value if e.value >= 0 else "(%d)" % e.value), "int"
            fail("constant", e)
        if isinstance(e, ast.Call):
            f = e.func
            # int(x)
            if isinstance(f, ast.Name) and f.id == "int" and len(e.args) == 1 and not e.keywords:
                pre, t, ty = self.ex(e.args[0], env)
                if ty != "str":
                    fail("int() of a non-string", e)
                v = self.fresh()
                return pre + [(v, "g_int %s" % t)], v, "int"
            # x.split(c) / x.upper() / x.lower()
            if isinstance(f, ast.Attribute) and f.attr in ("split", "upper", "lower") and not e.keywords:
                pre, t, ty = self.ex(f.value, env)
                if ty != "str":
                    fail("method of a non-string", e)
                if f.attr == "split":
                    if len(e.args) != 1 or not is_const_str(e.args[0], 1):
                        fail("split() needs one 1-character constant", e)
                    return pre, "(split_on %d %s)" % (ord(e.args[0].value), t), "liststr"
                if e.args:
                    fail("arguments to upper/lower", e)
                return pre, "(%s %s)" % (f.attr, t), "str"
            # weekdays[idx](n)
            if (isinstance(f, ast.Subscript) and isinstance(f.value, ast.Name) and f.value.id == "weekdays"
                    and len(e.args) == 1 and not e.keywords):
                if not self.tables["weekdays_ok"]:
                    fail("module-level `weekdays` is not tuple(weekday(x) for x in range(7))", e)
                p1, ti, tyi = self.ex(f.slice, env)
                p2, tn, tyn = self.ex(e.args[0], env)
                if tyi != "int":
                    fail("weekdays index", e)
                if tyn == "int":
                    tn = "(Some %s)" % tn
                elif tyn == "none":
                    tn = "None"
                elif tyn != "optint":
                    fail("weekday n of type " + tyn, e)
                v = self.fresh()
                return p1 + p2 + [(v, "g_weekday %s %s" % (ti, tn))], v, "wd"
            # parser.parse(value, ignoretz=kwargs.get("ignoretz"), tzinfos=kwargs.get("tzinfos"))
            if (isinstance(f, ast.Attribute) and f.attr == "parse" and isinstance(f.value, ast.Name)
                    and f.value.id == "parser" and len(e.args) == 1):
                kws = {k.arg: k.value for k in e.keywords}
                if sorted(kws) != ["ignoretz", "tzinfos"]:
                    fail("parser.parse keywords", e)
                for k, v in kws.items():
                    ok = (isinstance(v, ast.Call) and isinstance(v.func, ast.Attribute) and v.func.attr == "get"
                          and isinstance(v.func.value, ast.Name) and v.func.value.id == "kwargs"
                          and len(v.args) == 1 and is_const_str(v.args[0]) and v.args[0].value == k)
                    if not ok:
                        fail("parser.parse(%s=...) must be kwargs.get(%r)" % (k, k), e)
                pre, t, ty = self.ex(e.args[0], env)
                if ty != "str":
                    fail("parser.parse of a non-string", e)
                v = self.fresh()
                return pre + [(v, "g_parse ig %s" % t)], v, "dt"
            fail("call outside the call table", e)
        if isinstance(e, ast.Subscript):
            # self._freq_map[e] / self._weekday_map[e]
            if (isinstance(e.value, ast.Attribute) and isinstance(e.value.value, ast.Name)
                    and e.value.value.id == "self" and e.value.attr in self.tables["dicts"]):
                pre, t, ty = self.ex(e.slice, env)
                if ty != "str":
                    fail("table key", e)
                v = self.fresh()
                return pre + [(v, "g_lookup tbl%s %s" % (e.value.attr, t))], v, "int"
            pre, t, ty = self.ex(e.value, env)
            sl = e.slice
            if ty == "liststr" and isinstance(sl, ast.Constant) and isinstance(sl.value, int) and sl.value >= 0:
                v = self.fresh()
                return pre + [(v, "g_nth %s %d" % (t, sl.value))], v, "str"
            if ty == "str" and isinstance(sl, ast.Slice) and sl.step is None:
                lo, hi = sl.lower, sl.upper
                if lo is None and isinstance(hi, ast.UnaryOp) and isinstance(hi.op, ast.USub) \
                        and isinstance(hi.operand, ast.Constant) and hi.operand.value == 1:
                    return pre, "(removelast %s)" % t, "str"
                if lo is None and isinstance(hi, ast.Name) and env.get(hi.id, (None, None))[1] == "nat":
                    return pre, "(firstn %s %s)" % (env[hi.id][0], t), "str"
                if hi is None and isinstance(lo, ast.Name) and env.get(lo.id, (None, None))[1] == "nat":
                    return pre, "(skipn %s %s)" % (env[lo.id][0], t), "str"
            fail("subscript", e)
        if isinstance(e, ast.BoolOp) and isinstance(e.op, ast.Or) and len(e.values) == 2 \
                and isinstance(e.values[1], ast.Constant) and e.values[1].value is None:
            pre, t, ty = self.ex(e.values[0], env)
            if ty != "str":
                fail("`x or None` on a non-string", e)
            return pre, "(if isnil %s then None else Some %s)" % (t, t), "optstr_ne"
        if isinstance(e, ast.ListComp) and len(e.generators) == 1:
            g = e.generators[0]
            if g.ifs or g.is_async or not isinstance(g.target, ast.Name):
                fail("comprehension", e)
            pre, t, ty = self.ex(g.iter, env)
            if ty != "liststr":
                fail("comprehension over a non-list", e)
            x = self.fresh("x")
            env2 = dict(env)
            env2[g.target.id] = (x, "str")
            p2, t2, ty2 = self.ex(e.elt, env2)
            if ty2 != "int":
                fail("comprehension element type " + ty2, e)
            v = self.fresh()
            return pre + [(v, "gmapM (fun %s => %s) %s" % (x, self.wrap(p2, "GOk %s" % t2), t))], v, "listint"
        fail("expression outside the accepted subset", e)

    def wrap(self, pre, body):
        for v, m in reversed(pre):
            body = "gbind (%s) (fun %s => %s)" % (m, v, body)
        return body

    # ---------------------------------------------------------- conditions
    def cond(self, c, env):
        """-> (split, env_then, env_else) with split(then_term, else_term) -> term"""
        neg = False
        if isinstance(c, ast.UnaryOp) and isinstance(c.op, ast.Not):
            sp, et, ee = self.cond(c.operand, env)
            return (lambda a, b: sp(b, a)), ee, et
        b = None
        if isinstance(c, ast.Compare) and len(c.ops) == 1:
            op, l, r = c.ops[0], c.left, c.comparators[0]
            if isinstance(op, (ast.In, ast.NotIn)) and is_const_str(l, 1) and isinstance(r, ast.Name) \
                    and env.get(r.id, (0, 0))[1] == "str":
                b = "has_char %d %s" % (ord(l.value), env[r.id][0])
                neg = isinstance(op, ast.NotIn)
            elif isinstance(op, ast.NotIn) and is_const_str(l) and isinstance(r, ast.Name) \
                    and env.get(r.id, (0, 0))[1] == "kw" and l.value in STATIC_KEYS:
                b = "isNone (%s %s)" % (STATIC_KEYS[l.value][2], env[r.id][0])
            elif isinstance(op, (ast.Eq, ast.NotEq)) and isinstance(l, ast.Call) and isinstance(l.func, ast.Attribute) \
                    and l.func.attr == "find" and len(l.args) == 1 and is_const_str(l.args[0], 1) \
                    and isinstance(r, ast.UnaryOp) and isinstance(r.op, ast.USub) \
                    and isinstance(r.operand, ast.Constant) and r.operand.value == 1:
                pre, t, ty = self.ex(l.func.value, env)
                if pre or ty != "str":
                    fail("find() receiver", c)
                b = "has_char %d %s" % (ord(l.args[0].value), t)
                neg = isinstance(op, ast.Eq)
            elif isinstance(op, (ast.Eq, ast.NotEq)) and is_const_str(r):
                pre, t, ty = self.ex(l, env)
                if pre or ty != "str":
                    fail("string comparison", c)
                b = "leqb %s %s" % (t, lit(r.value))
                neg = isinstance(op, ast.NotEq)
        elif isinstance(c, ast.Call) and isinstance(c.func, ast.Name) and c.func.id == "len" and len(c.args) == 1:
            pre, t, ty = self.ex(c.args[0], env)
            if pre or ty != "str":
                fail("len() as a condition", c)
            b = "negb (isnil %s)" % t
        elif isinstance(c, ast.Name) and env.get(c.id, (0, 0))[1] == "optstr_ne":
            v = self.fresh(c.id)
            et, ee = dict(env), dict(env)
            et[c.id] = (v, "str")
            ee[c.id] = ("None", "none")
            src = env[c.id][0]
            return (lambda a, bb: "match %s with Some %s => %s | None => %s end" % (src, v, a, bb)), et, ee
        if b is None:
            fail("condition outside the accepted subset", c)
        if neg:
            return (lambda a, bb: "if %s then %s else %s" % (b, bb, a)), env, env
        return (lambda a, bb: "if %s then %s else %s" % (b, a, bb)), env, env

    # ---------------------------------------------------------- statements
    def comp(self, stmts, env, k):
        if not stmts:
            return k(env)
        s, rest = stmts[0], stmts[1:]

        def cont(env2):
            return self.comp(rest, env2, k)
        if isinstance(s, ast.Expr) and is_const_str(s.value):
            return cont(env)                                              # docstring
        if isinstance(s, ast.Global) and s.names == ["parser"]:
            return cont(env)
        if (isinstance(s, ast.If) and isinstance(s.test, ast.UnaryOp) and isinstance(s.test.op, ast.Not)
                and isinstance(s.test.operand, ast.Name) and s.test.operand.id == "parser" and not s.orelse
                and len(s.body) == 1 and isinstance(s.body[0], ast.ImportFrom) and s.body[0].module == "dateutil"
                and [a.name for a in s.body[0].names] == ["parser"]):
            return cont(env)                                              # lazy import
        if isinstance(s, ast.Raise):
            return "GExc %s" % self.exc_of(s)
        if isinstance(s, ast.Return):
            return self.ret(s, env)
        if isinstance(s, ast.If):
            sp, et, ee = self.cond(s.test, env)
            a = self.comp(list(s.body) + rest, et, k)
            b = self.comp(list(s.orelse) + rest, ee, k)
            return "(" + sp(a, b) + ")"
        if isinstance(s, ast.Try):
            return self.try_(s, rest, env, k)
        if isinstance(s, ast.For):
            return self.for_(s, rest, env, k)
        if isinstance(s, ast.Assign) and len(s.targets) == 1:
            tg = s.targets[0]
            # l = []
            if isinstance(tg, ast.Name) and isinstance(s.value, ast.List) and not s.value.elts:
                env2 = dict(env)
                env2[tg.id] = ("[]", "emptylist")
                return cont(env2)
            # d[key] = e
            if isinstance(tg, ast.Subscript) and isinstance(tg.value, ast.Name) \
                    and env.get(tg.value.id, (0, 0))[1] == "kw":
                d = tg.value.id
                pre, t, ty = self.ex(s.value, env)
                nv = self.fresh(d)
                env2 = dict(env)
                env2[d] = (nv, "kw")
                key = tg.slice
                if is_const_str(key) and key.value in STATIC_KEYS:
                    setter, want, _ = STATIC_KEYS[key.value]
                    if ty != want:
                        fail("value of type %s stored under %r" % (ty, key.value), s)
                    return self.wrap(pre, "(let %s := %s %s %s in %s)" % (nv, setter, t, env[d][0], cont(env2)))
                if (isinstance(key, ast.Call) and isinstance(key.func, ast.Attribute) and key.func.attr == "lower"
                        and not key.args and isinstance(key.func.value, ast.Name)
                        and env.get(key.func.value.id, (0, 0))[1] == "str"):
                    kt = "(lower %s)" % env[key.func.value.id][0]
                    if ty == "int":
                        m = "kw_set_int %s %s %s" % (kt, t, env[d][0])
                    elif ty == "listint":
                        m = "kw_set_list %s %s %s" % (kt, t, env[d][0])
                    else:
                        fail("dynamic key with value type " + ty, s)
                    return self.wrap(pre + [(nv, m)], cont(env2))
                fail("dictionary key", s)
            # a, b = e
            if isinstance(tg, ast.Tuple) and len(tg.elts) == 2 and all(isinstance(x, ast.Name) for x in tg.elts):
                pre, t, ty = self.ex(s.value, env)
                if ty != "liststr":
                    fail("tuple assignment from " + ty, s)
                a, b = self.fresh(tg.elts[0].id), self.fresh(tg.elts[1].id)
                env2 = dict(env)
                env2[tg.elts[0].id] = (a, "str")
                env2[tg.elts[1].id] = (b, "str")
                return self.wrap(pre, "(match %s with [%s; %s] => %s | _ => GExc XValue end)" % (t, a, b, cont(env2)))
            # x = e
            if isinstance(tg, ast.Name):
                pre, t, ty = self.ex(s.value, env)
                v = self.fresh(tg.id)
                env2 = dict(env)
                env2[tg.id] = (v, ty)
                return self.wrap(pre, "(let %s := %s in %s)" % (v, t, cont(env2)))
            fail("assignment target", s)
        if isinstance(s, ast.Expr) and isinstance(s.value, ast.Call):
            c = s.value
            # l.append(e) : last statement of a map body
            if isinstance(c.func, ast.Attribute) and c.func.attr == "append" and isinstance(c.func.value, ast.Name) \
                    and len(c.args) == 1 and getattr(self, "append_to", None) == c.func.value.id:
                if rest:
                    fail("statements after %s.append(...)" % self.append_to, s)
                pre, t, ty = self.ex(c.args[0], env)
                self.append_ty = ty
                return self.wrap(pre, "GOk %s" % t)
            # getattr(self, "_handle_"+name)(rrkwargs, name, value, ignoretz=ignoretz, tzinfos=tzinfos)
            f = c.func
            if (isinstance(f, ast.Call) and isinstance(f.func, ast.Name) and f.func.id == "getattr" and len(f.args) == 2
                    and isinstance(f.args[0], ast.Name) and f.args[0].id == "self"
                    and isinstance(f.args[1], ast.BinOp) and isinstance(f.args[1].op, ast.Add)
                    and is_const_str(f.args[1].left) and f.args[1].left.value == "_handle_"
                    and isinstance(f.args[1].right, ast.Name)):
                nm = f.args[1].right.id
                argn = [a.id if isinstance(a, ast.Name) else None for a in c.args]
                kws = {kk.arg: (kk.value.id if isinstance(kk.value, ast.Name) else None) for kk in c.keywords}
                if len(argn) != 3 or argn[1] != nm or env.get(argn[0], (0, 0))[1] != "kw" \
                        or env.get(argn[2], (0, 0))[1] != "str" or kws != {"ignoretz": "ignoretz", "tzinfos": "tzinfos"}:
                    fail("handler call arguments", s)
                d = argn[0]
                nv = self.fresh(d)
                env2 = dict(env)
                env2[d] = (nv, "kw")
                return "gbind (gen_dispatch ig %s %s %s) (fun %s => %s)" % (
                    env[nm][0], env[argn[2]][0], env[d][0], nv, cont(env2))
        fail("statement outside the accepted subset", s)

    def exc_of(self, s):
        e = s.exc
        if isinstance(e, ast.Call) and isinstance(e.func, ast.Name) and e.func.id in EXC:
            return EXC[e.func.id]
        fail("raise", s)

    def ret(self, s, env):
        v = s.value
        if self.ret_kind == "rrule":
            ok = (isinstance(v, ast.Call) and isinstance(v.func, ast.Name) and v.func.id == "rrule" and not v.args)
            if ok:
                kws = [(k.arg, k.value.id if isinstance(k.value, ast.Name) else None) for k in v.keywords]
                ok = kws[:2] == [("dtstart", "dtstart"), ("cache", "cache")] and len(kws) == 3 \
                    and kws[2][0] is None and env.get(kws[2][1], (0, 0))[1] == "kw"
            if not ok:
                fail("return must be rrule(dtstart=dtstart, cache=cache, **rrkwargs)", s)
            return "GOk %s" % env[kws[2][1]][0]
        fail("return", s)

    def handlers_of(self, s):
        hs = []
        for h in s.handlers:
            if h.name is not None or len(h.body) != 1 or not isinstance(h.body[0], ast.Raise):
                fail("except clause", h)
            tys = h.type.elts if isinstance(h.type, ast.Tuple) else [h.type]
            cls = []
            for t in tys:
                if not (isinstance(t, ast.Name) and t.id in EXC):
                    fail("exception class", h)
                cls.append(EXC[t.id])
            hs.append("([%s], %s)" % ("; ".join(cls), self.exc_of(h.body[0])))
        return hs

    def try_(self, s, rest, env, k):
        if s.orelse or s.finalbody or not s.handlers:
            fail("try with else/finally", s)
        # try: return rrule(dtstart=dtstart, cache=cache, **rrkwargs)  except <classes>: raise <Exc>
        if self.ret_kind == "rrule" and len(s.body) == 1 and isinstance(s.body[0], ast.Return) and not rest:
            self.ctor_handlers = self.handlers_of(s)
            return self.ret(s.body[0], env)
        assigned = set()
        for n in ast.walk(ast.Module(body=s.body, type_ignores=[])):
            if isinstance(n, ast.Name) and isinstance(n.ctx, ast.Store):
                assigned.add(n.id)
        if assigned:
            fail("try body assigns local names %s" % sorted(assigned), s)
        state = [n for n, (t, ty) in env.items() if ty == "kw"]
        if len(state) != 1:
            fail("try without a unique dictionary state", s)
        d = state[0]
        body = self.comp(list(s.body), env, lambda e2: "GOk %s" % e2[d][0])
        hs = []
        for h in s.handlers:
            if h.name is not None or len(h.body) != 1 or not isinstance(h.body[0], ast.Raise):
                fail("except clause", h)
            tys = h.type.elts if isinstance(h.type, ast.Tuple) else [h.type]
            cls = []
            for t in tys:
                if not (isinstance(t, ast.Name) and t.id in EXC):
                    fail("exception class", h)
                cls.append(EXC[t.id])
            hs.append("([%s], %s)" % ("; ".join(cls), self.exc_of(h.body[0])))
        nv = self.fresh(d)
        env2 = dict(env)
        env2[d] = (nv, "kw")
        return "gbind (gcatchs (%s) [%s]) (fun %s => %s)" % (body, "; ".join(hs), nv, self.comp(rest, env2, k))

    def for_(self, s, rest, env, k):
        if s.orelse or not isinstance(s.target, ast.Name):
            fail("for", s)
        # index scan
        it = s.iter
        if (isinstance(it, ast.Call) and isinstance(it.func, ast.Name) and it.func.id == "range" and len(it.args) == 1
                and isinstance(it.args[0], ast.Call) and isinstance(it.args[0].func, ast.Name)
                and it.args[0].func.id == "len" and len(it.args[0].args) == 1 and isinstance(it.args[0].args[0], ast.Name)):
            x = it.args[0].args[0].id
            b = s.body
            ok = (len(b) == 1 and isinstance(b[0], ast.If) and not b[0].orelse and len(b[0].body) == 1
                  and isinstance(b[0].body[0], ast.Break) and isinstance(b[0].test, ast.Compare)
                  and len(b[0].test.ops) == 1 and isinstance(b[0].test.ops[0], ast.NotIn)
                  and isinstance(b[0].test.left, ast.Subscript) and isinstance(b[0].test.left.value, ast.Name)
                  and b[0].test.left.value.id == x and isinstance(b[0].test.left.slice, ast.Name)
                  and b[0].test.left.slice.id == s.target.id and is_const_str(b[0].test.comparators[0])
                  and env.get(x, (0, 0))[1] == "str")
            if not ok:
                fail("index loop is not `for i in range(len(s)): if s[i] not in <const>: break`", s)
            v = self.fresh(s.target.id)
            env2 = dict(env)
            env2[s.target.id] = (v, "nat")
            return "(let %s := scan_idx %s %s in %s)" % (v, lit(b[0].test.comparators[0].value), env[x][0],
                                                         self.comp(rest, env2, k))
        pre, t, ty = self.ex(it, env)
        if ty != "liststr":
            fail("for over a non-list", s)
        x = self.fresh(s.target.id)
        appends = [n.func.value.id for n in ast.walk(ast.Module(body=s.body, type_ignores=[]))
                   if isinstance(n, ast.Call) and isinstance(n.func, ast.Attribute) and n.func.attr == "append"
                   and isinstance(n.func.value, ast.Name)]
        assigned = {n.id for n in ast.walk(ast.Module(body=s.body, type_ignores=[]))
                    if isinstance(n, ast.Name) and isinstance(n.ctx, ast.Store)}
        read_after = {n.id for st in rest for n in ast.walk(st) if isinstance(n, ast.Name) and isinstance(n.ctx, ast.Load)}
        if assigned & read_after:
            fail("names assigned in the loop body are read after the loop: %s" % sorted(assigned & read_after), s)
        env_b = dict(env)
        env_b[s.target.id] = (x, "str")
        if appends:
            lv = appends[0]
            if any(a != lv for a in appends) or env.get(lv, (0, 0))[1] != "emptylist":
                fail("append target", s)
            if getattr(self, "append_to", None) is not None:
                fail("nested map loops", s)
            self.append_to, self.append_ty = lv, None
            body = self.comp(list(s.body), env_b, lambda e2: fail("loop body path without %s.append" % lv, s))
            ety = self.append_ty
            self.append_to = None
            if ety != "wd":
                fail("list element type " + str(ety), s)
            nv = self.fresh(lv)
            env2 = dict(env)
            env2[lv] = (nv, "listwd")
            return self.wrap(pre, "gbind (gmapM (fun %s => %s) %s) (fun %s => %s)" % (x, body, t, nv,
                                                                                  self.comp(rest, env2, k)))
        state = [n for n, (tt, tyy) in env.items() if tyy == "kw"]
        if len(state) != 1:
            fail("fold loop without a unique dictionary state", s)
        d = state[0]
        sv = self.fresh(d)
        env_b[d] = (sv, "kw")
        body = self.comp(list(s.body), env_b, lambda e2: "GOk %s" % e2[d][0])
        nv = self.fresh(d)
        env2 = dict(env)
        env2[d] = (nv, "kw")
        return self.wrap(pre, "gbind (gfoldM (fun %s %s => %s) %s %s) (fun %s => %s)" % (
            sv, x, body, t, env[d][0], nv, self.comp(rest, env2, k)))



# ---------------------------------------------------------------------------------- rrule.__str__

ORIG_KEYS = {"bysetpos": "og_bysetpos", "bymonth": "og_bymonth", "bymonthday": "og_bymonthday",
             "byyearday": "og_byyearday", "byeaster": "og_byeaster", "byweekno": "og_byweekno",
             "byweekday": "og_byweekday", "byhour": "og_byhour", "byminute": "og_byminute",
             "bysecond": "og_bysecond"}
SELF_ATTRS = {"_dtstart": ("(r_dtstart r)", "dt"), "_freq": ("(r_freq r)", "int"), "_interval": ("(r_interval r)", "int"),
              "_wkst": ("(r_wkst r)", "int"), "_count": ("(r_count r)", "optint"), "_until": ("(r_until r)", "optdt")}
STRF = {"m": "dmo", "d": "dd", "H": "dh", "M": "dmi", "S": "ds"}


class StrFn:
    """rrule.__str__ -> gen_to_str (r : rule) : str.
    Accepted statements: docstring; dead assignments `h, m, s = [None] * 3` and
    `h, m, s = self._dtstart.timetuple()[3:6]` (targets never read); `x = []`; `x = [e, ...]`;
    `x.append(e)`; `x = <str const>`; `if c: <appends to one list>` (no else: a conditional chunk);
    `if c: ... else: ...` (continuation translated per branch); `original_rule = dict(self._original_rule)` /
    `= self._original_rule`; `original_rule[<key const>] = <list>`; `for w in original_rule[<key>]:
    if/else with one append per branch` (a map); `for name, key in [<tuple consts>]: ...` (unrolled);
    `value = original_rule.get(key)`; `return '<c>'.join(x)`."""

    def __init__(self, tables):
        self.tables = tables
        self.n = 0

    def fresh(self, b):
        self.n += 1
        return "%s%d" % (b, self.n)

    # ---- expressions (pure) -> (term, type)
    def ex(self, e, env):
        if isinstance(e, ast.Constant) and isinstance(e.value, str):
            return lit(e.value), "str"
        if isinstance(e, ast.Name):
            if e.id not in env:
                fail("unknown name " + e.id, e)
            return env[e.id][0], env[e.id][1]
        if isinstance(e, ast.Attribute) and isinstance(e.value, ast.Name) and e.value.id == "self" and e.attr in SELF_ATTRS:
            return SELF_ATTRS[e.attr]
        if isinstance(e, ast.Attribute) and e.attr == "year":
            t, ty = self.ex(e.value, env)
            if ty != "dt":
                fail(".year of a non-datetime", e)
            return "(dy %s)" % t, "int"
        if isinstance(e, ast.Attribute) and e.attr == "n":
            t, ty = self.ex(e.value, env)
            if ty not in ("wd", "wd_nfalsy"):
                fail(".n of a non-weekday", e)
            return "(wn %s)" % t, "optint"
        if isinstance(e, ast.BinOp) and isinstance(e.op, ast.Add):
            a, ta = self.ex(e.left, env)
            b, tb = self.ex(e.right, env)
            if ta != "str" or tb != "str":
                fail("+ on non-strings", e)
            return "(%s ++ %s)" % (a, b), "str"
        if isinstance(e, ast.List):
            ts = [self.ex(x, env) for x in e.elts]
            if any(ty != "str" for _, ty in ts):
                fail("list literal of non-strings", e)
            return "[" + "; ".join(t for t, _ in ts) + "]", "liststr"
        if isinstance(e, ast.Subscript):
            # FREQNAMES[self._freq]
            if isinstance(e.value, ast.Name) and e.value.id == "FREQNAMES":
                t, ty = self.ex(e.slice, env)
                if ty != "int":
                    fail("FREQNAMES index", e)
                return "(nth (Z.to_nat %s) tblFREQNAMES [])" % t, "str"
            # repr(x)[0:2]
            sl = e.slice
            if (isinstance(sl, ast.Slice) and sl.step is None and isinstance(sl.lower, ast.Constant) and sl.lower.value == 0
                    and isinstance(sl.upper, ast.Constant) and sl.upper.value == 2 and isinstance(e.value, ast.Call)
                    and isinstance(e.value.func, ast.Name) and e.value.func.id == "repr" and len(e.value.args) == 1):
                return self.wdname(e.value.args[0], env, need_falsy=False), "str"
            # original_rule[<key>]
            if isinstance(e.value, ast.Name) and env.get(e.value.id, (0, 0))[1] == "orig" and is_const_str(e.slice):
                return self.orig_get(env[e.value.id][0], e.slice.value, e, subscript=True)
            fail("subscript", e)
        if isinstance(e, ast.Call):
            f = e.func
            if isinstance(f, ast.Name) and f.id == "str" and len(e.args) == 1:
                t, ty = self.ex(e.args[0], env)
                if ty == "int":
                    return "(str_of_int %s)" % t, "str"
                if ty == "str":
                    return t, "str"
                fail("str() of " + ty, e)
            if isinstance(f, ast.Name) and f.id == "repr" and len(e.args) == 1:
                return self.wdname(e.args[0], env, need_falsy=True), "str"
            if isinstance(f, ast.Attribute) and f.attr == "strftime" and len(e.args) == 1 and is_const_str(e.args[0]):
                t, ty = self.ex(f.value, env)
                if ty != "dt":
                    fail("strftime on a non-datetime", e)
                fmt, out, i = e.args[0].value, [], 0
                while i < len(fmt):
                    if fmt[i] == "%":
                        if i + 1 >= len(fmt) or fmt[i + 1] not in STRF:
                            fail("strftime directive", e)
                        out.append("d2 (%s %s)" % (STRF[fmt[i + 1]], t))
                        i += 2
                    else:
                        out.append(lit(fmt[i]))
                        i += 1
                return "(" + " ++ ".join(out) + ")", "str"
            if isinstance(f, ast.Attribute) and f.attr == "format":
                template = f.value.value if is_const_str(f.value) else env.get(getattr(f.value, "id", None), (None, None, None))[2] \
                    if isinstance(f.value, ast.Name) and len(env.get(f.value.id, ())) == 3 else None
                if template is None:
                    fail("format() on a non-constant template", e)
                import string
                kw = {k.arg: k.value for k in e.keywords}
                out = []
                for lit_, field, spec, conv in string.Formatter().parse(template):
                    if lit_:
                        out.append(lit(lit_))
                    if field is None:
                        continue
                    if conv:
                        fail("format conversion", e)
                    arg = e.args[int(field)] if field.isdigit() and int(field) < len(e.args) else kw.get(field)
                    if arg is None:
                        fail("format field " + field, e)
                    t, ty = self.ex(arg, env)
                    if spec == "04d" and ty == "int":
                        out.append("d4 %s" % t)
                    elif spec == "+d" and ty == "int":
                        out.append("fmt_plus %s" % t)
                    elif spec == "" and ty == "str":
                        out.append(t)
                    else:
                        fail("format spec %r on %s" % (spec, ty), e)
                return "(" + " ++ ".join(out) + ")", "str"
            if isinstance(f, ast.Attribute) and f.attr == "join" and is_const_str(f.value, 1) and len(e.args) == 1:
                a = e.args[0]
                if isinstance(a, ast.GeneratorExp) and len(a.generators) == 1 and isinstance(a.generators[0].target, ast.Name) \
                        and not a.generators[0].ifs:
                    lt, lty = self.ex(a.generators[0].iter, env)
                    x = self.fresh("v")
                    ety = {"listint": "int", "liststr": "str"}.get(lty)
                    if ety is None:
                        fail("join over " + lty, e)
                    env2 = dict(env)
                    env2[a.generators[0].target.id] = (x, ety)
                    bt, bty = self.ex(a.elt, env2)
                    if bty != "str":
                        fail("join element", e)
                    return "(join [%d] (map (fun %s => %s) %s))" % (ord(f.value.value), x, bt, lt), "str"
                lt, lty = self.ex(a, env)
                if lty != "liststr":
                    fail("join of " + lty, e)
                return "(join [%d] %s)" % (ord(f.value.value), lt), "str"
            if isinstance(f, ast.Attribute) and f.attr == "get" and isinstance(f.value, ast.Name) \
                    and env.get(f.value.id, (0, 0))[1] == "orig" and len(e.args) == 1:
                k = e.args[0]
                key = k.value if is_const_str(k) else (env[k.id][2] if isinstance(k, ast.Name) and len(env.get(k.id, ())) == 3 else None)
                if key is None:
                    fail("get() key", e)
                return self.orig_get(env[f.value.id][0], key, e, subscript=False)
        fail("expression outside the accepted subset (__str__)", e)

    def orig_get(self, mapping, key, node, subscript):
        if key not in mapping:
            fail("original-rule key " + key, node)
        return mapping[key]

    def wdname(self, a, env, need_falsy):
        # repr(weekday(self._wkst)) / repr(wday): the two-letter name (whole repr only when n is falsy)
        if isinstance(a, ast.Call) and isinstance(a.func, ast.Name) and a.func.id == "weekday" and len(a.args) == 1:
            t, ty = self.ex(a.args[0], env)
            if ty != "int":
                fail("weekday() argument", a)
            return "(wd_name %s)" % t
        t, ty = self.ex(a, env)
        if ty == "wd_nfalsy" or (ty == "wd" and not need_falsy):
            return "(wd_name (wday %s))" % t
        fail("repr() of a weekday whose n may be set", a)

    # ---- conditions -> (split, env_then, env_else)
    def cond(self, c, env):
        if isinstance(c, ast.Compare) and len(c.ops) == 1:
            op, l, r = c.ops[0], c.left, c.comparators[0]
            if isinstance(op, (ast.IsNot, ast.Is)) and isinstance(r, ast.Constant) and r.value is None:
                isnot = isinstance(op, ast.IsNot)
                # self._original_rule.get('k') is not None
                if (isinstance(l, ast.Call) and isinstance(l.func, ast.Attribute) and l.func.attr == "get"
                        and isinstance(l.func.value, ast.Attribute) and l.func.value.attr == "_original_rule"
                        and len(l.args) == 1 and is_const_str(l.args[0]) and l.args[0].value in ORIG_KEYS):
                    key = l.args[0].value
                    v = self.fresh("ov")
                    et, ee = dict(env), dict(env)
                    et["@orig"] = dict(env["@orig"])
                    ee["@orig"] = dict(env["@orig"])
                    ety = "listwd" if key == "byweekday" else "listint"
                    et["@orig"][key] = (v, ety)
                    ee["@orig"][key] = ("None", "none")
                    src = "(%s r)" % ORIG_KEYS[key]
                    sp = (lambda a, b: "match %s with OVals %s => %s | _ => %s end" % (src, v, a, b))
                    return (sp, et, ee) if isnot else ((lambda a, b: sp(b, a)), ee, et)
                t, ty = self.ex(l, env)
                if ty == "optint":
                    v = self.fresh("c")
                    et = dict(env)
                    if isinstance(l, ast.Attribute) and isinstance(l.value, ast.Name) and l.value.id == "self":
                        et["@self"] = dict(env.get("@self", {}))
                        et["@self"][l.attr] = (v, "int")
                    sp = (lambda a, b: "match %s with Some %s => %s | None => %s end" % (t, v, a, b))
                    return (sp, et, env) if isnot else ((lambda a, b: sp(b, a)), env, et)
            if isinstance(op, ast.NotEq) and isinstance(r, ast.Constant) and isinstance(r.value, int):
                t, ty = self.ex(l, env)
                if ty == "int":
                    return (lambda a, b: "if %s =? %d then %s else %s" % (t, r.value, b, a)), env, env
            fail("comparison (__str__)", c)
        # truthiness
        t, ty = self.ex(c, env) if not (isinstance(c, ast.Name) and len(env.get(c.id, ())) == 3) else (None, None)
        if ty == "dt":
            return (lambda a, b: a), env, env             # a datetime is always true
        if ty == "int":
            return (lambda a, b: "if %s =? 0 then %s else %s" % (t, b, a)), env, env
        if ty == "optint":
            v = self.fresh("c")
            et = dict(env)
            if isinstance(c, ast.Attribute) and isinstance(c.value, ast.Name) and c.value.id == "self":
                et["@self"] = dict(env.get("@self", {}))
                et["@self"][c.attr] = (v, "int")
            ee = dict(env)
            if isinstance(c, ast.Attribute) and c.attr == "n" and isinstance(c.value, ast.Name) and env[c.value.id][1] == "wd":
                et[c.value.id + ".n"] = (v, "int")
                ee[c.value.id] = (env[c.value.id][0], "wd_nfalsy")
            return (lambda a, b: "match %s with Some %s => if %s =? 0 then %s else %s | None => %s end" % (t, v, v, b, a, b)), et, ee
        if ty == "optdt":
            v = self.fresh("u")
            et = dict(env)
            if isinstance(c, ast.Attribute) and isinstance(c.value, ast.Name) and c.value.id == "self":
                et["@self"] = dict(env.get("@self", {}))
                et["@self"][c.attr] = (v, "dt")
            return (lambda a, b: "match %s with Some %s => %s | None => %s end" % (t, v, a, b)), et, env
        if ty in ("oent_int",):
            v0, vt = self.fresh("x"), self.fresh("xs")
            et = dict(env)
            if isinstance(c, ast.Name):
                et[c.id] = ("(%s :: %s)" % (v0, vt), "listint")
            return (lambda a, b: "match %s with OVals (%s :: %s) => %s | _ => %s end" % (t, v0, vt, a, b)), et, env
        if ty in ("liststr", "listint"):
            v0, vt = self.fresh("x"), self.fresh("xs")
            et = dict(env)
            if isinstance(c, ast.Name):
                et[c.id] = ("(%s :: %s)" % (v0, vt), ty)
            return (lambda a, b: "match %s with %s :: %s => %s | [] => %s end" % (t, v0, vt, a, b)), et, env
        if ty == "none":
            return (lambda a, b: b), env, env
        fail("truth value of " + str(ty), c)

    # self.<attr> with refinements
    def ex_ref(self, e, env):
        if isinstance(e, ast.Attribute) and isinstance(e.value, ast.Name) and e.value.id == "self" \
                and e.attr in env.get("@self", {}):
            return env["@self"][e.attr]
        if isinstance(e, ast.Attribute) and e.attr == "n" and isinstance(e.value, ast.Name) \
                and (e.value.id + ".n") in env:
            return env[e.value.id + ".n"]
        return None

    # ---- statements
    def dead(self, s, loaded):
        if isinstance(s, ast.Assign) and len(s.targets) == 1 and isinstance(s.targets[0], ast.Tuple) \
                and all(isinstance(x, ast.Name) and x.id not in loaded for x in s.targets[0].elts):
            d = ast.dump(s.value)
            ok = [ast.dump(ast.parse("[None] * 3", mode="eval").body),
                  ast.dump(ast.parse("self._dtstart.timetuple()[3:6]", mode="eval").body)]
            return d in ok
        return False

    def only_appends(self, body, env):
        tg = None
        for st in body:
            if not (isinstance(st, ast.Expr) and isinstance(st.value, ast.Call) and isinstance(st.value.func, ast.Attribute)
                    and st.value.func.attr == "append" and isinstance(st.value.func.value, ast.Name)
                    and len(st.value.args) == 1):
                return None
            if tg not in (None, st.value.func.value.id):
                return None
            tg = st.value.func.value.id
        return tg

    def comp(self, stmts, env, k):
        stmts = [s for s in stmts if not self.dead(s, self.loaded)]
        if not stmts:
            return k(env)
        s, rest = stmts[0], stmts[1:]

        def cont(e2):
            return self.comp(rest, e2, k)
        if isinstance(s, ast.Expr) and is_const_str(s.value):
            return cont(env)
        if isinstance(s, ast.Return):
            t, ty = self.ex(s.value, env)
            if ty != "str":
                fail("return type", s)
            return t
        if isinstance(s, ast.Expr) and isinstance(s.value, ast.Call) and isinstance(s.value.func, ast.Attribute) \
                and s.value.func.attr == "append" and isinstance(s.value.func.value, ast.Name) and len(s.value.args) == 1:
            x = s.value.func.value.id
            if env.get(x, (0, 0))[1] != "liststr":
                fail("append to a non-list", s)
            t, ty = self.exr(s.value.args[0], env)
            if ty != "str":
                fail("append of " + ty, s)
            env2 = dict(env)
            env2[x] = ("(%s ++ [%s])" % (env[x][0], t), "liststr")
            return cont(env2)
        if isinstance(s, ast.If) and isinstance(s.test, ast.Name) and env.get(s.test.id, (0, 0))[1] == "none":
            return self.comp(list(s.orelse) + rest, env, k)            # `if None:` -- statically false
        if isinstance(s, ast.If):
            sp, et, ee = self.cond(s.test, env)
            body = [b for b in s.body if not self.dead(b, self.loaded)]
            tg = self.only_appends(body, env)
            if tg is not None and not s.orelse and env.get(tg, (0, 0))[1] == "liststr":
                items = []
                for st in body:
                    t, ty = self.exr(st.value.args[0], et)
                    if ty != "str":
                        fail("append of " + ty, st)
                    items.append(t)
                env2 = dict(env)
                env2[tg] = ("(%s ++ %s)" % (env[tg][0], sp("[" + "; ".join(items) + "]", "[]")), "liststr")
                return cont(env2)
            a = self.comp(list(s.body) + rest, et, k)
            b = self.comp(list(s.orelse) + rest, ee, k)
            return "(" + sp(a, b) + ")"
        if isinstance(s, ast.For):
            return self.for_(s, rest, env, k)
        if isinstance(s, ast.Assign) and len(s.targets) == 1:
            tg, v = s.targets[0], s.value
            if isinstance(tg, ast.Name):
                # original_rule = dict(self._original_rule) / self._original_rule
                src = v.args[0] if (isinstance(v, ast.Call) and isinstance(v.func, ast.Name) and v.func.id == "dict"
                                    and len(v.args) == 1) else v
                if isinstance(src, ast.Attribute) and isinstance(src.value, ast.Name) and src.value.id == "self" \
                        and src.attr == "_original_rule":
                    env2 = dict(env)
                    env2[tg.id] = (dict(env["@orig"]), "orig")
                    return cont(env2)
                if is_const_str(v):
                    env2 = dict(env)
                    env2[tg.id] = (lit(v.value), "str", v.value)
                    return cont(env2)
                t, ty = self.exr(v, env)
                env2 = dict(env)
                env2[tg.id] = (t, ty)
                return cont(env2)
            if isinstance(tg, ast.Subscript) and isinstance(tg.value, ast.Name) and env.get(tg.value.id, (0, 0))[1] == "orig" \
                    and is_const_str(tg.slice) and tg.slice.value in ORIG_KEYS:
                t, ty = self.exr(v, env)
                if ty != "liststr":
                    fail("value stored in the original-rule copy", s)
                env2 = dict(env)
                m = dict(env[tg.value.id][0])
                m[tg.slice.value] = (t, ty)
                env2[tg.value.id] = (m, "orig")
                return cont(env2)
        fail("statement outside the accepted subset (__str__)", s)

    def exr(self, e, env):
        """expression with refined self attributes substituted"""
        class Sub(ast.NodeTransformer):
            pass
        r = self.ex_ref(e, env)
        if r is not None:
            return r
        old = self.ex_ref

        def patched(e2, env2=env):
            return old(e2, env2)
        # evaluate with a wrapper that consults refinements first
        return self._ex_with_ref(e, env)

    def _ex_with_ref(self, e, env):
        outer = self

        class W(StrFn):
            def ex(self2, e2, env2):
                r = outer.ex_ref(e2, env2)
                if r is not None:
                    return r
                return StrFn.ex(self2, e2, env2)
        w = W(self.tables)
        w.n = self.n
        w.loaded = self.loaded
        res = w.ex(e, env)
        self.n = w.n
        return res

    def for_(self, s, rest, env, k):
        # unrolled: for name, key in [(<const>, <const>), ...]
        if isinstance(s.iter, ast.List) and isinstance(s.target, ast.Tuple) and not s.orelse:
            names = [x.id for x in s.target.elts if isinstance(x, ast.Name)]
            if len(names) != len(s.target.elts):
                fail("for target", s)
            seq = []
            for el in s.iter.elts:
                if not (isinstance(el, ast.Tuple) and len(el.elts) == len(names) and all(is_const_str(x) for x in el.elts)):
                    fail("for over a non-constant list", s)
                seq.append([x.value for x in el.elts])
            unrolled = []
            for vals in seq:
                for st in s.body:
                    unrolled.append((st, dict(zip(names, vals))))
            return self.comp_unrolled(unrolled, rest, env, k)
        # map: for w in original_rule['byweekday']: if c: x.append(a) else: x.append(b)
        if isinstance(s.target, ast.Name) and not s.orelse:
            lt, lty = self.ex(s.iter, env)
            if lty != "listwd":
                fail("for over " + str(lty), s)
            w = self.fresh("w")
            env_b = dict(env)
            env_b[s.target.id] = (w, "wd")
            holder = {}

            def body(stmts, e2):
                if len(stmts) == 1 and isinstance(stmts[0], ast.If):
                    sp, et, ee = self.cond(stmts[0].test, e2)
                    return sp(body(list(stmts[0].body), et), body(list(stmts[0].orelse), ee))
                if len(stmts) == 1 and self.only_appends(stmts, e2) is not None:
                    holder["x"] = stmts[0].value.func.value.id
                    t, ty = self.exr(stmts[0].value.args[0], e2)
                    if ty != "str":
                        fail("append of " + ty, stmts[0])
                    return t
                fail("map loop body", s)
            bt = body(list(s.body), env_b)
            x = holder["x"]
            if env.get(x, (0, 0))[1] != "liststr" or env[x][0] != "[]":
                fail("map loop must fill a fresh list", s)
            env2 = dict(env)
            env2[x] = ("(map (fun %s => %s) %s)" % (w, bt, lt), "liststr")
            return self.comp(rest, env2, k)
        fail("for (__str__)", s)

    def comp_unrolled(self, items, rest, env, k):
        if not items:
            return self.comp(rest, env, k)
        (st, binds), more = items[0], items[1:]
        env2 = dict(env)
        for n, v in binds.items():
            env2[n] = (lit(v), "str", v)
        # one statement of the loop body, then the remaining unrolled statements
        return self.comp([st], env2, lambda e3: self.comp_unrolled(more, rest, e3, k))


def translate_str(mod, tables):
    cls = find_class(mod, "rrule")
    f = [x for x in cls.body if isinstance(x, ast.FunctionDef) and x.name == "__str__"]
    if len(f) != 1 or [a.arg for a in f[0].args.args] != ["self"]:
        fail("rrule.__str__ not found")
    f = f[0]
    fn = StrFn(tables)
    fn.loaded = {n.id for n in ast.walk(f) if isinstance(n, ast.Name) and isinstance(n.ctx, ast.Load)}
    orig = {k: ("(%s r)" % v, "oent_wd" if k == "byweekday" else "oent_int") for k, v in ORIG_KEYS.items()}
    env = {"@orig": orig, "@self": {}}
    body = []
    for st in f.body:
        body.append(st)
    # `x = []` introduces list builders
    class L(StrFn):
        pass
    def comp0(stmts, env):
        return fn.comp(stmts, env, lambda e2: fail("__str__ falls off its end", f))
    # pre-pass: turn `x = []` into a typed empty list
    orig_comp = fn.comp

    def comp(stmts, env, k):
        stmts2 = [s for s in stmts if not fn.dead(s, fn.loaded)]
        if stmts2 and isinstance(stmts2[0], ast.Assign) and isinstance(stmts2[0].value, ast.List) \
                and not stmts2[0].value.elts and isinstance(stmts2[0].targets[0], ast.Name):
            env2 = dict(env)
            env2[stmts2[0].targets[0].id] = ("[]", "liststr")
            return comp(stmts2[1:], env2, k)
        return orig_comp(stmts2, env, k)
    fn.comp = comp
    return fn.comp(body, env, lambda e2: fail("__str__ falls off its end", f))


# ---------------------------------------------------------------------------------- _rrulestr._parse_rfc

UNFOLD_IDIOM = """
lines = s.splitlines()
i = 0
while i < len(lines):
    line = lines[i].rstrip()
    if not line:
        del lines[i]
    elif i > 0 and line[0] == " ":
        lines[i-1] += line[1:]
        del lines[i]
    else:
        i += 1
"""
TZID_IDIOM = """
TZID_NAMES = dict(map(
    lambda x: (x.upper(), x),
    re.findall('(?i)TZID=(?P<name>[^:;]+)[:;]', '\\n'.join(lines))
))
"""
LAZY_IMPORT2 = """
if not parser and (rdatevals or exdatevals):
    from dateutil import parser
"""


def reads_before_write(stmts, name):
    """may `name` be read in stmts before it is (definitely) re-bound?  conservative"""
    for st in stmts:
        if isinstance(st, ast.For):
            if any(isinstance(n, ast.Name) and n.id == name for n in ast.walk(st.iter)):
                return True
            if isinstance(st.target, ast.Name) and st.target.id == name:
                continue                      # re-bound by the loop; body reads the new value; afterwards unknown
            if reads_before_write(st.body, name):
                return True
            continue
        if isinstance(st, ast.Assign) and len(st.targets) == 1 and isinstance(st.targets[0], ast.Name) \
                and st.targets[0].id == name:
            if any(isinstance(n, ast.Name) and n.id == name for n in ast.walk(st.value)):
                return True
            return False
        if isinstance(st, ast.If):
            if any(isinstance(n, ast.Name) and n.id == name for n in ast.walk(st.test)):
                return True
            if reads_before_write(st.body, name) or reads_before_write(st.orelse, name):
                return True
            continue
        if any(isinstance(n, ast.Name) and n.id == name and isinstance(n.ctx, ast.Load) for n in ast.walk(st)):
            return True
    return False


def same_ast(stmts, text):
    want = ast.parse(text).body
    return len(stmts) == len(want) and all(ast.dump(a) == ast.dump(b) for a, b in zip(stmts, want))


RSET_METHODS = {"rrule": ("rset#rr", "rule"), "rdate": ("rset#rd", "dt"), "exrule": ("rset#xr", "rule"),
                "exdate": ("rset#xd", "dt")}


class RfcFn(Fn):
    """_parse_rfc -> gen_parse_rfc (ev : env) (o : opts) (s : str) : gres result.
    Additional accepted forms (beyond Fn): `if c: x = <const>` (re-binding, no duplication);
    `if c: raise`; the UNFOLD idiom (exact AST: the while loop with in-place deletion -> unfold_lines
    (splitlines s) []) against `lines = s.split()` (-> words); the TZID idiom (exact AST incl. the
    regular expression -> tzid_findall (join "\\n" lines)); `x = [e.upper() for e in x]`;
    boolean conditions (not / and / or, len(x) == / > / != <const>, find == -1, startswith(<const>),
    truth values of lists / strings / optional datetime); `for x in e:` with several loop-carried
    variables (-> gfoldM over a tuple; `continue`; `x.append(e)`, `x.extend(e)`);
    `if <find == -1>: a = ..; b = .. else: a, b = s.split(c, 1)` (joined without duplication);
    `for p in ps: raise` (raise when non-empty); `for p in ps: if p != <const>: raise`;
    `rset = rruleset(cache=cache)`, rset.rrule / rdate / exrule / exdate, `return rset`;
    `return self._parse_rfc_rrule(..)`; the lazy-import no-op."""

    def __init__(self, tables):
        Fn.__init__(self, tables, "rfc")

    # ---- pure boolean conditions
    def bexp(self, c, env):
        if isinstance(c, ast.Name):
            t, ty = env[c.id][0], env[c.id][1]
            if ty == "bool":
                return t
            if ty in ("liststr", "listdt", "listrule", "str"):
                return "negb (isnil %s)" % t
            if ty == "optdt":
                return "negb (isNone %s)" % t
            fail("truth value of " + ty, c)
        if isinstance(c, ast.UnaryOp) and isinstance(c.op, ast.Not):
            return "negb (%s)" % self.bexp(c.operand, env)
        if isinstance(c, ast.BoolOp):
            op = " && " if isinstance(c.op, ast.And) else " || "
            return "(" + op.join("(%s)" % self.bexp(v, env) for v in c.values) + ")"
        if isinstance(c, ast.Compare) and len(c.ops) == 1:
            op, l, r = c.ops[0], c.left, c.comparators[0]
            if isinstance(l, ast.Call) and isinstance(l.func, ast.Name) and l.func.id == "len" and len(l.args) == 1 \
                    and isinstance(l.args[0], ast.Name) and isinstance(r, ast.Constant) and isinstance(r.value, int):
                t = env[l.args[0].id][0]
                n = "(Z.of_nat (List.length %s))" % t
                if isinstance(op, ast.Eq):
                    return "%s =? %d" % (n, r.value)
                if isinstance(op, ast.NotEq):
                    return "negb (%s =? %d)" % (n, r.value)
                if isinstance(op, ast.Gt):
                    return "%d <? %s" % (r.value, n)
            if isinstance(op, (ast.Eq, ast.NotEq)) and isinstance(l, ast.Call) and isinstance(l.func, ast.Attribute) \
                    and l.func.attr == "find" and len(l.args) == 1 and is_const_str(l.args[0], 1) \
                    and isinstance(r, ast.UnaryOp) and isinstance(r.op, ast.USub) and isinstance(r.operand, ast.Constant) \
                    and r.operand.value == 1 and isinstance(l.func.value, ast.Name) and env[l.func.value.id][1] == "str":
                b = "has_char %d %s" % (ord(l.args[0].value), env[l.func.value.id][0])
                return "negb (%s)" % b if isinstance(op, ast.Eq) else b
            if isinstance(op, (ast.Eq, ast.NotEq)) and is_const_str(r) and isinstance(l, ast.Name) and env[l.id][1] == "str":
                b = "leqb %s %s" % (env[l.id][0], lit(r.value))
                return "negb (%s)" % b if isinstance(op, ast.NotEq) else b
        if isinstance(c, ast.Call) and isinstance(c.func, ast.Attribute) and c.func.attr == "startswith" \
                and len(c.args) == 1 and is_const_str(c.args[0]) and isinstance(c.func.value, ast.Name) \
                and env[c.func.value.id][1] == "str":
            return "startswith %s %s" % (lit(c.args[0].value), env[c.func.value.id][0])
        if isinstance(c, ast.Call) and isinstance(c.func, ast.Attribute) and c.func.attr == "strip" and not c.args \
                and isinstance(c.func.value, ast.Name) and env[c.func.value.id][1] == "str":
            return "negb (isnil (strip %s))" % env[c.func.value.id][0]
        fail("boolean condition (_parse_rfc)", c)

    # ---- expressions
    def ex(self, e, env):
        if isinstance(e, ast.Call) and isinstance(e.func, ast.Attribute) and isinstance(e.func.value, ast.Name) \
                and e.func.value.id == "self":
            m = e.func.attr
            kws = {k.arg: (k.value.id if isinstance(k.value, ast.Name) else None) for k in e.keywords}
            if m == "_parse_rfc_rrule" and len(e.args) == 1:
                extra = dict(kws)
                cache = extra.pop("cache", None)
                if extra != {"dtstart": "dtstart", "ignoretz": "ignoretz", "tzinfos": "tzinfos"} or cache not in (None, "cache"):
                    fail("_parse_rfc_rrule keywords", e)
                pre, t, ty = self.ex(e.args[0], env)
                if ty != "str":
                    fail("_parse_rfc_rrule line", e)
                v = self.fresh()
                self.last_cache = env["cache"][0] if cache else "false"
                return pre + [(v, "gen_rule ev %s %s %s" % (env["ignoretz"][0], t, env["dtstart"][0]))], v, "rule"
            if m == "_parse_date" and [getattr(a, "id", None) for a in e.args[1:]] == ["ignoretz", "tzinfos"] and not kws:
                pre, t, ty = self.ex(e.args[0], env)
                if ty != "str":
                    fail("_parse_date argument", e)
                v = self.fresh()
                return pre + [(v, "gen_parse_date %s %s" % (env["ignoretz"][0], t))], v, "dt"
            if m == "_parse_date_value" and not kws and [getattr(a, "id", None) for a in e.args[2:]] == \
                    ["TZID_NAMES", "ignoretz", "tzids", "tzinfos"] and env.get("TZID_NAMES", (0, 0))[1] == "names":
                p1, t1, ty1 = self.ex(e.args[0], env)
                p2, t2, ty2 = self.ex(e.args[1], env)
                if (ty1, ty2) != ("str", "liststr"):
                    fail("_parse_date_value arguments", e)
                v = self.fresh()
                return p1 + p2 + [(v, "gen_parse_date_value o %s %s %s" % (env["TZID_NAMES"][0], t1, t2))], v, "listdt"
            fail("method call outside the call table", e)
        if isinstance(e, ast.Subscript) and isinstance(e.value, ast.Name) and e.value.id in env \
                and env[e.value.id][1] in ("liststr", "listdt"):
            t, ty = env[e.value.id][0], env[e.value.id][1]
            sl = e.slice
            if isinstance(sl, ast.Constant) and isinstance(sl.value, int) and sl.value >= 0:
                v = self.fresh()
                return [(v, "g_nth %s %d" % (t, sl.value))], v, {"liststr": "str", "listdt": "dt"}[ty]
            if isinstance(sl, ast.Slice) and sl.step is None and sl.upper is None and isinstance(sl.lower, ast.Constant) \
                    and sl.lower.value == 1:
                return [], "(tl %s)" % t, ty
        if isinstance(e, ast.Call) and isinstance(e.func, ast.Attribute) and e.func.attr == "split" and not e.args \
                and not e.keywords:
            pre, t, ty = self.ex(e.func.value, env)
            if ty != "str":
                fail("split() receiver", e)
            return pre, "(words %s)" % t, "liststr"
        if isinstance(e, ast.ListComp) and len(e.generators) == 1 and isinstance(e.generators[0].target, ast.Name) \
                and not e.generators[0].ifs and isinstance(e.elt, ast.Call) and isinstance(e.elt.func, ast.Attribute) \
                and e.elt.func.attr == "upper" and isinstance(e.elt.func.value, ast.Name) \
                and e.elt.func.value.id == e.generators[0].target.id and not e.elt.args:
            pre, t, ty = self.ex(e.generators[0].iter, env)
            if ty != "liststr":
                fail("comprehension source", e)
            return pre, "(map upper %s)" % t, "liststr"
        return Fn.ex(self, e, env)

    # ---- statements
    def state_names(self, env):
        return [n for n in env if n.startswith("rset#")]

    def mutated(self, stmts, env):
        out = []
        for n in ast.walk(ast.Module(body=list(stmts), type_ignores=[])):
            nm = None
            if isinstance(n, ast.Name) and isinstance(n.ctx, ast.Store):
                nm = n.id
            elif isinstance(n, ast.Call) and isinstance(n.func, ast.Attribute) and isinstance(n.func.value, ast.Name):
                if n.func.attr in ("append", "extend"):
                    nm = n.func.value.id
                elif n.func.value.id == "rset" and n.func.attr in RSET_METHODS:
                    nm = RSET_METHODS[n.func.attr][0]
            if nm is not None and nm not in out:
                out.append(nm)
        return out

    def comp(self, stmts, env, k):
        if not stmts:
            return k(env)
        s, rest = stmts[0], stmts[1:]

        def cont(e2):
            return self.comp(rest, e2, k)
        # idioms spanning a whole statement
        if isinstance(s, ast.If) and len(s.orelse) == 1 and same_ast(s.body, UNFOLD_IDIOM) \
                and same_ast(s.orelse, "lines = s.split()") and isinstance(s.test, ast.Name) and env[s.test.id][1] == "bool":
            v = self.fresh("lines")
            env2 = dict(env)
            env2["lines"] = (v, "liststr")
            return "(let %s := (if %s then unfold_lines (splitlines %s) [] else words %s) in %s)" % (
                v, env[s.test.id][0], env["s"][0], env["s"][0], cont(env2))
        if same_ast([s], TZID_IDIOM):
            v = self.fresh("names")
            env2 = dict(env)
            env2["TZID_NAMES"] = (v, "names")
            return "(let %s := tzid_findall (join [10] %s) in %s)" % (v, env["lines"][0], cont(env2))
        if same_ast([s], LAZY_IMPORT2):
            return cont(env)
        if isinstance(s, ast.Continue):
            return k(env)
        if isinstance(s, ast.If):
            body_assign = all(isinstance(b, ast.Assign) and len(b.targets) == 1 and isinstance(b.targets[0], ast.Name)
                              and isinstance(b.value, ast.Constant) and isinstance(b.value.value, bool) for b in s.body)
            if body_assign and not s.orelse:
                c = self.bexp(s.test, env)
                env2 = dict(env)
                lets = []
                for b in s.body:
                    n = b.targets[0].id
                    if env.get(n, (0, 0))[1] != "bool":
                        fail("re-binding of a non-boolean", b)
                    v = self.fresh(n)
                    lets.append("let %s := (if %s then %s else %s) in " % (v, c, "true" if b.value.value else "false", env[n][0]))
                    env2[n] = (v, "bool")
                return "(" + "".join(lets) + cont(env2) + ")"
            if len(s.body) == 1 and isinstance(s.body[0], ast.Raise) and not s.orelse:
                return "(if %s then GExc %s else %s)" % (self.bexp(s.test, env), self.exc_of(s.body[0]), cont(env))
            if len(s.body) == 1 and isinstance(s.body[0], ast.Continue) and not s.orelse:
                return "(if %s then %s else %s)" % (self.bexp(s.test, env), k(env), cont(env))
            # if <no ':'>: name = <const>; value = line  else: name, value = line.split(':', 1)
            j = self.join_split(s, env)
            if j is not None:
                term, a, b, na, nb = j
                env2 = dict(env)
                env2[na] = (a, "str")
                env2[nb] = (b, "str")
                return "(match %s with Some (%s, %s) => %s | None => GExc XValue end)" % (term, a, b, cont(env2))
            # rset.rdate(dtstart) guarded by `compatible and dtstart`
            if not s.orelse and isinstance(s.test, ast.BoolOp) and isinstance(s.test.op, ast.And) \
                    and isinstance(s.test.values[-1], ast.Name) and env.get(s.test.values[-1].id, (0, 0))[1] == "optdt":
                d = s.test.values[-1].id
                c = " && ".join("(%s)" % self.bexp(v, env) for v in s.test.values[:-1])
                v = self.fresh(d)
                env_t = dict(env)
                env_t[d] = ("(Some %s)" % v, "optdt")
                env_t[d + "!"] = (v, "dt")
                a = self.comp(list(s.body) + rest, env_t, k)
                bb = self.comp(rest, env, k)
                return "(if %s then match %s with Some %s => %s | None => %s end else %s)" % (c, env[d][0], v, a, bb, bb)
            c = self.bexp(s.test, env)
            a = self.comp(list(s.body) + rest, env, k)
            bb = self.comp(list(s.orelse) + rest, env, k)
            return "(if %s then %s else %s)" % (c, a, bb)
        if isinstance(s, ast.Return):
            v = s.value
            if isinstance(v, ast.Name) and v.id == "rset" and "rset#rr" in env:
                return "GOk (RSet %s %s %s %s %s)" % (env["rset#cache"][0], env["rset#rr"][0], env["rset#rd"][0],
                                                   env["rset#xr"][0], env["rset#xd"][0])
            pre, t, ty = self.ex(v, env)
            if ty != "rule":
                fail("return value", s)
            return self.wrap(pre, "GOk (RRule %s %s)" % (self.last_cache, t))
        if isinstance(s, ast.Assign) and len(s.targets) == 1 and isinstance(s.targets[0], ast.Name):
            n, v = s.targets[0].id, s.value
            if isinstance(v, ast.List) and not v.elts:
                env2 = dict(env)
                env2[n] = ("[]", {"rrulevals": "liststr", "rdatevals": "liststr", "exrulevals": "liststr",
                                  "exdatevals": "listdt", "datevals": "listdt"}.get(n, "emptylist"))
                return cont(env2)
            if isinstance(v, ast.Call) and isinstance(v.func, ast.Name) and v.func.id == "rruleset" and not v.args \
                    and [(kk.arg, getattr(kk.value, "id", None)) for kk in v.keywords] == [("cache", "cache")] and n == "rset":
                env2 = dict(env)
                env2["rset#cache"] = (env["cache"][0], "bool")
                env2["rset#rr"] = ("[]", "listrule")
                env2["rset#rd"] = ("[]", "listdt")
                env2["rset#xr"] = ("[]", "listrule")
                env2["rset#xd"] = ("[]", "listdt")
                return cont(env2)
            pre, t, ty = self.ex(v, env)
            if n == "dtstart" and ty == "dt":
                t, ty = "(Some %s)" % t, "optdt"
            nv = self.fresh(n)
            env2 = dict(env)
            env2[n] = (nv, ty)
            return self.wrap(pre, "(let %s := %s in %s)" % (nv, t, cont(env2)))
        if isinstance(s, ast.Expr) and isinstance(s.value, ast.Call) and isinstance(s.value.func, ast.Attribute) \
                and isinstance(s.value.func.value, ast.Name) and len(s.value.args) == 1 and not s.value.keywords:
            obj, m, a = s.value.func.value.id, s.value.func.attr, s.value.args[0]
            if obj == "rset" and m in RSET_METHODS and "rset#rr" in env:
                var, want = RSET_METHODS[m]
                if isinstance(a, ast.Name) and (a.id + "!") in env:
                    pre, t, ty = [], env[a.id + "!"][0], "dt"
                else:
                    pre, t, ty = self.ex(a, env)
                if ty != want:
                    fail("rset.%s(%s)" % (m, ty), s)
                nv = self.fresh("rs")
                env2 = dict(env)
                env2[var] = (nv, env[var][1])
                return self.wrap(pre, "(let %s := %s ++ [%s] in %s)" % (nv, env[var][0], t, cont(env2)))
            if m in ("append", "extend") and env.get(obj, (0, 0))[1] in ("liststr", "listdt"):
                pre, t, ty = self.ex(a, env)
                lty = env[obj][1]
                if m == "append" and ty != {"liststr": "str", "listdt": "dt"}[lty]:
                    fail("append of %s to %s" % (ty, lty), s)
                if m == "extend" and ty != lty:
                    fail("extend of %s to %s" % (ty, lty), s)
                nv = self.fresh(obj)
                env2 = dict(env)
                env2[obj] = (nv, lty)
                add = "[%s]" % t if m == "append" else t
                return self.wrap(pre, "(let %s := %s ++ %s in %s)" % (nv, env[obj][0], add, cont(env2)))
        if isinstance(s, ast.For):
            return self.for_(s, rest, env, k)
        if isinstance(s, (ast.Expr, ast.Global, ast.Raise)):
            return Fn.comp(self, stmts, env, k)
        fail("statement outside the accepted subset (_parse_rfc)", s)

    def join_split(self, s, env):
        """if line.find(c) == -1: a = <const>; b = line  else: a, b = line.split(c, 1)"""
        if len(s.body) != 2 or len(s.orelse) != 1:
            return None
        t = s.test
        ok = (isinstance(t, ast.Compare) and len(t.ops) == 1 and isinstance(t.ops[0], ast.Eq)
              and isinstance(t.left, ast.Call) and isinstance(t.left.func, ast.Attribute) and t.left.func.attr == "find"
              and isinstance(t.left.func.value, ast.Name) and len(t.left.args) == 1 and is_const_str(t.left.args[0], 1)
              and ast.dump(t.comparators[0]) == ast.dump(ast.parse("-1", mode="eval").body))
        if not ok:
            return None
        x, c = t.left.func.value.id, t.left.args[0].value
        b1, b2, e1 = s.body[0], s.body[1], s.orelse[0]
        if not (isinstance(b1, ast.Assign) and isinstance(b1.targets[0], ast.Name) and is_const_str(b1.value)
                and isinstance(b2, ast.Assign) and isinstance(b2.targets[0], ast.Name) and isinstance(b2.value, ast.Name)
                and b2.value.id == x and isinstance(e1, ast.Assign) and isinstance(e1.targets[0], ast.Tuple)
                and [getattr(z, "id", None) for z in e1.targets[0].elts] == [b1.targets[0].id, b2.targets[0].id]
                and ast.dump(e1.value) == ast.dump(ast.parse("%s.split(%r, 1)" % (x, c), mode="eval").body)
                and env.get(x, (0, 0))[1] == "str"):
            return None
        xt = env[x][0]
        a, b = self.fresh(b1.targets[0].id), self.fresh(b2.targets[0].id)
        term = "(if negb (has_char %d %s) then Some (%s, %s) else split1 %d %s)" % (ord(c), xt, lit(b1.value.value), xt, ord(c), xt)
        return term, a, b, b1.targets[0].id, b2.targets[0].id

    def for_(self, s, rest, env, k):
        if s.orelse or not isinstance(s.target, ast.Name):
            fail("for", s)
        pre, t, ty = self.ex(s.iter, env)
        ety = {"liststr": "str", "listdt": "dt"}.get(ty)
        if ety is None:
            fail("for over " + str(ty), s)
        # for p in ps: raise X
        if len(s.body) == 1 and isinstance(s.body[0], ast.Raise):
            return self.wrap(pre, "(if isnil %s then %s else GExc %s)" % (t, self.comp(rest, env, k), self.exc_of(s.body[0])))
        # for p in ps: if <test on p>: raise X
        if len(s.body) == 1 and isinstance(s.body[0], ast.If) and not s.body[0].orelse and len(s.body[0].body) == 1 \
                and isinstance(s.body[0].body[0], ast.Raise):
            x = self.fresh(s.target.id)
            env_b = dict(env)
            env_b[s.target.id] = (x, ety)
            c = self.bexp(s.body[0].test, env_b)
            return self.wrap(pre, "(if forallb (fun %s => negb (%s)) %s then %s else GExc %s)" % (
                x, c, t, self.comp(rest, env, k), self.exc_of(s.body[0].body[0])))
        carried = [n for n in self.mutated(s.body, env) if n in env]
        local = [n for n in self.mutated(s.body, env) if n not in env]
        bad = [n for n in local + [s.target.id] if reads_before_write(rest, n)]
        if bad:
            fail("loop-local names read after the loop: %s" % sorted(bad), s)
        if not carried:
            fail("loop without effect", s)
        x = self.fresh(s.target.id)
        env_b = dict(env)
        env_b[s.target.id] = (x, ety)
        svars = []
        for n in carried:
            v = self.fresh(n.replace("#", "_"))
            svars.append(v)
            env_b[n] = (v, env[n][1])

        def tup(names):
            return names[0] if len(names) == 1 else "(" + ", ".join(names) + ")"
        body = self.comp(list(s.body), env_b, lambda e2: "GOk %s" % tup([e2[n][0] for n in carried]))
        after = []
        env2 = dict(env)
        for n in carried:
            v = self.fresh(n.replace("#", "_"))
            after.append(v)
            env2[n] = (v, env[n][1])
        st, st2 = self.fresh("st"), self.fresh("st")
        coq_ty = {"bool": "bool", "tz": "Z", "liststr": "list str", "listdt": "list dt", "listrule": "list rule",
                  "optdt": "option dt", "str": "str"}
        for n in carried:
            if env[n][1] not in coq_ty:
                fail("loop-carried variable %s of type %s" % (n, env[n][1]), s)
        sty = " * ".join(coq_ty[env[n][1]] for n in carried)
        return self.wrap(pre, "gbind (gfoldM (fun (%s : %s) %s => let '%s := %s in %s) %s %s) (fun %s => let '%s := %s in %s)" % (
            st, sty, x, tup(svars), st, body, t, tup([env[n][0] for n in carried]), st2, tup(after), st2, self.comp(rest, env2, k)))


def translate_rfc(cls, tables):
    funcs = {f.name: f for f in cls.body if isinstance(f, ast.FunctionDef)}
    f = funcs["_parse_rfc"]
    a = f.args
    names = [x.arg for x in a.args]
    if names != ["self", "s", "dtstart", "cache", "unfold", "forceset", "compatible", "ignoretz", "tzids", "tzinfos"] \
            or [ast.dump(d) for d in a.defaults] != [ast.dump(ast.Constant(value=v)) for v in
                                                      (None, False, False, False, False, False, None, None)]:
        fail("_parse_rfc signature / defaults", f)
    env = {"s": ("s", "str"), "dtstart": ("(o_dtstart o)", "optdt"), "cache": ("(o_cache o)", "bool"),
           "unfold": ("(o_unfold o)", "bool"), "forceset": ("(o_forceset o)", "bool"),
           "compatible": ("(o_compatible o)", "bool"), "ignoretz": ("(o_ignoretz o)", "bool"),
           "tzids": ("tt", "tzids"), "tzinfos": ("tt", "unit")}
    fn = RfcFn(tables)
    return fn.comp(list(f.body), env, lambda e2: fail("_parse_rfc falls off its end", f))


# ---------------------------------------------------------------------------------- _parse_date / _parse_date_value

TZLOOKUP_IDIOM = """
if tzids is None:
    from . import tz
    tzlookup = tz.gettz
elif callable(tzids):
    tzlookup = tzids
else:
    tzlookup = getattr(tzids, 'get', None)
    if tzlookup is None:
        msg = ('tzids must be a callable, mapping, or None, '
               'not %s' % tzids)
        raise ValueError(msg)
"""
PARSE_DATE_BODY = """
try:
    return parser.parse(datestr, ignoretz=ignoretz, tzinfos=tzinfos)
except OverflowError:
    raise ValueError("invalid date: " + datestr)
"""


def translate_parse_date(cls):
    """_parse_date: `try: return parser.parse(datestr, ignoretz=ignoretz, tzinfos=tzinfos)
    except <classes>: raise <class>(..)` -> gcatchs (g_parse ig datestr) [..]"""
    funcs = {f.name: f for f in cls.body if isinstance(f, ast.FunctionDef)}
    f = funcs.get("_parse_date")
    if f is None or [x.arg for x in f.args.args] != ["self", "datestr", "ignoretz", "tzinfos"] or f.args.defaults \
            or f.args.vararg or f.args.kwarg or f.args.kwonlyargs:
        fail("_parse_date signature", f)
    body = [st for st in f.body if not (isinstance(st, ast.Expr) and is_const_str(st.value))]
    if len(body) != 1 or not isinstance(body[0], ast.Try):
        fail("_parse_date body is not one try statement", f)
    t = body[0]
    if t.orelse or t.finalbody or len(t.body) != 1 or not isinstance(t.body[0], ast.Return) \
            or ast.dump(t.body[0].value) != ast.dump(ast.parse(
                "parser.parse(datestr, ignoretz=ignoretz, tzinfos=tzinfos)", mode="eval").body):
        fail("_parse_date try body", t)
    fn = Fn({}, "none")
    hs = []
    for h in t.handlers:
        if h.name is not None or len(h.body) != 1 or not isinstance(h.body[0], ast.Raise):
            fail("except clause", h)
        tys = h.type.elts if isinstance(h.type, ast.Tuple) else [h.type]
        cl = []
        for ty in tys:
            if not (isinstance(ty, ast.Name) and ty.id in EXC):
                fail("exception class", h)
            cl.append(EXC[ty.id])
        hs.append("([%s], %s)" % ("; ".join(cl), fn.exc_of(h.body[0])))
    return "gcatchs (g_parse ig datestr) [%s]" % "; ".join(hs)


class PdvFn(RfcFn):
    """_parse_date_value -> gen_parse_date_value (o : opts) (rule_tzids : list str) (date_value : str)
    (parms : list str) : gres (list dt).
    Additional accepted forms (beyond RfcFn): `x = True / False`; `x = None` for a name later bound to
    `tzlookup(..)` (a zone tag, 0 = None); `try: v = rule_tzids[parm.split('TZID=')[-1]] except KeyError:
    continue` (-> tzid_lookup / split_last_tzid); the TZLOOKUP idiom (exact AST: tzids None / callable /
    mapping -> the environment's zone lookup tz_get (o_tzids o)); `x = tzlookup(v)`; `p not in {<str
    consts>}`; `X is None` / `is not None` on a zone tag and on `d.tzinfo`; `d.replace(tzinfo=X)`
    (-> dt_with_tz); an assignment to a name that is only read inside `raise` arguments, with a
    right-hand side built from string constants, string variables and `+` (a message: no-op);
    `return datevals`."""

    def __init__(self, tables, f):
        RfcFn.__init__(self, tables)
        in_raise = {id(n) for r in ast.walk(f) if isinstance(r, ast.Raise) for n in ast.walk(r)
                    if isinstance(n, ast.Name)}
        loads = {}
        for n in ast.walk(f):
            if isinstance(n, ast.Name) and isinstance(n.ctx, ast.Load):
                loads.setdefault(n.id, []).append(id(n) in in_raise)
        self.msg_names = {n for n, l in loads.items() if all(l)}
        self.tz_vars = {st.targets[0].id for st in ast.walk(f)
                        if isinstance(st, ast.Assign) and len(st.targets) == 1 and isinstance(st.targets[0], ast.Name)
                        and isinstance(st.value, ast.Call) and isinstance(st.value.func, ast.Name)
                        and st.value.func.id == "tzlookup"}

    def pure_msg(self, e, env):
        if is_const_str(e):
            return True
        if isinstance(e, ast.Name):
            return env.get(e.id, (0, 0))[1] == "str"
        if isinstance(e, ast.BinOp) and isinstance(e.op, ast.Add):
            return self.pure_msg(e.left, env) and self.pure_msg(e.right, env)
        return False

    def bexp(self, c, env):
        if isinstance(c, ast.Compare) and len(c.ops) == 1:
            op, l, r = c.ops[0], c.left, c.comparators[0]
            if isinstance(op, (ast.Is, ast.IsNot)) and isinstance(r, ast.Constant) and r.value is None:
                b = None
                if isinstance(l, ast.Name) and env.get(l.id, (0, 0))[1] == "tz":
                    b = "(%s =? 0)" % env[l.id][0]
                elif isinstance(l, ast.Attribute) and l.attr == "tzinfo" and isinstance(l.value, ast.Name) \
                        and env.get(l.value.id, (0, 0))[1] == "dt":
                    b = "(dtz %s =? 0)" % env[l.value.id][0]
                if b is not None:
                    return b if isinstance(op, ast.Is) else "negb %s" % b
            if isinstance(op, (ast.In, ast.NotIn)) and isinstance(r, ast.Set) and r.elts \
                    and all(is_const_str(x) for x in r.elts) and isinstance(l, ast.Name) \
                    and env.get(l.id, (0, 0))[1] == "str":
                b = "(" + " || ".join("leqb %s %s" % (env[l.id][0], lit(x.value)) for x in r.elts) + ")"
                return b if isinstance(op, ast.In) else "negb %s" % b
        return RfcFn.bexp(self, c, env)

    def ex(self, e, env):
        if isinstance(e, ast.Constant) and isinstance(e.value, bool):
            return [], "true" if e.value else "false", "bool"
        # parm.split('TZID=')[-1]
        if (isinstance(e, ast.Subscript) and ast.dump(e.slice) == ast.dump(ast.parse("-1", mode="eval").body)
                and isinstance(e.value, ast.Call) and isinstance(e.value.func, ast.Attribute)
                and e.value.func.attr == "split" and not e.value.keywords and len(e.value.args) == 1
                and is_const_str(e.value.args[0]) and e.value.args[0].value == "TZID="):
            pre, t, ty = self.ex(e.value.func.value, env)
            if ty != "str":
                fail("split() receiver", e)
            return pre, "(split_last_tzid %s)" % t, "str"
        if isinstance(e, ast.Call) and isinstance(e.func, ast.Name) and env.get(e.func.id, (0, 0))[1] == "tzlookup" \
                and len(e.args) == 1 and not e.keywords:
            pre, t, ty = self.ex(e.args[0], env)
            if ty != "str":
                fail("tzlookup argument", e)
            return pre, "(%s %s)" % (env[e.func.id][0], t), "tz"
        if (isinstance(e, ast.Call) and isinstance(e.func, ast.Attribute) and e.func.attr == "replace" and not e.args
                and isinstance(e.func.value, ast.Name) and env.get(e.func.value.id, (0, 0))[1] == "dt"
                and len(e.keywords) == 1 and e.keywords[0].arg == "tzinfo" and isinstance(e.keywords[0].value, ast.Name)
                and env.get(e.keywords[0].value.id, (0, 0))[1] == "tz"):
            return [], "(dt_with_tz %s %s)" % (env[e.func.value.id][0], env[e.keywords[0].value.id][0]), "dt"
        return RfcFn.ex(self, e, env)

    def comp(self, stmts, env, k):
        if not stmts:
            return k(env)
        s, rest = stmts[0], stmts[1:]

        def cont(e2):
            return self.comp(rest, e2, k)
        if same_ast([s], "if not parser:\n    from dateutil import parser"):
            return cont(env)
        if same_ast([s], TZLOOKUP_IDIOM) and env.get("tzids", (0, 0))[1] == "tzids":
            env2 = dict(env)
            env2["tzlookup"] = ("tz_get (o_tzids o)", "tzlookup")
            return cont(env2)
        if isinstance(s, ast.Assign) and len(s.targets) == 1 and isinstance(s.targets[0], ast.Name):
            n, v = s.targets[0].id, s.value
            if n in self.msg_names and n not in env:
                if not self.pure_msg(v, env):
                    fail("message assignment with an effectful right-hand side", s)
                return cont(env)
            if isinstance(v, ast.Constant) and v.value is None:
                if n not in self.tz_vars:
                    fail("`%s = None` for a name that is not a zone" % n, s)
                env2 = dict(env)
                env2[n] = ("0", "tz")
                return cont(env2)
        # try: v = rule_tzids[K] except KeyError: continue
        if isinstance(s, ast.Try):
            ok = (not s.orelse and not s.finalbody and len(s.body) == 1 and len(s.handlers) == 1
                  and isinstance(s.body[0], ast.Assign) and len(s.body[0].targets) == 1
                  and isinstance(s.body[0].targets[0], ast.Name) and isinstance(s.body[0].value, ast.Subscript)
                  and isinstance(s.body[0].value.value, ast.Name)
                  and env.get(s.body[0].value.value.id, (0, 0))[1] == "names"
                  and s.handlers[0].name is None and isinstance(s.handlers[0].type, ast.Name)
                  and s.handlers[0].type.id == "KeyError" and len(s.handlers[0].body) == 1
                  and isinstance(s.handlers[0].body[0], ast.Continue))
            if not ok:
                fail("try statement (_parse_date_value)", s)
            pre, t, ty = self.ex(s.body[0].value.slice, env)
            if pre or ty != "str":
                fail("dictionary key", s)
            v = self.fresh(s.body[0].targets[0].id)
            env2 = dict(env)
            env2[s.body[0].targets[0].id] = (v, "str")
            return "(match tzid_lookup %s %s with Some %s => %s | None => %s end)" % (
                env[s.body[0].value.value.id][0], t, v, cont(env2), k(env))
        if isinstance(s, ast.Return) and isinstance(s.value, ast.Name) and env.get(s.value.id, (0, 0))[1] == "listdt":
            return "GOk %s" % env[s.value.id][0]
        return RfcFn.comp(self, stmts, env, k)


def translate_pdv(cls, tables):
    funcs = {f.name: f for f in cls.body if isinstance(f, ast.FunctionDef)}
    f = funcs.get("_parse_date_value")
    if f is None or [x.arg for x in f.args.args] != ["self", "date_value", "parms", "rule_tzids", "ignoretz", "tzids",
                                                     "tzinfos"] \
            or f.args.defaults or f.args.vararg or f.args.kwarg or f.args.kwonlyargs:
        fail("_parse_date_value signature", f)
    env = {"date_value": ("date_value", "str"), "parms": ("parms", "liststr"), "rule_tzids": ("rule_tzids", "names"),
           "ignoretz": ("(o_ignoretz o)", "bool"), "tzids": ("tt", "tzids"), "tzinfos": ("tt", "unit")}
    fn = PdvFn(tables, f)
    return fn.comp(list(f.body), env, lambda e2: fail("_parse_date_value falls off its end", f))

# ---------------------------------------------------------------------------------- module level

def find_class(mod, name):
    for n in mod.body:
        if isinstance(n, ast.ClassDef) and n.name == name:
            return n
    fail("class %s not found" % name)


def module_consts(mod):
    """(YEARLY, ..., SECONDLY) = list(range(7))"""
    out = {}
    for n in mod.body:
        if isinstance(n, ast.Assign) and len(n.targets) == 1 and isinstance(n.targets[0], ast.Tuple) \
                and isinstance(n.value, ast.Call) and isinstance(n.value.func, ast.Name) and n.value.func.id == "list" \
                and len(n.value.args) == 1 and isinstance(n.value.args[0], ast.Call) \
                and isinstance(n.value.args[0].func, ast.Name) and n.value.args[0].func.id == "range" \
                and len(n.value.args[0].args) == 1 and isinstance(n.value.args[0].args[0], ast.Constant):
            names = [e.id for e in n.targets[0].elts if isinstance(e, ast.Name)]
            if len(names) == len(n.targets[0].elts) == n.value.args[0].args[0].value:
                for i, nm in enumerate(names):
                    out[nm] = i
    return out


def weekdays_ok(mod):
    ok1 = False
    for n in mod.body:
        if isinstance(n, ast.Assign) and any(isinstance(t, ast.Name) and t.id == "weekdays" for t in n.targets):
            v = n.value
            ok1 = (isinstance(v, ast.Call) and isinstance(v.func, ast.Name) and v.func.id == "tuple" and len(v.args) == 1
                   and isinstance(v.args[0], ast.GeneratorExp)
                   and ast.dump(v.args[0].elt) == ast.dump(ast.parse("weekday(x)", mode="eval").body)
                   and len(v.args[0].generators) == 1
                   and ast.dump(v.args[0].generators[0].iter) == ast.dump(ast.parse("range(7)", mode="eval").body))
    wc = find_class(mod, "weekday")
    ok2 = False
    for f in wc.body:
        if isinstance(f, ast.FunctionDef) and f.name == "__init__":
            first = [st for st in f.body if not (isinstance(st, ast.Expr) and is_const_str(st.value))][0]
            ok2 = ast.dump(first) == ast.dump(ast.parse(
                "if n == 0:\n    raise ValueError(\"Can't create weekday with n==0\")").body[0])
    return ok1 and ok2


def dict_table(cls, name, consts):
    for n in cls.body:
        if isinstance(n, ast.Assign) and len(n.targets) == 1 and isinstance(n.targets[0], ast.Name) \
                and n.targets[0].id == name and isinstance(n.value, ast.Dict):
            out = []
            for kk, vv in zip(n.value.keys, n.value.values):
                if not is_const_str(kk):
                    fail("table key", kk)
                if isinstance(vv, ast.Constant) and isinstance(vv.value, int):
                    out.append((kk.value, vv.value))
                elif isinstance(vv, ast.Name) and vv.id in consts:
                    out.append((kk.value, consts[vv.id]))
                else:
                    fail("table value", vv)
            return out
    fail("table %s not found" % name)


def handler_env():
    return {"name": ("name", "str"), "value": ("value", "str"), "rrkwargs": ("rrkwargs", "kw")}


def check_handler_sig(f):
    a = f.args
    if [x.arg for x in a.args] != ["self", "rrkwargs", "name", "value"] or a.vararg or a.kwonlyargs \
            or a.kwarg is None or a.kwarg.arg != "kwargs" or a.defaults:
        fail("handler signature", f)


def translate(src):
    mod = ast.parse(src)
    pins = pin_check(mod)
    consts = module_consts(mod)
    cls = find_class(mod, "_rrulestr")
    tables = {"dicts": {"_freq_map": dict_table(cls, "_freq_map", consts),
                        "_weekday_map": dict_table(cls, "_weekday_map", consts)},
              "weekdays_ok": weekdays_ok(mod)}
    out = []
    out.append("(* GENERATED by harness/gen_rstr.py from src/dateutil/rrule.py -- do not edit *)")
    out.append("(* hand-modelled, AST-pinned methods: %s *)" % (", ".join(pins) or "none"))
    out.append("From Coq Require Import ZArith List Bool.")
    out.append("From V Require Import base.Cal rstr.RstrPrim rstr.RstrModel rstr.RstrGenBase.")
    out.append("Import ListNotations.\nOpen Scope Z_scope.\n")
    for nm, tb in tables["dicts"].items():
        out.append("Definition tbl%s : list (str * Z) :=\n  [%s].\n" % (
            nm, ";\n   ".join("(%s, %d)" % (lit(k), v) for k, v in tb)))
    funcs = {f.name: f for f in cls.body if isinstance(f, ast.FunctionDef)}
    handlers, aliases = [], []
    for n in cls.body:
        if isinstance(n, ast.FunctionDef) and n.name.startswith("_handle_"):
            handlers.append(n.name)
            aliases.append((n.name[len("_handle_"):], n.name))
        elif isinstance(n, ast.Assign) and len(n.targets) == 1 and isinstance(n.targets[0], ast.Name) \
                and n.targets[0].id.startswith("_handle_"):
            if not (isinstance(n.value, ast.Name) and n.value.id in funcs):
                fail("handler alias", n)
            aliases.append((n.targets[0].id[len("_handle_"):], n.value.id))
    for hn in handlers:
        f = funcs[hn]
        check_handler_sig(f)
        fn = Fn(tables, "state")
        body = fn.comp(list(f.body), handler_env(), lambda e2: "GOk %s" % e2["rrkwargs"][0])
        out.append("Definition gen%s (ig : bool) (name value : str) (rrkwargs : kwargs) : gres kwargs :=\n  %s.\n"
                   % (hn, body))
    # the getattr dispatch: every attribute named _handle_<X> of the class
    disp = "GExc XAttr"
    for key, target in reversed(aliases):
        disp = "if leqb name %s then gen%s ig name value rrkwargs\n  else %s" % (lit(key), target, disp)
    out.append("(* getattr(self, \"_handle_\" + name): %s *)" % ", ".join("%s->%s" % a for a in aliases))
    out.append("Definition gen_dispatch (ig : bool) (name value : str) (rrkwargs : kwargs) : gres kwargs :=\n  %s.\n" % disp)
    # _parse_rfc_rrule
    f = funcs["_parse_rfc_rrule"]
    if [x.arg for x in f.args.args] != ["self", "line", "dtstart", "cache", "ignoretz", "tzinfos"]:
        fail("_parse_rfc_rrule signature", f)
    fn = Fn(tables, "rrule")
    env = {"line": ("line", "str"), "ignoretz": ("ig", "bool"), "tzinfos": ("tt", "unit"),
           "dtstart": ("tt", "unit"), "cache": ("tt", "unit")}
    body = list(f.body)
    # `rrkwargs = {}` introduces the dictionary
    idx = [i for i, st in enumerate(body) if isinstance(st, ast.Assign) and isinstance(st.value, ast.Dict)
           and not st.value.keys and isinstance(st.targets[0], ast.Name)]
    if len(idx) != 1 or body[idx[0]].targets[0].id != "rrkwargs":
        fail("_parse_rfc_rrule must create `rrkwargs = {}` once", f)

    class NewDict(Fn):
        def comp(self, stmts, env, k):
            if stmts and isinstance(stmts[0], ast.Assign) and isinstance(stmts[0].value, ast.Dict) \
                    and not stmts[0].value.keys:
                env2 = dict(env)
                env2["rrkwargs"] = ("kw_empty", "kw")
                return Fn.comp(self, stmts[1:], env2, k)
            return Fn.comp(self, stmts, env, k)
    fn = NewDict(tables, "rrule")
    t = fn.comp(body, env, lambda e2: fail("_parse_rfc_rrule falls off its end", f))
    out.append("(* returns the keyword dictionary handed to rrule(dtstart=dtstart, cache=cache, **rrkwargs) *)")
    out.append("Definition gen_parse_rfc_rrule (ig : bool) (line : str) : gres kwargs :=\n  %s.\n" % t)
    out.append("(* self._parse_rfc_rrule(line, dtstart=.., ignoretz=.., tzinfos=..): the dictionary, then rrule(...) = ctor *)")
    hs = getattr(fn, "ctor_handlers", None)
    call = "g_of_res (ctor ev st kw)" if hs is None else "gcatchs (g_of_res (ctor ev st kw)) [%s]" % "; ".join(hs)
    out.append("Definition gen_rule (ev : env) (ig : bool) (line : str) (st : option dt) : gres rule :=\n"
               "  gbind (gen_parse_rfc_rrule ig line) (fun kw => %s).\n" % call)
    out.append("Definition gen_parse_date (ig : bool) (datestr : str) : gres dt :=\n  %s.\n" % translate_parse_date(cls))
    out.append("Definition gen_parse_date_value (o : opts) (rule_tzids : list str) (date_value : str) "
               "(parms : list str) : gres (list dt) :=\n  %s.\n" % translate_pdv(cls, tables))
    out.append("Definition gen_parse_rfc (ev : env) (o : opts) (s : str) : gres result :=\n  %s.\n" % translate_rfc(cls, tables))
    # FREQNAMES and rrule.__str__
    fr = None
    for n in mod.body:
        if isinstance(n, ast.Assign) and len(n.targets) == 1 and isinstance(n.targets[0], ast.Name) \
                and n.targets[0].id == "FREQNAMES" and isinstance(n.value, ast.List) \
                and all(is_const_str(x) for x in n.value.elts):
            fr = [x.value for x in n.value.elts]
    if fr is None:
        fail("FREQNAMES is not a list of string constants")
    out.append("Definition tblFREQNAMES : list str :=\n  [%s].\n" % ";\n   ".join(lit(x) for x in fr))
    out.append("Definition gen_to_str (r : rule) : str :=\n  %s.\n" % translate_str(mod, tables))
    return "\n".join(out)


def ndump(n):
    """version-independent dump: class names and the non-empty fields (ast.dump differs between Pythons)"""
    if isinstance(n, ast.AST):
        parts = []
        for f in n._fields:
            v = getattr(n, f, None)
            if f in ("ctx", "type_comment", "kind") or v is None or v == []:
                continue
            parts.append("%s=%s" % (f, ndump(v)))
        return "%s(%s)" % (type(n).__name__, ",".join(parts))
    if isinstance(n, list):
        return "[" + ",".join(ndump(x) for x in n) + "]"
    return repr(n)


def norm_hash(node):
    return hashlib.sha256(ndump(node).encode()).hexdigest()[:16]


def pin_check(mod):
    """the hand-modelled remainder of _rrulestr: abort when its AST differs from the pinned one"""
    cls = find_class(mod, "_rrulestr")
    funcs = {f.name: f for f in cls.body if isinstance(f, ast.FunctionDef)}
    notes = []
    for name, pin in PINS.items():
        if name not in funcs:
            fail("hand-modelled method %s not found" % name)
        h = norm_hash(funcs[name])
        if os.environ.get("GEN_RSTR_SHOW_PINS"):
            print("PIN %s %s" % (name, h))
        elif h != pin:
            fail("the hand-modelled part '%s' changed (AST hash %s, pinned %s): the model coq/rstr/RstrModel.v "
                 "(parse_rfc / do_line / assemble / pdv_*) must be re-validated against it" % (name, h, pin))
        notes.append("%s=%s" % (name, h))
    return notes


def main():
    src = open(SRC).read()
    try:
        txt = translate(src)
    except TranslateError as ex:
        print("TRANSLATE-ERROR (gen_rstr): %s" % ex)
        return 1
    except Exception as ex:  # any crash of the translator is an abort as well
        print("TRANSLATE-ERROR (gen_rstr): internal %s: %s" % (type(ex).__name__, ex))
        return 1
    old = open(OUT).read() if os.path.exists(OUT) else None
    if old != txt:
        os.makedirs(os.path.dirname(OUT), exist_ok=True)
        open(OUT, "w").write(txt)
    return 0


if __name__ == "__main__":
    sys.exit(main())
