#!/usr/bin/env python3
"""Fail-closed translator:  /repo/src/dateutil/rrule.py  rrule.__init__, rrule.__construct_byset, rrule.replace
                           ->  coq/gen/RRInitGen.v

The constructor is executed SYMBOLICALLY, statement by statement, over an abstract store (arguments,
self._xxx attributes, the self._original_rule dictionary); every top-level statement becomes one Gallina
definition gen_blk_<n>_<target> (lambda-lifted over the values it reads) in the `res` monad of rr/RRBase.v
(`raise ValueError` = Err EValue), and gen_init chains them.  coq/rcache/RRInitGenThm.v proves
  gen_init a = (do ru <- RRNorm.normalize (erase a); Ok (ru, RReplace.record (erase a)))   for ALL a.

ACCEPTED SUBSET (anything else: TranslateError, exit 2, coq/gen/RRInitGen.v is poisoned)
 exact-text statements (any change aborts): super().__init__(cache); global easter; the three-way dtstart
   normalisation; the until promotion; the tz-awareness check (raise ValueError); the count/until
   deprecation warning; the three-way wkst resolution; `if not easter: from dateutil import easter`;
   the triple loop building self._timeset from datetime.time(hour, minute, second, tzinfo=self._tzinfo).
 compiled statements: `x = e`, `self._attr = e`, `self._original_rule[<key>] = e`, `if/elif/else`,
   `raise ValueError(..)`, `for v in <list>: if c: raise ValueError` (-> existsb),
   `for v in <list>: [if c: continue] [x = e]* if c: S.add(e) [elif c: S.add(e)]* [else: S.add(e)]` (-> fold_right),
   `L.sort()`.
 tests: `x is None` / `is not None` on an argument (three-way match INone / IOne / IMany, after which
   `isinstance(x, integer_types)` and `hasattr(x, "n")` are decided), on an attribute whose value is known
   on the current path; `isinstance(wday, integer_types)` on a byweekday member (match WInt / WObj);
   `'<key>' not in self._original_rule`; truthiness of a list / option list / set; `not`; and / or;
   chained comparisons of integers; `<int> in <set>` / `not in` (memZ); `len(S) == 0`; freq comparisons with
   the FREQ constants.
 expressions: ints, names, self._attr, dtstart.year/.month/.day/.hour/.minute/.second, dtstart.weekday(),
   (e,), tuple(e), set(e), {e}, set(), sorted(e), tuple(sorted(..)), generator `x for x in S if c`,
   [weekday(x) for x in L], [weekday(*x) for x in L], (wday.weekday, wday.n), itertools.chain(a, b),
   gcd(a, b), divmod(a, b)[1], a - b, self.__construct_byset(start=.., byxxx=.., base=..).
 Python sets of integers are carried as lists; sorted(<set>) is sort_set (sorted + de-duplicated).
"""
import ast
import os
import re
import sys


class TranslateError(Exception):
    pass


def fail(msg, node=None):
    where = " (line %d)" % node.lineno if node is not None and hasattr(node, "lineno") else ""
    raise TranslateError(msg + where)


def norm(n):
    return ast.dump(n, annotate_fields=False, include_attributes=False)


def snippet(code):
    return norm(ast.parse(code).body[0])


# ---------------------------------------------------------------- types
Z, B, IARG, WARG, L, SET, OL, LP, SETP, OLP, NONE, WDM, PAIR, ENT, ENTP, OZ, OPQ = (
    "Z", "bool", "iarg", "warg", "list Z", "set Z", "option (list Z)", "list (Z * Z)", "set (Z * Z)",
    "option (list (Z * Z))", "none", "wdm", "Z * Z", "ent Z", "ent (Z * Z)", "option Z", "opaque")
COQ_TY = {Z: "Z", B: "bool", IARG: "iarg", WARG: "warg", L: "list Z", SET: "list Z", OL: "option (list Z)",
          LP: "list (Z * Z)", SETP: "list (Z * Z)", OLP: "option (list (Z * Z))", ENT: "ent Z", ENTP: "ent (Z * Z)",
          OZ: "option Z", WDM: "wdm", PAIR: "Z * Z"}

BYPARTS = ["bysetpos", "bymonth", "bymonthday", "byyearday", "byeaster", "byweekno", "byweekday", "byhour",
           "byminute", "bysecond"]
ATTR_TY = {"_bysetpos": OL, "_bymonth": OL, "_byyearday": OL, "_byeaster": OL, "_bymonthday": L, "_bynmonthday": L,
           "_byweekno": OL, "_byweekday": OL, "_bynweekday": OLP, "_byhour": OL, "_byminute": OL, "_bysecond": OL,
           "_timeset": OL}
FREQS = {"YEARLY": 0, "MONTHLY": 1, "WEEKLY": 2, "DAILY": 3, "HOURLY": 4, "MINUTELY": 5, "SECONDLY": 6}


class Val(object):
    """coq text, type, and what is known statically: know = None | 'none' | ('one', text) | ('many', text)"""

    def __init__(self, text, ty, know=None):
        self.text, self.ty, self.know = text, ty, know


class Env(object):
    def __init__(self):
        self.vars, self.attrs, self.odict = {}, {}, {}

    def copy(self):
        e = Env()
        e.vars, e.attrs, e.odict = dict(self.vars), dict(self.attrs), dict(self.odict)
        return e


class Tr(object):
    def __init__(self):
        self.defs = []
        self.counter = 0
        self.blocknames = set()
        self.live = {}          # coq variable name -> coq type

    def fresh(self, base, ty, kind="var"):
        stem = {"var": "v_", "attr": "s_", "key": "o_"}[kind] + base.strip("_")
        name, k = stem, 1
        while name in self.live:
            k += 1
            name = "%s%d" % (stem, k)
        self.live[name] = COQ_TY[ty]
        return name

    # ------------------------------------------------------------ expressions
    def expr(self, n, env):
        if isinstance(n, ast.Constant):
            if n.value is None:
                return Val("None", NONE)
            if isinstance(n.value, bool):
                return Val("true" if n.value else "false", B)
            if isinstance(n.value, int):
                return Val("(%d)" % n.value, Z)
            fail("constant", n)
        if isinstance(n, ast.UnaryOp) and isinstance(n.op, ast.USub) and isinstance(n.operand, ast.Constant) and \
                isinstance(n.operand.value, int):
            return Val("(-%d)" % n.operand.value, Z)
        if isinstance(n, ast.Name):
            if n.id in FREQS:
                return Val(n.id, Z)
            if n.id in env.vars:
                return env.vars[n.id]
            fail("unbound name %r" % n.id, n)
        if isinstance(n, ast.Attribute) and isinstance(n.value, ast.Name):
            if n.value.id == "self":
                if n.attr in env.attrs:
                    return env.attrs[n.attr]
                fail("attribute self.%s read before it is assigned" % n.attr, n)
            if n.value.id == "dtstart" and n.attr in ("year", "month", "day", "hour", "minute", "second"):
                return env.vars["%dt." + n.attr]
            v = env.vars.get(n.value.id)
            if v is not None and v.ty == WDM and n.attr in ("weekday", "n"):
                if v.know is None or v.know[0] != "obj":
                    fail(".%s of a byweekday member not known to be a weekday object" % n.attr, n)
                return Val(v.know[1] if n.attr == "weekday" else v.know[2], Z)
            fail("unsupported attribute %s.%s" % (n.value.id, n.attr), n)
        if isinstance(n, ast.BinOp) and isinstance(n.op, ast.Sub):
            a, b = self.expr(n.left, env), self.expr(n.right, env)
            if a.ty != Z or b.ty != Z:
                fail("- on non-integers", n)
            return Val("(%s - %s)" % (a.text, b.text), Z)
        if isinstance(n, ast.Tuple):
            if len(n.elts) == 0:
                return Val("[]", L)
            vs = [self.expr(e, env) for e in n.elts]
            if len(vs) == 1 and vs[0].ty in (IARG, WARG):
                # (x,) of an argument known to be a bare value
                v = vs[0]
                if v.know is None or v.know[0] != "one":
                    fail("(x,) of an argument not known to be a bare value", n)
                return Val("[%s]" % v.know[1], L if v.ty == IARG else "list wdm")
            if len(vs) == 1 and vs[0].ty == Z:
                return Val("[%s]" % vs[0].text, L)
            if len(vs) == 2 and vs[0].ty == Z and vs[1].ty == Z:
                return Val("(%s, %s)" % (vs[0].text, vs[1].text), PAIR)
            fail("unsupported tuple", n)
        if isinstance(n, ast.Set):
            if len(n.elts) != 1:
                fail("set literal with more than one element (iteration order is not modelled)", n)
            v = self.expr(n.elts[0], env)
            if v.ty != Z:
                fail("set literal of a non-integer", n)
            return Val("[%s]" % v.text, SET)
        if isinstance(n, ast.Subscript) and isinstance(n.value, ast.Call) and isinstance(n.value.func, ast.Name) and \
                n.value.func.id == "divmod" and isinstance(n.slice, ast.Constant) and n.slice.value == 1:
            a, b = [self.expr(x, env) for x in n.value.args]
            if a.ty != Z or b.ty != Z:
                fail("divmod of non-integers", n)
            return Val("(%s mod %s)" % (a.text, b.text), Z)
        if isinstance(n, ast.ListComp) and len(n.generators) == 1 and not n.generators[0].ifs and \
                isinstance(n.generators[0].target, ast.Name) and isinstance(n.elt, ast.Call) and \
                isinstance(n.elt.func, ast.Name) and n.elt.func.id == "weekday" and len(n.elt.args) == 1:
            src = self.expr(n.generators[0].iter, env)
            var = n.generators[0].target.id
            arg = n.elt.args[0]
            if isinstance(arg, ast.Starred) and isinstance(arg.value, ast.Name) and arg.value.id == var:
                if src.ty != LP:
                    fail("weekday(*x) over something that is not a list of pairs", n)
                return Val(src.text, LP)
            if isinstance(arg, ast.Name) and arg.id == var:
                if src.ty != L:
                    fail("weekday(x) over something that is not a list of integers", n)
                return Val("(map wd_plain %s)" % src.text, LP)
            fail("unsupported list comprehension", n)
        if isinstance(n, ast.Call):
            return self.call(n, env)
        if isinstance(n, (ast.Compare, ast.BoolOp)) or (isinstance(n, ast.UnaryOp) and isinstance(n.op, ast.Not)):
            return Val(self.cond(n, env), B)
        fail("unsupported expression " + norm(n)[:120], n)

    def call(self, n, env):
        f = n.func
        if isinstance(f, ast.Name) and f.id == "gcd" and len(n.args) == 2:
            a, b = self.expr(n.args[0], env), self.expr(n.args[1], env)
            return Val("(Z.gcd %s %s)" % (a.text, b.text), Z)
        if isinstance(f, ast.Attribute) and isinstance(f.value, ast.Name) and f.value.id == "dtstart" and \
                f.attr == "weekday" and not n.args:
            return Val("(Cal.weekday %s %s %s)" % tuple(env.vars["%dt." + k].text for k in ("year", "month", "day")), Z)
        if isinstance(f, ast.Name) and f.id == "set" and not n.args:
            return Val("[]", SET)
        if isinstance(f, ast.Name) and f.id in ("tuple", "set", "sorted") and len(n.args) == 1 and not n.keywords:
            a = n.args[0]
            if isinstance(a, ast.GeneratorExp):
                if f.id != "sorted":
                    fail("generator expression only inside sorted()", n)
                g = a.generators[0]
                if len(a.generators) != 1 or len(g.ifs) != 1 or not isinstance(g.target, ast.Name) or \
                        not (isinstance(a.elt, ast.Name) and a.elt.id == g.target.id):
                    fail("generator must be `x for x in S if c`", a)
                src = self.expr(g.iter, env)
                if src.ty not in (SET, L):
                    fail("generator over a non-collection", a)
                e2 = env.copy()
                e2.vars[g.target.id] = Val("g_" + g.target.id, Z)
                c = self.cond(g.ifs[0], e2)
                flt = "(filter (fun g_%s => %s) %s)" % (g.target.id, c, src.text)
                return Val("(sort_set %s)" % flt if src.ty == SET else "(sortZ %s)" % flt, L)
            v = self.expr(a, env)
            if v.ty in (IARG, WARG):
                if v.know is None or v.know[0] != "many":
                    fail("%s() of an argument not known to be a sequence" % f.id, n)
                v = Val(v.know[1], L if v.ty == IARG else "list wdm")
            if f.id == "tuple":
                if v.ty in (L, LP):
                    return v
                if v.ty in (SET, SETP):
                    fail("tuple() of an unsorted set", n)
                fail("tuple() of %s" % v.ty, n)
            if f.id == "set":
                if v.ty in (L, SET):
                    return Val(v.text, SET)
                if v.ty in (LP, SETP):
                    return Val(v.text, SETP)
                fail("set() of %s" % v.ty, n)
            if f.id == "sorted":
                if v.ty == SET:
                    return Val("(sort_set %s)" % v.text, L)
                if v.ty == L:
                    return Val("(sortZ %s)" % v.text, L)
                if v.ty == SETP:
                    return Val("(sort_set_pair %s)" % v.text, LP)
                fail("sorted() of %s" % v.ty, n)
        if isinstance(f, ast.Attribute) and f.attr == "chain" and isinstance(f.value, ast.Name) and \
                f.value.id == "itertools" and len(n.args) == 2:
            a, b = self.expr(n.args[0], env), self.expr(n.args[1], env)
            if a.ty == b.ty and a.ty in (L, LP):
                return Val("(%s ++ %s)" % (a.text, b.text), a.ty)
            if a.ty == LP and b.ty == L and b.text == "[]":
                return Val("(%s ++ [])" % a.text, LP)
            if a.ty == L and a.text == "[]" and b.ty == LP:
                return Val("([] ++ %s)" % b.text, LP)
            if a.ty == L and a.text == "[]" and b.ty == L:
                return Val("([] ++ %s)" % b.text, L)
            fail("itertools.chain of %s and %s" % (a.ty, b.ty), n)
        fail("unsupported call " + norm(n)[:120], n)

    def cond(self, n, env):
        """-> coq bool text; static facts are folded to true / false"""
        if isinstance(n, ast.UnaryOp) and isinstance(n.op, ast.Not):
            c = self.cond(n.operand, env)
            return {"true": "false", "false": "true"}.get(c, "(negb %s)" % c)
        if isinstance(n, ast.BoolOp):
            parts = [self.cond(v, env) for v in n.values]
            op = "&&" if isinstance(n.op, ast.And) else "||"
            return "(" + (" %s " % op).join(parts) + ")"
        if isinstance(n, ast.Compare):
            if len(n.ops) == 1 and isinstance(n.ops[0], (ast.Is, ast.IsNot)) and \
                    isinstance(n.comparators[0], ast.Constant) and n.comparators[0].value is None:
                v = self.expr(n.left, env)
                neg = isinstance(n.ops[0], ast.IsNot)
                if v.ty == NONE:
                    t = "true"
                elif v.ty in (IARG, WARG):
                    if v.know is not None:
                        t = "true" if v.know == "none" else "false"
                    else:
                        t = "(%s %s)" % ("is_inone" if v.ty == IARG else "is_wnone", v.text)
                elif v.ty in (OL, OLP, OZ):
                    t = "(is_none %s)" % v.text
                elif v.ty in (L, SET, LP, SETP, Z):
                    t = "false"
                else:
                    fail("`is None` on %s" % v.ty, n)
                if neg:
                    return {"true": "false", "false": "true"}.get(t, "(negb %s)" % t)
                return t
            if len(n.ops) == 1 and isinstance(n.ops[0], ast.NotIn) and isinstance(n.left, ast.Constant) and \
                    isinstance(n.left.value, str) and norm(n.comparators[0]) == norm(ast.parse("self._original_rule").body[0].value):
                key = n.left.value
                if key not in env.odict:
                    fail("unknown _original_rule key %r" % key, n)
                return "(match %s with Absent => true | _ => false end)" % env.odict[key].text
            # `<int> in <set / list of ints>` (membership)
            if len(n.ops) == 1 and isinstance(n.ops[0], (ast.In, ast.NotIn)):
                a = self.expr(n.left, env)
                b = self.expr(n.comparators[0], env)
                if a.ty != Z or b.ty not in (L, SET):
                    fail("membership test of %s in %s" % (a.ty, b.ty), n)
                t = "(memZ %s %s)" % (a.text, b.text)
                return t if isinstance(n.ops[0], ast.In) else "(negb %s)" % t
            # integer comparisons, possibly chained
            items = [n.left] + n.comparators
            vals = []
            for it in items:
                if isinstance(it, ast.Call) and isinstance(it.func, ast.Name) and it.func.id == "len" and len(it.args) == 1:
                    v = self.expr(it.args[0], env)
                    if v.ty not in (L, SET, LP, SETP):
                        fail("len() of %s" % v.ty, it)
                    vals.append(Val("(zlen %s)" % v.text, Z))
                else:
                    v = self.expr(it, env)
                    if v.ty in (IARG,) and v.know is not None and v.know[0] == "one":
                        v = Val(v.know[1], Z)
                    vals.append(v)
            if any(v.ty != Z for v in vals):
                fail("comparison of non-integers: %s" % [v.ty for v in vals], n)
            parts = []
            for a, op, b in zip(vals, n.ops, vals[1:]):
                if isinstance(op, ast.Eq):
                    parts.append("(%s =? %s)" % (a.text, b.text))
                elif isinstance(op, ast.NotEq):
                    parts.append("(negb (%s =? %s))" % (a.text, b.text))
                elif isinstance(op, ast.Lt):
                    parts.append("(%s <? %s)" % (a.text, b.text))
                elif isinstance(op, ast.LtE):
                    parts.append("(%s <=? %s)" % (a.text, b.text))
                elif isinstance(op, ast.Gt):
                    parts.append("(%s <? %s)" % (b.text, a.text))
                elif isinstance(op, ast.GtE):
                    parts.append("(%s <=? %s)" % (b.text, a.text))
                else:
                    fail("comparison operator", n)
            return parts[0] if len(parts) == 1 else "(" + " && ".join(parts) + ")"
        if isinstance(n, ast.Call) and isinstance(n.func, ast.Name) and n.func.id in ("isinstance", "hasattr"):
            v = self.expr(n.args[0], env)
            if n.func.id == "isinstance":
                if not (isinstance(n.args[1], ast.Name) and n.args[1].id == "integer_types"):
                    fail("isinstance only against integer_types", n)
                if v.ty == Z:
                    return "true"
                if v.ty in (IARG, WARG) and v.know is not None:
                    if v.know == "none":
                        return "false"
                    if v.ty == IARG:
                        return "true" if v.know[0] == "one" else "false"
                    if v.know[0] == "many":
                        return "false"
                    return v.know[2] + ".isint"          # placeholder resolved by the caller
                if v.ty == WDM and v.know is not None:
                    return "true" if v.know[0] == "int" else "false"
                if v.ty in (L, SET, LP):
                    return "false"
                fail("isinstance() of a value whose shape is not known on this path", n)
            # hasattr(x, "n")
            if not (isinstance(n.args[1], ast.Constant) and n.args[1].value == "n"):
                fail("hasattr only for 'n'", n)
            if v.ty == WARG and v.know is not None and v.know != "none":
                if v.know[0] == "many":
                    return "false"
                return v.know[2] + ".isobj"
            fail("hasattr() of a value whose shape is not known", n)
        # truthiness
        v = self.expr(n, env)
        if v.ty == B:
            return v.text
        if v.ty in (OL, OLP):
            return "(truthy %s)" % v.text
        if v.ty in (L, SET, LP, SETP):
            return "(nonempty %s)" % v.text
        if v.ty == Z:
            return "(negb (%s =? 0))" % v.text
        if v.ty == NONE:
            return "false"
        fail("truthiness of %s" % v.ty, n)

    # ------------------------------------------------------------ statements of one block
    def coerce(self, v, want, node=None):
        if v.ty == want:
            return v.text
        if want in (OL, OLP):
            if v.ty == NONE:
                return "None"
            if (want == OL and v.ty in (L, SET)) or (want == OLP and v.ty in (LP, SETP)):
                return "(Some %s)" % v.text
        if want == L and v.ty == SET:
            fail("a set where a sorted tuple is expected", node)
        if want == IARG:
            if v.ty == Z:
                return "(IOne %s)" % v.text
            if v.ty == IARG:
                return v.text
        if want == WARG and v.ty == Z:
            return "(WOne (WInt %s))" % v.text
        if want in (ENT, ENTP):
            if v.ty == NONE:
                return "RNone"
            if (want == ENT and v.ty == L) or (want == ENTP and v.ty == LP):
                return "(RVal %s)" % v.text
            if want == ENT and v.ty == OL:
                return "(RVal (opt_list %s))" % v.text
        fail("cannot store a %s where a %s is expected" % (v.ty, want), node)

    def targets_of(self, stmts):
        """ordered list of ('var', name) / ('attr', name) / ('key', name) assigned anywhere in stmts"""
        out = []

        def add(t):
            if t not in out:
                out.append(t)
        for st in stmts:
            for n in ast.walk(st):
                tgts = []
                if isinstance(n, ast.Assign):
                    tgts = n.targets
                for t in tgts:
                    if isinstance(t, ast.Name):
                        add(("var", t.id))
                    elif isinstance(t, ast.Attribute) and isinstance(t.value, ast.Name) and t.value.id == "self":
                        add(("attr", t.attr))
                    elif isinstance(t, ast.Subscript) and norm(t.value) == norm(ast.parse("self._original_rule").body[0].value) and \
                            isinstance(t.slice, ast.Constant):
                        add(("key", t.slice.value))
                    else:
                        fail("assignment target", n)
        return out

    def split_arg(self, v, name, env, body_fn):
        """three-way match on an argument value whose shape is not known yet"""
        if v.ty == IARG:
            e0, e1, e2 = env.copy(), env.copy(), env.copy()
            e0.vars[name] = Val(v.text, IARG, "none")
            e1.vars[name] = Val("(IOne k_%s)" % name, IARG, ("one", "k_" + name))
            e2.vars[name] = Val("(IMany l_%s)" % name, IARG, ("many", "l_" + name))
            return ("match %s with\n| INone =>\n%s\n| IOne k_%s =>\n%s\n| IMany l_%s =>\n%s\nend"
                    % (v.text, body_fn(e0), name, body_fn(e1), name, body_fn(e2)))
        e0, e1, e2, e3 = env.copy(), env.copy(), env.copy(), env.copy()
        e0.vars[name] = Val(v.text, WARG, "none")
        e1.vars[name] = Val("(WOne (WInt w_%s))" % name, WARG, ("one", "(WInt w_%s)" % name, "INT"))
        e2.vars[name] = Val("(WOne (WObj w_%s n_%s))" % (name, name), WARG, ("one", "(WObj w_%s n_%s)" % (name, name), "OBJ"))
        e3.vars[name] = Val("(WMany l_%s)" % name, WARG, ("many", "l_" + name))
        return ("match %s with\n| WNone =>\n%s\n| WOne (WInt w_%s) =>\n%s\n| WOne (WObj w_%s n_%s) =>\n%s\n| WMany l_%s =>\n%s\nend"
                % (v.text, body_fn(e0), name, body_fn(e1), name, name, body_fn(e2), name, body_fn(e3)))

    def static_cond(self, test, env):
        c = self.cond(test, env)
        c = c.replace("INT.isint", "true").replace("OBJ.isint", "false").replace("INT.isobj", "false").replace("OBJ.isobj", "true")
        # fold constants
        for _ in range(6):
            c = c.replace("(true || false)", "true").replace("(false || true)", "true").replace("(true || true)", "true")
            c = c.replace("(false || false)", "false").replace("(negb true)", "false").replace("(negb false)", "true")
        return c

    def block(self, ss, env, fin):
        """statements -> coq text of type res (...); fin(env) builds the final Ok (...)"""
        if not ss:
            return fin(env)
        s, rest = ss[0], ss[1:]
        if isinstance(s, ast.Raise):
            ok = isinstance(s.exc, ast.Call) and isinstance(s.exc.func, ast.Name) and s.exc.func.id == "ValueError"
            if not ok:
                fail("raise of something else than ValueError", s)
            return "Err EValue"
        if isinstance(s, ast.If):
            if norm(s) == snippet("if not easter:\n    from dateutil import easter"):
                return self.block(rest, env, fin)
            return self.if_stmt(s, rest, env, fin)
        if isinstance(s, ast.Assign):
            return self.assign(s, rest, env, fin)
        if isinstance(s, ast.For):
            return self.for_stmt(s, rest, env, fin)
        if isinstance(s, ast.Expr) and isinstance(s.value, ast.Call) and isinstance(s.value.func, ast.Attribute) and \
                s.value.func.attr == "sort" and not s.value.args:
            tgt = s.value.func.value
            v = self.expr(tgt, env)
            if v.ty != L:
                fail(".sort() of %s" % v.ty, s)
            e2 = env.copy()
            nv = Val("(sortZ %s)" % v.text, L)
            if isinstance(tgt, ast.Attribute):
                e2.attrs[tgt.attr] = nv
            else:
                e2.vars[tgt.id] = nv
            return self.block(rest, e2, fin)
        fail("unsupported statement " + type(s).__name__, s)

    def if_stmt(self, s, rest, env, fin):
        test = s.test
        # a test on the shape of an argument not yet split: split first
        for n in ast.walk(test):
            if isinstance(n, ast.Name) and n.id in env.vars and env.vars[n.id].ty in (IARG, WARG) and \
                    env.vars[n.id].know is None and self.shape_test(test, n.id):
                v = env.vars[n.id]
                return self.split_arg(v, n.id, env, lambda e: self.block([s] + rest, e, fin))
        c = self.static_cond(test, env)
        if c == "true":
            return self.block(s.body + rest, env, fin)
        if c == "false":
            return self.block(s.orelse + rest, env, fin)
        return "if %s then\n%s\nelse\n%s" % (c, self.block(s.body + rest, env, fin), self.block(s.orelse + rest, env, fin))

    @staticmethod
    def shape_test(test, name):
        """does the test look at whether `name` is None / an int / has .n (single conjunct or the whole test)?"""
        for n in ast.walk(test):
            if isinstance(n, ast.Compare) and isinstance(n.left, ast.Name) and n.left.id == name and \
                    len(n.ops) == 1 and isinstance(n.ops[0], (ast.Is, ast.IsNot)):
                # `x is None` inside a conjunction of several arguments (the defaults test) stays symbolic
                return isinstance(test, ast.Compare)
            if isinstance(n, ast.Call) and isinstance(n.func, ast.Name) and n.func.id in ("isinstance", "hasattr") and \
                    isinstance(n.args[0], ast.Name) and n.args[0].id == name:
                return True
        return False

    def assign(self, s, rest, env, fin):
        if len(s.targets) != 1:
            fail("multiple assignment targets", s)
        t = s.targets[0]
        # self._x = self.__construct_byset(start=.., byxxx=.., base=..)
        if isinstance(s.value, ast.Call) and isinstance(s.value.func, ast.Attribute) and \
                s.value.func.attr.endswith("__construct_byset"):
            kw = {k.arg: k.value for k in s.value.keywords}
            if s.value.args or sorted(kw) != ["base", "byxxx", "start"]:
                fail("__construct_byset must be called with start=, byxxx=, base=", s)
            st, bx, ba = self.expr(kw["start"], env), self.expr(kw["byxxx"], env), self.expr(kw["base"], env)
            if bx.ty == IARG and bx.know is not None and bx.know != "none" and bx.know[0] == "many":
                bx = Val(bx.know[1], L)
            if bx.ty != L or st.ty != Z or ba.ty != Z:
                fail("__construct_byset arguments", s)
            itv = env.attrs["_interval"].text
            e2 = env.copy()
            self.store(t, Val("c_set", SET), e2, s)
            return "do c_set <- gen_construct_byset %s %s (IMany %s) %s;\n%s" % (itv, st.text, bx.text, ba.text,
                                                                               self.block(rest, e2, fin))
        v = self.expr(s.value, env)
        e2 = env.copy()
        self.store(t, v, e2, s)
        return self.block(rest, e2, fin)

    def store(self, t, v, env, node):
        if isinstance(t, ast.Name):
            old = env.vars.get(t.id)
            if old is not None and old.ty in (IARG, WARG) and v.ty == Z:
                if old.ty == IARG:
                    v = Val("(IOne %s)" % v.text, IARG, ("one", v.text))
                else:
                    v = Val("(WOne (WInt %s))" % v.text, WARG, ("one", "(WInt %s)" % v.text, "INT"))
            elif old is not None and old.ty in (IARG, WARG) and v.ty in (L, "list wdm"):
                v = Val("(%s %s)" % ("IMany" if old.ty == IARG else "WMany", v.text), old.ty, ("many", v.text))
            env.vars[t.id] = v
        elif isinstance(t, ast.Attribute) and isinstance(t.value, ast.Name) and t.value.id == "self":
            env.attrs[t.attr] = v
        elif isinstance(t, ast.Subscript):
            key = t.slice.value
            want = ENTP if key == "byweekday" else ENT
            env.odict[key] = Val(self.coerce(v, want, node), want)
        else:
            fail("assignment target", node)

    def for_stmt(self, s, rest, env, fin):
        if s.orelse or not isinstance(s.target, ast.Name):
            fail("for/else or tuple target", s)
        src = self.expr(s.iter, env)
        if src.ty in (IARG, WARG):
            if src.know == "none":
                return "Err EType"            # for x in None: TypeError
            if src.know is None or src.know[0] != "many":
                fail("loop over an argument not known to be a sequence", s)
            src = Val(src.know[1], L if src.ty == IARG else "list wdm")
        var = s.target.id
        body = s.body
        # for v in L: if c: raise ValueError
        if len(body) == 1 and isinstance(body[0], ast.If) and not body[0].orelse and len(body[0].body) == 1 and \
                isinstance(body[0].body[0], ast.Raise):
            if src.ty != L:
                fail("checking loop over %s" % src.ty, s)
            e2 = env.copy()
            e2.vars[var] = Val("e_" + var, Z)
            c = self.cond(body[0].test, e2)
            return "if existsb (fun e_%s => %s) %s then Err EValue else\n%s" % (var, c, src.text, self.block(rest, env, fin))
        # accumulation loop: [x = e]* ; if c: S.add(e) elif ...: S'.add(e') else: S''.add(e'')
        lets, k = [], 0
        e2 = env.copy()
        if src.ty == L:
            e2.vars[var] = Val("e_" + var, Z)
        elif src.ty == "list wdm":
            e2.vars[var] = Val("e_" + var, WDM)
        else:
            fail("loop over %s" % src.ty, s)
        # optional first statement `if c: continue` (the element is skipped)
        skip = None
        if body and isinstance(body[0], ast.If) and not body[0].orelse and len(body[0].body) == 1 and \
                isinstance(body[0].body[0], ast.Continue):
            skip = self.cond(body[0].test, e2)
            k = 1
        while k < len(body) and isinstance(body[k], ast.Assign):
            a = body[k]
            if len(a.targets) != 1 or not isinstance(a.targets[0], ast.Name):
                fail("loop-local assignment", a)
            v = self.expr(a.value, e2)
            lets.append("let t_%s := %s in " % (a.targets[0].id, v.text))
            e2.vars[a.targets[0].id] = Val("t_" + a.targets[0].id, v.ty)
            k += 1
        if k != len(body) - 1 or not isinstance(body[k], ast.If):
            fail("loop body must be optional assignments and one if", s)
        accs = []

        def arms(ifs, e):
            """-> text of type (acc tuple) given current accumulators in e"""
            test = ifs.test
            v = e.vars[var]
            if v.ty == WDM and v.know is None and any(
                    isinstance(n, ast.Call) and isinstance(n.func, ast.Name) and n.func.id == "isinstance" and
                    isinstance(n.args[0], ast.Name) and n.args[0].id == var for n in ast.walk(test)):
                ea, eb = e.copy(), e.copy()
                ea.vars[var] = Val("(WInt w_e)", WDM, ("int", "w_e"))
                eb.vars[var] = Val("(WObj w_e n_e)", WDM, ("obj", "w_e", "n_e"))
                return "match e_%s with WInt w_e => %s | WObj w_e n_e => %s end" % (var, arms(ifs, ea), arms(ifs, eb))
            c = self.static_cond(test, e)

            def arm(stmts):
                if len(stmts) == 1 and isinstance(stmts[0], ast.If):
                    return arms(stmts[0], e)
                if not stmts:
                    return tuple_accs(e, None, None)
                if len(stmts) != 1:
                    fail("loop arm must be one S.add(e)", ifs)
                st = stmts[0]
                if not (isinstance(st, ast.Expr) and isinstance(st.value, ast.Call) and isinstance(st.value.func, ast.Attribute) and
                        st.value.func.attr == "add" and len(st.value.args) == 1):
                    fail("loop arm must be S.add(e)", st)
                tgt = st.value.func.value
                key = ("attr", tgt.attr) if isinstance(tgt, ast.Attribute) else ("var", tgt.id)
                if key not in accs:
                    fail("add() on something that is not an accumulator of this loop", st)
                vv = self.expr(st.value.args[0], e)
                if vv.ty == WDM and vv.know is not None and vv.know[0] == "int":
                    vv = Val(vv.know[1], Z)
                return tuple_accs(e, key, vv)
            if c == "true":
                return arm(ifs.body)
            if c == "false":
                return arm(ifs.orelse)
            return "(if %s then %s else %s)" % (c, arm(ifs.body), arm(ifs.orelse))

        def tuple_accs(e, key, vv):
            parts = []
            for j, a in enumerate(accs):
                cur = "(%s acc)" % ("fst" if j == 0 else "snd") if len(accs) == 2 else "acc"
                if a == key:
                    parts.append("%s :: %s" % (vv.text, cur))
                else:
                    parts.append(cur)
            return "(" + ", ".join(parts) + ")" if len(parts) > 1 else parts[0]
        # accumulators: every S.add target in the body
        for n in ast.walk(body[k]):
            if isinstance(n, ast.Call) and isinstance(n.func, ast.Attribute) and n.func.attr == "add":
                tgt = n.func.value
                key = ("attr", tgt.attr) if isinstance(tgt, ast.Attribute) else ("var", tgt.id)
                if key not in accs:
                    accs.append(key)
        if not 1 <= len(accs) <= 2:
            fail("loop must add to one or two sets", s)
        inits = []
        for a in accs:
            cur = env.attrs.get(a[1]) if a[0] == "attr" else env.vars.get(a[1])
            if cur is None or cur.ty not in (SET, SETP) or cur.text != "[]":
                fail("accumulator must be a fresh set()", s)
            inits.append("[]")
        step = "%s%s" % ("".join(lets), arms(body[k], e2))
        if skip is not None:
            step = "if %s then acc else %s" % (skip, step)
        fn = "(fun e_%s acc => %s)" % (var, step)
        init = "(" + ", ".join(inits) + ")" if len(inits) > 1 else inits[0]
        folded = "(fold_right %s %s %s)" % (fn, init, src.text)
        e3 = env.copy()
        # element types of the accumulators are found from the add() argument types
        elt_ty = {}
        for n in ast.walk(body[k]):
            if isinstance(n, ast.Call) and isinstance(n.func, ast.Attribute) and n.func.attr == "add":
                tgt = n.func.value
                key = ("attr", tgt.attr) if isinstance(tgt, ast.Attribute) else ("var", tgt.id)
                elt_ty[key] = SETP if isinstance(n.args[0], ast.Tuple) else SET
        self.counter += 1
        fname = "f_%d" % self.counter
        for j, a in enumerate(accs):
            txt = fname if len(accs) == 1 else "(%s %s)" % ("fst" if j == 0 else "snd", fname)
            v = Val(txt, elt_ty[a])
            if a[0] == "attr":
                e3.attrs[a[1]] = v
            else:
                e3.vars[a[1]] = v
        return "let %s := %s in\n%s" % (fname, folded, self.block(rest, e3, fin))

    # ------------------------------------------------------------ top-level statement -> Definition
    def emit_block(self, stmts, env, label, later=None):
        tg = self.targets_of(stmts)
        names = []
        for kind, nme in tg:
            if kind == "var" and later is not None and nme not in later:
                continue                # a local that no later statement reads
            if kind == "var":
                ty = env.vars[nme].ty if nme in env.vars else None
                if nme in BYPARTS:
                    ty = WARG if nme == "byweekday" else IARG
                if ty is None or ty not in COQ_TY:
                    continue            # block-local helper variable
            elif kind == "attr":
                if nme not in ATTR_TY:
                    fail("assignment to an attribute outside the model: self.%s" % nme)
                ty = ATTR_TY[nme]
            else:
                ty = ENTP if nme == "byweekday" else ENT
            names.append((kind, nme, ty))

        def fin(e):
            parts = []
            for kind, nme, ty in names:
                if kind == "var":
                    v = e.vars[nme]
                elif kind == "attr":
                    if nme not in e.attrs:
                        fail("self.%s is not assigned on every path of block %s" % (nme, label))
                    v = e.attrs[nme]
                else:
                    v = e.odict[nme]
                parts.append(self.coerce(v, ty))
            return "Ok (" + ", ".join(parts) + ")" if len(parts) > 1 else "Ok " + parts[0]
        self.counter = 0
        body = self.block(stmts, env, fin)
        dname, k = "gen_blk_%s" % label, 1
        while dname in self.blocknames:
            k += 1
            dname = "gen_blk_%s%d" % (label, k)
        self.blocknames.add(dname)
        free = [nme for nme in self.live if re.search(r"\b%s\b" % re.escape(nme), body)]
        binders = " (a : args)" + "".join(" (%s : %s)" % (nme, self.live[nme]) for nme in free)
        rty = " * ".join(COQ_TY[ty] for _, _, ty in names)
        self.defs.append("Definition %s%s : res (%s) :=\n%s.\n" % (dname, binders, rty, indent(body)))
        call = "%s a%s" % (dname, "".join(" " + nme for nme in free))
        # bind the results to fresh live variables
        e2 = env.copy()
        pats = []
        for kind, nme, ty in names:
            x = self.fresh(nme, ty, kind)
            pats.append(x)
            v = Val(x, ty)
            if kind == "var":
                e2.vars[nme] = v
            elif kind == "attr":
                e2.attrs[nme] = v
            else:
                e2.odict[nme] = v
        pat = "(" + ", ".join(pats) + ")" if len(pats) > 1 else pats[0]
        return "do %s <- %s;" % (pat, call), e2


def indent(txt, n=2):
    out, depth = [], 0
    for line in txt.split("\n"):
        out.append(" " * n + line)
    return "\n".join(out)


# ---------------------------------------------------------------- __construct_byset

def translate_construct_byset(fn, tr):
    want_sig = ["self", "start", "byxxx", "base"]
    if [a.arg for a in fn.args.args] != want_sig or fn.args.defaults:
        fail("signature of __construct_byset", fn)
    body = [s for s in fn.body if not (isinstance(s, ast.Expr) and isinstance(s.value, ast.Constant))]
    env = Env()
    env.vars["start"] = Val("start", Z)
    env.vars["base"] = Val("base", Z)
    env.vars["byxxx"] = Val("byxxx", IARG)
    env.attrs["_interval"] = Val("itv", Z)
    if not (isinstance(body[-1], ast.Return) and isinstance(body[-1].value, ast.Name)):
        fail("__construct_byset must end with `return <set>`", fn)
    ret = body[-1].value.id

    def fin(e):
        v = e.vars[ret]
        if v.ty != SET:
            fail("__construct_byset returns %s" % v.ty, fn)
        return "Ok %s" % v.text
    txt = tr.block(body[:-1], env, fin)
    return ("Definition gen_construct_byset (itv start : Z) (byxxx : iarg) (base : Z) : res (list Z) :=\n%s.\n"
            % indent(txt))


# ---------------------------------------------------------------- __init__

EXACT = {
    "super": "super(rrule, self).__init__(cache)",
    "global": "global easter",
    "dtstart": ("if not dtstart:\n    if until and until.tzinfo:\n        dtstart = datetime.datetime.now(tz=until.tzinfo).replace(microsecond=0)\n"
                "    else:\n        dtstart = datetime.datetime.now().replace(microsecond=0)\n"
                "elif not isinstance(dtstart, datetime.datetime):\n    dtstart = datetime.datetime.fromordinal(dtstart.toordinal())\n"
                "else:\n    dtstart = dtstart.replace(microsecond=0)"),
    "until": "if until and not isinstance(until, datetime.datetime):\n    until = datetime.datetime.fromordinal(until.toordinal())",
    "tzmix": ("if self._dtstart and self._until:\n    if (self._dtstart.tzinfo is not None) != (self._until.tzinfo is not None):\n"
              "        raise ValueError('x')"),
    "warn": "if count is not None and until:\n    warn('x', DeprecationWarning)",
    "wkst": ("if wkst is None:\n    self._wkst = calendar.firstweekday()\nelif isinstance(wkst, integer_types):\n    self._wkst = wkst\n"
             "else:\n    self._wkst = wkst.weekday"),
    "timeset": ("if self._freq >= HOURLY:\n    self._timeset = None\nelse:\n    self._timeset = []\n    for hour in self._byhour:\n"
                "        for minute in self._byminute:\n            for second in self._bysecond:\n"
                "                self._timeset.append(datetime.time(hour, minute, second, tzinfo=self._tzinfo))\n"
                "    self._timeset.sort()\n    self._timeset = tuple(self._timeset)"),
}


def strip_strings(node):
    """replace every string constant by 'x' so that messages do not matter"""
    class T(ast.NodeTransformer):
        def visit_Constant(self, n):
            if isinstance(n.value, str):
                return ast.copy_location(ast.Constant(value="x"), n)
            return n

        def visit_JoinedStr(self, n):
            return ast.copy_location(ast.Constant(value="x"), n)

        def visit_BinOp(self, n):
            self.generic_visit(n)
            if isinstance(n.op, ast.Add) and isinstance(n.left, ast.Constant) and isinstance(n.right, ast.Constant) and \
                    n.left.value == "x" and n.right.value == "x":
                return ast.copy_location(ast.Constant(value="x"), n)
            return n
    return T().visit(ast.parse(ast.unparse(node)).body[0])


def is_exact(st, key):
    return norm(strip_strings(st)) == norm(strip_strings(ast.parse(EXACT[key]).body[0]))


def translate_init(fn, tr):
    a = fn.args
    want = ["self", "freq", "dtstart", "interval", "wkst", "count", "until", "bysetpos", "bymonth", "bymonthday",
            "byyearday", "byeaster", "byweekno", "byweekday", "byhour", "byminute", "bysecond", "cache"]
    defaults = [None, 1, None, None, None, None, None, None, None, None, None, None, None, None, None, False]
    if [x.arg for x in a.args] != want or [getattr(d, "value", "?") for d in a.defaults] != defaults or a.vararg or a.kwarg:
        fail("signature of rrule.__init__", fn)
    body = [s for s in fn.body if not (isinstance(s, ast.Expr) and isinstance(s.value, ast.Constant))]
    env = Env()
    env.vars["freq"] = Val("(a_freq a)", Z)
    env.vars["interval"] = Val("(a_interval a)", Z)
    env.vars["count"] = Val("(a_count a)", OZ)
    env.vars["until"] = Val("(a_until a)", OPQ)
    for p in BYPARTS:
        env.vars[p] = Val("(a_%s a)" % p, WARG if p == "byweekday" else IARG)
    lines = []
    seen = set()
    k = 0
    for st in body:
        k += 1
        done = False
        for key in ("super", "global", "until", "warn"):
            if is_exact(st, key):
                seen.add(key)
                done = True
        if done:
            continue
        if is_exact(st, "dtstart"):
            seen.add("dtstart")
            lines.append("let '(hh, mm, ss) := if a_isdate a then (0, 0, 0) else (a_H a, a_M a, a_S a) in")
            for nme, txt in (("year", "(a_y a)"), ("month", "(a_m a)"), ("day", "(a_d a)"), ("hour", "hh"),
                             ("minute", "mm"), ("second", "ss")):
                env.vars["%dt." + nme] = Val(txt, Z)
            tr.live["hh"] = tr.live["mm"] = tr.live["ss"] = "Z"
            continue
        if is_exact(st, "tzmix"):
            seen.add("tzmix")
            lines.append("if negb (is_none (a_until a)) && a_tzmix a then Err EValue else")
            continue
        if is_exact(st, "wkst"):
            seen.add("wkst")
            lines.append("let v_wkst := match a_wkst a with KNone => a_firstweekday a | KInt w => w | KObj w => w end in")
            tr.live["v_wkst"] = "Z"
            env.attrs["_wkst"] = Val("v_wkst", Z)
            continue
        if is_exact(st, "timeset"):
            seen.add("timeset")
            if "dtstart" not in seen:
                fail("timeset before dtstart")
            h, m, s_ = (env.attrs[x] for x in ("_byhour", "_byminute", "_bysecond"))
            lines.append("do v_timeset <- (if HOURLY <=? a_freq a then Ok None else "
                         "do ts <- time_product (opt_list %s) (opt_list %s) (opt_list %s); Ok (Some (sortZ ts)));"
                         % (h.text, m.text, s_.text))
            env.attrs["_timeset"] = Val("v_timeset", OL)
            continue
        # plain attribute copies
        if isinstance(st, ast.Assign) and len(st.targets) == 1 and isinstance(st.targets[0], ast.Attribute) and \
                isinstance(st.targets[0].value, ast.Name) and st.targets[0].value.id == "self":
            attr = st.targets[0].attr
            if attr == "_original_rule":
                if not (isinstance(st.value, ast.Dict) and not st.value.keys):
                    fail("self._original_rule must start as {}", st)
                for p in BYPARTS:
                    env.odict[p] = Val("Absent", ENTP if p == "byweekday" else ENT)
                continue
            if attr in ("_dtstart", "_tzinfo", "_until"):
                ok = {"_dtstart": "self._dtstart = dtstart", "_tzinfo": "self._tzinfo = dtstart.tzinfo",
                      "_until": "self._until = until"}[attr]
                if norm(st) != snippet(ok):
                    fail("expected `%s`" % ok, st)
                continue
            if attr in ("_freq", "_interval", "_count"):
                if not (isinstance(st.value, ast.Name) and st.value.id == attr[1:]):
                    fail("expected self.%s = %s" % (attr, attr[1:]), st)
                env.attrs[attr] = env.vars[attr[1:]]
                continue
        # compiled blocks
        tg = tr.targets_of([st])
        label = (tg[0][1] if tg else "stmt").strip("_")
        later = set(n.id for s2 in body[k:] for n in ast.walk(s2) if isinstance(n, ast.Name))
        line, env = tr.emit_block([st], env, label, later)
        lines.append(line)
    missing = set(EXACT) - seen
    if missing:
        fail("rrule.__init__: expected statements not found: %s" % sorted(missing))
    need = ["_bysetpos", "_bymonth", "_byyearday", "_byeaster", "_bymonthday", "_bynmonthday", "_byweekno", "_byweekday",
            "_bynweekday", "_byhour", "_byminute", "_bysecond", "_timeset", "_wkst", "_freq", "_interval", "_count"]
    for nme in need:
        if nme not in env.attrs:
            fail("rrule.__init__ never assigns self.%s" % nme)
    g = lambda nme: env.attrs[nme].text
    rule = ("mkRule %s %s %s %s (a_until a) (a_y a) (a_m a) (a_d a) hh mm ss %s %s %s %s %s %s %s %s %s %s %s %s %s"
            % (g("_freq"), g("_interval"), g("_wkst"), g("_count"), g("_bysetpos"), g("_bymonth"), g("_byyearday"),
               g("_byeaster"), g("_bymonthday"), g("_bynmonthday"), g("_byweekno"), g("_byweekday"), g("_bynweekday"),
               g("_byhour"), g("_byminute"), g("_bysecond"), g("_timeset")))
    od = lambda key: env.odict[key].text
    orig = ("mkOrig %s %s %s %s %s %s %s %s %s %s"
            % tuple(od(kk) for kk in ("bysetpos", "bymonth", "bymonthday", "byyearday", "byeaster", "byweekno",
                                      "byweekday", "byhour", "byminute", "bysecond")))
    main = "Definition gen_init (a : args) : res built :=\n" + indent("\n".join(lines) + "\nOk (%s,\n    %s)" % (rule, orig)) + ".\n"
    return main


def translate_mod_distance(fn):
    """__mod_distance: accumulator = 0; for ii in range(1, base + 1): div, value = divmod(value + self._interval, base);
    accumulator += div; if value in byxxx: return (accumulator, value)   [falls off the end: returns None]"""
    if [a.arg for a in fn.args.args] != ["self", "value", "byxxx", "base"] or fn.args.defaults:
        fail("signature of __mod_distance", fn)
    body = [s for s in fn.body if not (isinstance(s, ast.Expr) and isinstance(s.value, ast.Constant))]
    if len(body) != 2 or norm(body[0]) != snippet("accumulator = 0") or not isinstance(body[1], ast.For):
        fail("__mod_distance: expected `accumulator = 0` and one for loop", fn)
    f = body[1]
    if not (isinstance(f.iter, ast.Call) and isinstance(f.iter.func, ast.Name) and f.iter.func.id == "range" and
            len(f.iter.args) == 2 and not f.orelse and len(f.body) == 3):
        fail("__mod_distance: expected `for ii in range(lo, hi):` with three statements", f)

    def ex(n, names):
        if isinstance(n, ast.Constant) and isinstance(n.value, int):
            return "(%d)" % n.value
        if isinstance(n, ast.Name) and n.id in names:
            return names[n.id]
        if norm(n) == norm(ast.parse("self._interval").body[0].value):
            return "itv"
        if isinstance(n, ast.BinOp) and isinstance(n.op, (ast.Add, ast.Sub)):
            return "(%s %s %s)" % (ex(n.left, names), "+" if isinstance(n.op, ast.Add) else "-", ex(n.right, names))
        fail("__mod_distance: unsupported expression", n)
    names = {"base": "base", "value": "value", "accumulator": "accumulator"}
    lo, hi = ex(f.iter.args[0], names), ex(f.iter.args[1], names)
    st1, st2, st3 = f.body
    if not (isinstance(st1, ast.Assign) and len(st1.targets) == 1 and isinstance(st1.targets[0], ast.Tuple) and
            [getattr(t, "id", None) for t in st1.targets[0].elts] == ["div", "value"] and isinstance(st1.value, ast.Call) and
            isinstance(st1.value.func, ast.Name) and st1.value.func.id == "divmod" and len(st1.value.args) == 2):
        fail("__mod_distance: expected `div, value = divmod(e, e)`", st1)
    num, den = ex(st1.value.args[0], names), ex(st1.value.args[1], names)
    names2 = dict(names, div="d_div", value="value'")
    if not (isinstance(st2, ast.AugAssign) and isinstance(st2.op, ast.Add) and isinstance(st2.target, ast.Name) and
            st2.target.id == "accumulator"):
        fail("__mod_distance: expected `accumulator += e`", st2)
    inc = ex(st2.value, names2)
    names3 = dict(names2, accumulator="accumulator'")
    if not (isinstance(st3, ast.If) and not st3.orelse and isinstance(st3.test, ast.Compare) and len(st3.test.ops) == 1 and
            isinstance(st3.test.ops[0], ast.In) and isinstance(st3.test.comparators[0], ast.Name) and
            st3.test.comparators[0].id == "byxxx" and len(st3.body) == 1 and isinstance(st3.body[0], ast.Return) and
            isinstance(st3.body[0].value, ast.Tuple) and len(st3.body[0].value.elts) == 2):
        fail("__mod_distance: expected `if e in byxxx: return (e, e)`", st3)
    member = ex(st3.test.left, names3)
    r1, r2 = [ex(e, names3) for e in st3.body[0].value.elts]
    return ("Fixpoint gen_mod_distance_loop (n : nat) (itv base : Z) (byxxx : list Z) (value accumulator : Z) {struct n}\n"
            "  : option (Z * Z) :=\n  match n with\n  | O => None\n  | S k =>\n"
            "    let d_div := %s / %s in\n    let value' := %s mod %s in\n    let accumulator' := accumulator + %s in\n"
            "    if memZ %s byxxx then Some (%s, %s)\n    else gen_mod_distance_loop k itv base byxxx value' accumulator'\n  end.\n\n"
            "Definition gen_mod_distance (itv value : Z) (byxxx : list Z) (base : Z) : option (Z * Z) :=\n"
            "  gen_mod_distance_loop (Z.to_nat (%s - %s)) itv base byxxx value (0).\n"
            % (num, den, num, den, inc, member, r1, r2, hi, lo))


def translate_replace(fn):
    want = ("def replace(self, **kwargs):\n    new_kwargs = {'interval': self._interval, 'count': self._count, "
            "'dtstart': self._dtstart, 'freq': self._freq, 'until': self._until, 'wkst': self._wkst, "
            "'cache': False if self._cache is None else True}\n    new_kwargs.update(self._original_rule)\n"
            "    new_kwargs.update(kwargs)\n    return rrule(**new_kwargs)\n")
    body = [s for s in fn.body if not (isinstance(s, ast.Expr) and isinstance(s.value, ast.Constant))]
    wbody = ast.parse(want).body[0].body
    if [norm(x) for x in body] != [norm(x) for x in wbody] or norm(fn.args) != norm(ast.parse(want).body[0].args):
        fail("rrule.replace is not `attributes, updated by _original_rule, updated by kwargs, then rrule(**..)`", fn)
    # the order of the two updates and the six scalar attributes are what RReplace.replace_raw encodes
    return ("(* replace(): new_kwargs = {interval, count, dtstart, freq, until, wkst, cache} from the attributes;\n"
            "   .update(self._original_rule); .update(kwargs); rrule(new_kwargs) *)\n"
            "Definition gen_replace_raw (r : raw) (u : upd) : raw := apply_upd (rebuild r) u.\n")


def translate(src):
    tree = ast.parse(src)
    cls = [n for n in tree.body if isinstance(n, ast.ClassDef) and n.name == "rrule"]
    if len(cls) != 1:
        fail("class rrule not found")
    fns = {n.name: n for n in cls[0].body if isinstance(n, ast.FunctionDef)}
    if "__mod_distance" in fns:
        fns["_rrule__mod_distance"] = fns["__mod_distance"]
    for nme in ("__init__", "__construct_byset", "_rrule__mod_distance", "replace"):
        if nme not in fns:
            fail("rrule.%s not found" % nme)
    tr = Tr()
    cb = translate_construct_byset(fns["__construct_byset"], tr)
    main = translate_init(fns["__init__"], tr)
    rep = translate_replace(fns["replace"])
    md = translate_mod_distance(fns["_rrule__mod_distance"])
    out = ["(* GENERATED by harness/gen_rr_init.py from /repo/src/dateutil/rrule.py (class rrule) -- do not edit *)",
           "From Coq Require Import ZArith List Bool.",
           "From V Require Import base.Cal rr.RRBase rr.RRNorm rcache.RReplace rcache.RRInitBase.",
           "Import ListNotations.", "Open Scope Z_scope.", "",
           "(* ---- __construct_byset *)", cb,
           "(* ---- __mod_distance *)", md,
           "(* ---- __init__, one definition per top-level statement *)"] + tr.defs + [main, rep]
    return "\n".join(out)


if __name__ == "__main__":
    here = os.path.dirname(os.path.dirname(os.path.abspath(__file__)))
    repo = os.environ.get("VERIF_REPO", "/repo")
    src_path = sys.argv[1] if len(sys.argv) > 1 else os.path.join(repo, "src/dateutil/rrule.py")
    out_path = sys.argv[2] if len(sys.argv) > 2 else os.path.join(here, "coq/gen/RRInitGen.v")   # coq/gen/RRInitGen.v
    try:
        txt = translate(open(src_path).read())
    except TranslateError as ex:
        print("TRANSLATE-ERROR: %s" % ex)
        sys.exit(2)
    try:
        old = open(out_path).read()
    except OSError:
        old = None
    if old != txt:
        open(out_path, "w").write(txt)
        print("regenerated", out_path)
