#!/usr/bin/env python3
"""C17 -- iCalendar VTIMEZONE zones agree with the same rules given as a TZ string.
Hand model (coq/posix/IcalModel.v) + theorems (coq/props/C17.v) + differential correspondence:
tz.tzical zones built from generated VTIMEZONE text (RRULE form and RDATE-list form, both component
orders, folded lines) vs the extracted _tzicalvtz model, vs the extracted POSIX specification, vs
tz.tzstr of the same rule; _parse_rfc model vs implementation on well-formed and malformed text."""
import datetime
import io
import json
import os
import sys
import time

sys.path.insert(0, os.path.dirname(os.path.abspath(__file__)))
import common as C

C.reexec_under_impl_python()
import posix_common as P

CID = "C17"
AREA = "posix"
VO = ["props/C17.vo", "posix/PTime.vo", "posix/RDelta.vo", "posix/TzParseModel.vo", "posix/TzRangeModel.vo",
      "posix/PosixSpec.vo", "posix/IcalModel.vo", "posix/TzLocalModel.vo"]
Y0 = 1996
NYEARS_MODEL = 14          # onsets handed to the model: years Y0 .. Y0+13
QYEARS_Q = [1996, 1997, 2000, 2003]
QYEARS_T = [1996, 1997, 1999, 2000, 2001, 2003, 2004, 2007]


def match_negative_dst(payload):
    """tzical zone whose DAYLIGHT offset is smaller than its STANDARD offset (negative saving), at a UTC
    instant within 2 x |saving| of a transition of the zone (what the finding describes); a difference
    elsewhere in such a zone is NOT explained by it."""
    inp = payload.get("input") or {}
    r = inp.get("rule") or {}
    ds = r.get("dst") or {}
    dist = inp.get("event_distance_s")
    return (bool(inp.get("negative_dst")) and
            payload.get("kind", "") in ("tzical zone differs from the POSIX specification at a UTC instant",
                                        "tzical zone and tzstr of the same rule differ at a UTC instant",
                                        "before the first onset the first STANDARD component does not apply") and
            isinstance(dist, int) and "off" in ds and dist <= 2 * abs(r["off"] - ds["off"]))


MATCHERS = {"c17_negative_dst_saving": match_negative_dst}


def fmt_off(o):
    sign = "+" if o >= 0 else "-"
    a = abs(o)
    if a % 60:
        return "%s%02d%02d%02d" % (sign, a // 3600, (a // 60) % 60, a % 60)
    return "%s%02d%02d" % (sign, a // 3600, (a // 60) % 60)


def fmt_dt(s):
    d = P.dt_of(s)
    return d.strftime("%Y%m%dT%H%M%S")


def rrule_of(date):
    """RRULE text for a rule date (times < 24 h only)"""
    if date[0] == 'M':
        _, m, w, d = date
        day = ["SU", "MO", "TU", "WE", "TH", "FR", "SA"][d]
        return "FREQ=YEARLY;BYMONTH=%d;BYDAY=%s%s" % (m, "-1" if w == 5 else "+%d" % w if w % 2 else str(w), day)
    if date[0] == 'J':
        dd = datetime.date(2001, 1, 1) + datetime.timedelta(days=date[1] - 1)
        return "FREQ=YEARLY;BYMONTH=%d;BYMONTHDAY=%d" % (dd.month, dd.day)
    return "FREQ=YEARLY;BYYEARDAY=%d" % (date[1] + 1)


def local_onsets(o, r, years):
    """(daylight onsets in local standard time, standard onsets in local daylight time)"""
    ds = r["dst"]
    enc = P.enc_posix(r)
    dl, sd = [], []
    for y in years:
        s, e = o.call(P.E_EVENTS, enc + [y])
        dl.append(s + r["off"])
        sd.append(e + ds["off"])
    return dl, sd


def vtimezone(r, dl, sd, form, order, rng, tzid="Test/Zone", fold_lines=False):
    ds = r["dst"]

    def comp(kind, onsets, ofrom, oto, name, date):
        lines = ["BEGIN:" + kind]
        lines.append(rng.choice(["DTSTART:", "DTSTART;VALUE=DATE-TIME:", "dtstart:"]) + fmt_dt(onsets[0]))
        if form == "rrule":
            lines.append("RRULE:" + rrule_of(date))
        else:
            rest = onsets[1:]
            if rng.random() < 0.5:
                lines.append("RDATE:" + ",".join(fmt_dt(x) for x in rest))
            else:
                for x in rest:
                    lines.append("RDATE:" + fmt_dt(x))
        extra = ["TZOFFSETFROM:" + fmt_off(ofrom), "TZOFFSETTO:" + fmt_off(oto), "TZNAME:" + name]
        if rng.random() < 0.3:
            extra.append("COMMENT:generated")
        rng.shuffle(extra)
        pos = rng.randrange(3)
        lines = lines[:1] + extra[:pos] + lines[1:] + extra[pos:]
        lines.append("END:" + kind)
        return lines
    cd = comp("DAYLIGHT", dl, r["off"], ds["off"], ds["name"], ds["start"][0])
    cs = comp("STANDARD", sd, ds["off"], r["off"], r["name"], ds["end"][0])
    body = cd + cs if order == "daylight_first" else cs + cd
    lines = ["BEGIN:VTIMEZONE", "TZID:" + tzid]
    if rng.random() < 0.3:
        lines.append("LAST-MODIFIED:20200101T000000Z")
    lines += body + ["END:VTIMEZONE"]
    if fold_lines:
        out = []
        for l in lines:
            if len(l) > 12 and rng.random() < 0.6:
                p = rng.randrange(4, len(l) - 1)
                out += [l[:p], " " + l[p:]]
            else:
                out.append(l)
        lines = out
    return lines


def enc_comps(comps):
    out = [len(comps)]
    for (ons, fr, to, isd, nm) in comps:
        out += [len(ons)] + list(ons) + [fr, to, 1 if isd else 0] + P.eostr(nm)
    return out


def model_comps(r, dl, sd, order):
    ds = r["dst"]
    cd = (dl, r["off"], ds["off"], True, ds["name"])
    cs = (sd, ds["off"], r["off"], False, r["name"])
    return [cd, cs] if order == "daylight_first" else [cs, cd]


def build_ical(text, tzid=None):
    from dateutil import tz
    try:
        ic = tz.tzical(io.StringIO(text))
        return ic, [0]
    except Exception as ex:
        return None, [P.exc_code(ex)]


def impl_structure(ic):
    out = []
    for k in ic.keys():
        z = ic._vtz[k]
        out.append([k, [[int(c.tzoffsetfrom.total_seconds()), int(c.tzoffsetto.total_seconds()),
                         1 if c.isdst else 0, c.tzname] for c in z._comps]])
    return out


def dec_structure(v):
    if not isinstance(v, list) or v[0] != 0:
        return v if not isinstance(v, list) else [v[0]]
    n = v[1]
    i = 2
    out = []
    for _ in range(n):
        k, i = P.read_name(v, i)
        nc = v[i]
        i += 1
        comps = []
        for _ in range(nc):
            fr, to, isd = v[i], v[i + 1], v[i + 2]
            nm, i = P.read_name(v, i + 3)
            i += 1          # number of recurrence lines
            comps.append([fr, to, isd, nm])
        out.append([k, comps])
    return [0, out]


def enc_lines(lines):
    out = [len(lines)]
    for l in lines:
        out += P.estr(l)
    return out


class Stats(object):
    def __init__(self):
        self.evals = 0
        self.hist = {}
        self.model_diff = 0
        self.spec_diff = 0
        self.samples = []
        self.distinct = set()

    def bump(self, k, n=1):
        self.hist[k] = self.hist.get(k, 0) + n


def expressible(r):
    ds = r["dst"]
    return ds is not None and ds["start"][1] < P.DAY and ds["end"][1] < P.DAY


def check_zone(verdict, st, o, r, rng, qyears, idx, tier):
    from dateutil import tz
    enc = P.enc_posix(r)
    g = o.call(P.E_GUARDS, enc)
    guards = {"wf": bool(g[0]), "apart": bool(g[1]), "d8": bool(g[2])}
    in_guard = guards["wf"] and guards["apart"]
    ds = r["dst"]
    neg = ds["off"] < r["off"]            # negative saving: compared with the spec too (finding F-C17-1)
    form = "rrule" if (idx % 2 == 0 and expressible(r)) else "rdate"
    order = "daylight_first" if (idx // 2) % 2 == 0 else "standard_first"
    fold_lines = (idx % 3 == 0)
    years = list(range(Y0, Y0 + NYEARS_MODEL))
    dl, sd = local_onsets(o, r, years)
    lines = vtimezone(r, dl, sd, form, order, rng, fold_lines=fold_lines)
    text = rng.choice(["\r\n", "\n"]).join(lines) + "\r\n"
    st.bump("zones")
    st.bump("form_" + form)
    st.bump("order_" + order)
    st.bump("folded" if fold_lines else "unfolded")
    st.bump("in_guard" if in_guard else "outside_guard")
    ic, status = build_ical(text)
    if ic is None:
        verdict.violation({"kind": "well-formed VTIMEZONE rejected", "input": {"text": text, "rule": r},
                           "impl": status})
        return
    # structure: parser model on the same lines
    ms = dec_structure(o.call(P.E_ICAL_PARSE, enc_lines(text.splitlines())))
    if ms != [0, impl_structure(ic)]:
        st.model_diff += 1
        verdict.violation({"kind": "correspondence: _parse_rfc differs from the model",
                           "input": {"text": text}, "impl": impl_structure(ic), "model": ms}, concrete=False)
    try:
        z = ic.get()
    except Exception as ex:
        z = None
        status = [P.exc_code(ex)]
    if z is None:
        verdict.violation({"kind": "well-formed single-zone VTIMEZONE: get() does not return the zone",
                           "input": {"text": text, "rule": r}, "impl": status})
        return
    comps = model_comps(r, dl, sd, order)
    ec = enc_comps(comps)
    # instants: events of the query years, the very first onset, before it
    first = min(dl[0] - r["off"], sd[0] - ds["off"])         # first onset as UTC reading
    horizon = P.ystart(Y0 + NYEARS_MODEL - 2)
    us = []
    for y in qyears:
        s, e = o.call(P.E_EVENTS, enc + [y])
        for ev in (s, e):
            us += [ev + d for d in (-1800, -1, 0, 1, 1800)]
        us += [P.ystart(y) + d for d in (-1, 0, 1, 40000)]
    gy = qyears[idx % len(qyears)]
    step = 6 * 3600 if (tier == "thorough" or idx % 6 == 0) else 9 * 86400 + 5 * 3600
    us += list(range(P.ystart(gy) + 777, P.ystart(gy + 1), step))
    us += [first - 86400 * 200, first - 3600, first - 1, first, first + 1]
    us = sorted(set(u for u in us if u < horizon))
    offs = {r["off"], ds["off"]}
    ws = []
    for u in us:
        for off in offs:
            ws += [(u + off, 0), (u + off, 1)]
    ws = ws if len(ws) < 1500 else ws[::2]
    st.distinct.add(text)
    # implementation
    impl_u = [P.impl_obs_utc(z, u) for u in us]
    impl_w = [P.impl_obs_wall(z, w, f) for (w, f) in ws]
    st.evals += len(us) + len(ws)
    m_u = P.dec_ical_utc(o.call(P.E_ICAL_UTC, ec + us), len(us))
    m_w = P.dec_wall_batch(o.call(P.E_ICAL_WALL, ec + [x for wf in ws for x in wf]), len(ws), zone_status=False)
    spec_u = P.dec_spec_utc(o.call(P.E_SPEC_UTC, enc + us), len(us))
    # tzstr of the same rule (property: indistinguishable), only inside tzstr's own guard
    canon = "".join(chr(c) for c in o.call(P.E_RENDER, enc))
    zs = None
    if guards["d8"] and (in_guard or (neg and guards["wf"])) and r["name"] not in ("GMT", "UTC"):
        # (negative saving: the C17 text asks for agreement with tzstr; tzstr is itself wrong there
        #  (F-C08-3), a difference near a transition is routed to F-C17-1 like the spec difference)
        try:
            zs = tz.tzstr(canon)
        except Exception:
            zs = None
    base = {"rule": r, "text": text, "form": form, "order": order, "guards": guards, "tzstr": canon,
            "negative_dst": neg}
    if neg:
        st.bump("negative_saving_zones")
    ev_cache = {}

    def event_distance(t):
        y = P.dt_of(t).year
        best = None
        for yy in (y - 1, y, y + 1):
            if yy not in ev_cache:
                ev_cache[yy] = o.call(P.E_EVENTS, enc + [yy])
            for e in ev_cache[yy]:
                if best is None or abs(t - e) < best:
                    best = abs(t - e)
        return best

    for k, u in enumerate(us):
        iu, sp = impl_u[k], spec_u[k]
        after = u >= first
        spec_bad = ((in_guard or (neg and guards["wf"])) and after and
                    (iu[0] != 0 or [iu[3], iu[4], iu[5]] != sp or iu[1] != u + sp[0]))
        # the model is consulted at EVERY instant, also where a spec difference is reported / routed
        if iu != m_u[k]:
            st.model_diff += 1
            verdict.violation({"kind": "correspondence: tzical zone differs from the model (UTC instant)",
                               "input": dict(base, utc=u, utc_iso=P.dt_of(u).isoformat()), "impl": iu,
                               "model": m_u[k], "spec": sp}, concrete=bool(spec_bad))
            continue
        if not after:
            st.bump("utc_before_first_onset")
            # before the first onset the first STANDARD component applies
            want = [0, u + r["off"], 0, r["off"], 0, r["name"]]
            if iu != want:
                verdict.violation({"kind": "before the first onset the first STANDARD component does not apply",
                                   "input": dict(base, utc=u, utc_iso=P.dt_of(u).isoformat(),
                                                 event_distance_s=event_distance(u) if neg else None),
                                   "impl": iu, "want": want})
                continue
        if spec_bad:
            st.spec_diff += 1
            verdict.violation({"kind": "tzical zone differs from the POSIX specification at a UTC instant",
                               "input": dict(base, utc=u, utc_iso=P.dt_of(u).isoformat(),
                                             event_distance_s=event_distance(u) if neg else None),
                               "impl": iu, "spec": sp, "model": m_u[k]})
        elif zs is not None and after and u >= first + P.DAY:
            tu = P.impl_obs_utc(zs, u)
            st.evals += 1
            if tu != iu:
                st.spec_diff += 1
                verdict.violation({"kind": "tzical zone and tzstr of the same rule differ at a UTC instant",
                                   "input": dict(base, utc=u, utc_iso=P.dt_of(u).isoformat(),
                                                 event_distance_s=event_distance(u) if neg else None),
                                   "impl": iu, "tzstr_impl": tu, "spec": sp})
    first_wall = min(dl[0], sd[0])
    last_first_wall = max(dl[0], sd[0])
    for k, (w, f) in enumerate(ws):
        iw = impl_w[k]
        if iw != m_w[k]:
            st.model_diff += 1
            tw = P.impl_obs_wall(zs, w, f) if zs is not None and in_guard and w >= first_wall else None
            verdict.violation({"kind": "correspondence: tzical zone differs from the model (wall reading)",
                               "input": dict(base, wall=w, fold=f, wall_iso=P.dt_of(w).isoformat()), "impl": iw,
                               "model": m_w[k], "tzstr_impl": tw},
                              concrete=bool(tw is not None and tw != iw))
        elif zs is not None and in_guard and w >= first_wall:
            # gaps and folds handled like tzstr does, from the zone's first onset on (wall readings)
            tw = P.impl_obs_wall(zs, w, f)
            st.evals += 1
            if tw != iw:
                st.spec_diff += 1
                verdict.violation({"kind": "tzical zone and tzstr of the same rule differ at a wall reading",
                                   "input": dict(base, wall=w, fold=f, wall_iso=P.dt_of(w).isoformat()),
                                   "impl": iw, "tzstr_impl": tw})
    # the lookup cache: a repeated / interleaved query sequence through a FRESH zone object against
    # the cached model and the stateless model
    if idx % 4 == 0:
        z2 = build_ical(text)[0].get()
        qs = [ws[rng.randrange(len(ws))] for _ in range(12)]
        qs = [qs[rng.randrange(len(qs))] for _ in range(60)]
        ir = []
        for (w, f) in qs:
            d = P.dt_of(w).replace(tzinfo=z2, fold=f)
            try:
                ir += [0, int(d.utcoffset().total_seconds())]
            except Exception as ex:
                ir += [P.exc_code(ex)]
        mr = o.call(P.E_ICAL_CACHED, ec + [x for wf in qs for x in wf])
        st.evals += len(qs)
        st.bump("cache_sequences")
        if ir != mr:
            st.model_diff += 1
            verdict.violation({"kind": "correspondence: cached lookup sequence differs from the model",
                               "input": dict(base, queries=qs), "impl": ir, "model": mr}, concrete=False)
    if len(st.samples) < 8 and idx % 29 == 0:
        k = len(us) // 2
        st.samples.append({"tzstr": canon, "form": form, "order": order, "utc": P.dt_of(us[k]).isoformat(),
                           "impl": impl_u[k], "model": m_u[k], "spec": spec_u[k]})


# ---------------------------------------------------------------------------------------------
# parser: malformed definitions, several zones, get(tzid)

def mutate_lines(lines, rng):
    lines = list(lines)
    k = rng.randrange(14)
    names = [i for i, l in enumerate(lines)]
    i = rng.choice(names)
    if k == 0:
        del lines[i]
        return "drop_line", lines
    if k == 1:
        lines = [l for l in lines if not l.upper().startswith("TZID")]
        return "missing_tzid", lines
    if k == 2:
        lines = [l for l in lines if not l.upper().startswith("DTSTART")]
        return "missing_dtstart", lines
    if k == 3:
        j = [n for n, l in enumerate(lines) if l.startswith("TZOFFSET")]
        if j:
            del lines[rng.choice(j)]
        return "missing_offset", lines
    if k == 4:
        lines = [l.replace("STANDARD", "SOMETHING") for l in lines]
        return "unknown_component", lines
    if k == 5:
        lines.insert(i if i > 1 else 2, "X-UNKNOWN:1")
        return "unknown_property", lines
    if k == 6:
        lines = [l.replace("TZOFFSETTO:", "TZOFFSETTO;X=1:") for l in lines]
        return "param_on_offset", lines
    if k == 7:
        lines = [l for l in lines if l != "END:DAYLIGHT"]
        return "component_not_closed", lines
    if k == 8:
        j = [n for n, l in enumerate(lines) if l.startswith("TZOFFSETFROM:")]
        if j:
            n = rng.choice(j)
            lines[n] = "TZOFFSETFROM:" + rng.choice(["", "+5", "+05", "0500", "+050", "+0500x", " +0500 ",
                                                     "+05:00", "-053015", "+ 500", "+1_00"])
        return "odd_offset", lines
    if k == 9:
        lines[i] = lines[i].replace(":", "", 1)
        return "no_colon", lines
    if k == 10:
        lines = [l.replace("DTSTART:", "DTSTART;TZID=x:") for l in lines]
        return "dtstart_param", lines
    if k == 11:
        lines = [l for l in lines if not (l.startswith("BEGIN:") and not l.endswith("VTIMEZONE"))]
        return "no_component_begin", lines
    if k == 12:
        lines = [l + rng.choice(["", " ", "\t"]) for l in lines]
        return "trailing_blanks", lines
    safe = [n + 1 for n, l in enumerate(lines) if l.upper().startswith(("TZNAME", "COMMENT", "TZID"))]
    lines.insert(rng.choice(safe) if safe else len(lines), rng.choice(["", "   ", " continued", " x"]))
    return "blank_or_continuation", lines


# ---------------------------------------------------------------------------------------------
# one zone object shared by several threads: every answer == the single-threaded (stateless model)
# answer == tzstr's

class SchedLock(object):
    """The zone's own _cache_lock plus a scheduling hook: right before an acquire and right after a
    release another thread may run a complete lookup (deterministic, from the run's PRNG).  These
    are all the interleavings at lock granularity of the lookups of two threads."""

    def __init__(self, real, hook, events=None):
        self.real, self.hook, self.busy, self.events = real, hook, False, events

    def _other(self, where):
        if self.busy or self.hook is None:
            return
        self.busy = True
        try:
            import threading
            t = threading.Thread(target=self.hook, args=(where,))
            t.start()
            t.join(30)
        finally:
            self.busy = False

    def acquire(self, *a, **kw):
        self._other("before_acquire")
        got = self.real.acquire(*a, **kw)
        if self.events is not None:
            import threading
            self.events.append(("acq", threading.get_ident()))
        return got

    def release(self):
        self.real.release()
        self._other("after_release")

    def __enter__(self):
        self.acquire()
        return self

    def __exit__(self, *exc):
        self.release()


def check_threads(verdict, st, o, r, rng, idx, tier):
    """forced interleavings + a short free-running stress on ONE shared tzical zone object"""
    import threading
    from dateutil import tz
    enc = P.enc_posix(r)
    ds = r["dst"]
    g = o.call(P.E_GUARDS, enc)
    full_guard = bool(g[0]) and bool(g[1]) and bool(g[2]) and r["name"] not in ("GMT", "UTC")
    years = list(range(Y0, Y0 + NYEARS_MODEL))
    dl, sd = local_onsets(o, r, years)
    order = "daylight_first" if idx % 2 else "standard_first"
    lines = vtimezone(r, dl, sd, "rdate", order, rng)
    text = "\r\n".join(lines) + "\r\n"
    ec = enc_comps(model_comps(r, dl, sd, order))
    # wall readings: around the events of two years, both folds, plus mid-season readings
    pool = []
    for y in (Y0 + 3, Y0 + 4):
        s, e = o.call(P.E_EVENTS, enc + [y])
        for ev, off in ((s, r["off"]), (e, ds["off"])):
            for d in (-5400, -1800, -1, 0, 1800, 5400, 40 * 86400, -40 * 86400):
                pool.append((ev + off + d, 0))
                pool.append((ev + off + d, 1))
    pool = sorted(set(pool))
    expected = P.dec_wall_batch(o.call(P.E_ICAL_WALL, ec + [x for wf in pool for x in wf]), len(pool),
                                zone_status=False)
    exp = dict(zip(pool, expected))
    zs = None
    if full_guard:
        try:
            zs = tz.tzstr("".join(chr(c) for c in o.call(P.E_RENDER, enc)))
        except Exception:
            zs = None
    bad = []

    def ask(z, q, who):
        got = P.impl_obs_wall(z, q[0], q[1])
        st.evals += 1
        if got != exp[q] and len(bad) < 3:
            bad.append({"query": q, "wall_iso": P.dt_of(q[0]).isoformat(), "impl": got, "single_threaded": exp[q],
                        "tzstr_impl": None if zs is None else P.impl_obs_wall(zs, q[0], q[1]), "who": who})

    # (1) forced interleavings at lock granularity
    z = build_ical(text)[0].get()
    sched = C.rng("C17/threads/%d" % idx)

    def hook(where):
        if sched.random() < 0.5:
            ask(z, pool[sched.randrange(len(pool))], "second thread, " + where)
    events = []
    z._cache_lock = SchedLock(z._cache_lock, hook, events)
    orig_find = z._find_comp

    def logged_find(dt):
        tid = threading.get_ident()
        nv = dt.replace(tzinfo=None)
        events.append(("start", tid, (P.secs_of(nv), getattr(dt, "fold", 0))))
        c = orig_find(dt)
        events.append(("end", tid, [i for i, x in enumerate(z._comps) if x is c][0]))
        return c
    z._find_comp = logged_find
    seq = [pool[sched.randrange(len(pool))] for _ in range(14)]
    seq = [seq[sched.randrange(len(seq))] for _ in range(60 if tier == "quick" else 300)]
    for q in seq:
        ask(z, q, "first thread")
    st.bump("thread_forced_interleaving_zones")
    # trace validation: the observed schedule (order of lock acquisitions per thread) is replayed on
    # the Coq model of the cache (two parallel lists, IcalConcModel.run); the model must produce the
    # same answers per thread and the same final cache content
    if not bad:
        tids, todos, outs, sched, nacq = {}, [], [], [], {}
        for ev in events:
            t = tids.setdefault(ev[1], len(tids))
            if t == len(todos):
                todos.append([])
                outs.append([])
            if ev[0] == "start":
                todos[t].append(ev[2])
                nacq[t] = 0
            elif ev[0] == "acq":
                nacq[t] += 1
                sched += [t] if nacq[t] == 1 else [t, t]      # second acquisition: scan step + insert step
            else:
                outs[t].append(ev[2])
        args = ec + [len(todos)]
        for td in todos:
            args += [len(td)] + [x for q in td for x in q]
        mv = o.call(P.E_ICAL_CONC, args + sched)
        want = []
        for ou in outs:
            want += [len(ou)] + [x for c in ou for x in (0, c)]
        cache = [(P.secs_of(d), f, [i for i, x in enumerate(z._comps) if x is c][0])
                 for ((d, f), c) in zip(z._cachedate, z._cachecomp)]
        want += [len(cache)] + [x for e in cache for x in e]
        st.evals += len(sched)
        st.traces = getattr(st, "traces", 0) + 1
        if mv != want:
            st.model_diff += 1
            verdict.violation({"kind": "correspondence: the observed interleaving replayed on the cache model "
                                       "(two parallel lists under the lock) gives different answers or a "
                                       "different final cache",
                               "input": {"rule": r, "text": text, "threads": len(todos), "schedule": sched[:200]},
                               "impl": want[:60], "model": mv[:60] if isinstance(mv, list) else mv},
                              concrete=False)
    # (2) free-running threads on a fresh shared object
    if not bad and idx % 3 == 0:
        z2 = build_ical(text)[0].get()
        stop = time.time() + (0.25 if tier == "quick" else 1.0)
        old = sys.getswitchinterval()
        sys.setswitchinterval(1e-6)

        def work(seed):
            rr = C.rng("C17/stress/%d/%d" % (idx, seed))
            while time.time() < stop and not bad:
                ask(z2, pool[rr.randrange(len(pool))], "free-running thread %d" % seed)
        try:
            th = [threading.Thread(target=work, args=(i,)) for i in range(4)]
            for t in th:
                t.start()
            for t in th:
                t.join(60)
        finally:
            sys.setswitchinterval(old)
        st.bump("thread_free_running_zones")
    for b in bad:
        st.spec_diff += 1
        verdict.violation({"kind": "one tzical zone object shared by two threads: an answer differs from the "
                                   "single-threaded answer",
                           "input": {"rule": r, "text": text, "order": order, "wall": b["query"][0],
                                     "fold": b["query"][1], "threads": True, "who": b["who"],
                                     "wall_iso": b["wall_iso"]},
                           "impl": b["impl"], "model": b["single_threaded"], "tzstr_impl": b["tzstr_impl"]})


# ---------------------------------------------------------------------------------------------
# zones whose STANDARD offset changes between two eras: outside the C17 theorems (constant standard
# offset); kept in a stream of their own.  Implementation vs model must still agree; differences
# from the piecewise POSIX truth next to the change belong to the open finding
# F-C04-tzical-std-change of the tzfile area (not duplicated here).

OTHER_FINDING = "F-C04-tzical-std-change"


def other_finding_open():
    try:
        data = json.load(open(os.path.join(C.VERIF, "known_findings.json")))
    except Exception:
        return False
    return any(f.get("id") == OTHER_FINDING and f.get("status") == "open" for f in data.get("findings", []))


def check_std_change(verdict, st, o, r, rng, idx, tier):
    ds = r["dst"]
    shift = rng.choice([3600, -3600, 1800])
    if not (-86400 < r["off"] + shift < 86400 and -86400 < ds["off"] + shift < 86400):
        shift = -shift if -86400 < ds["off"] - shift < 86400 and -86400 < r["off"] - shift else 0
    if shift == 0:
        return
    r2 = {"name": r["name"], "off": r["off"] + shift,
          "dst": dict(ds, off=ds["off"] + shift)}
    yc = Y0 + 5                                   # era 2 starts with the END event of year yc - 1
    years = list(range(Y0, Y0 + NYEARS_MODEL))
    dl, sd = local_onsets(o, r, years)            # local readings do not depend on the era
    k = yc - Y0
    tchange = sd[k - 1] - ds["off"]
    d1 = [x for x in dl if x - r["off"] < tchange]
    d2 = [x for x in dl if x - r["off"] >= tchange]
    comps = [(d1, r["off"], ds["off"], True, ds["name"]),
             (sd[:k - 1], ds["off"], r["off"], False, r["name"]),
             ([sd[k - 1]], ds["off"], r2["off"], False, r["name"]),
             (d2, r2["off"], r2["dst"]["off"], True, ds["name"]),
             (sd[k:], r2["dst"]["off"], r2["off"], False, r["name"])]
    lines = ["BEGIN:VTIMEZONE", "TZID:Era/Change"]
    for (ons, fr, to, isd, nm) in comps:
        kind = "DAYLIGHT" if isd else "STANDARD"
        lines += ["BEGIN:" + kind, "DTSTART:" + fmt_dt(ons[0])]
        if len(ons) > 1:
            lines.append("RDATE:" + ",".join(fmt_dt(x) for x in ons[1:]))
        lines += ["TZOFFSETFROM:" + fmt_off(fr), "TZOFFSETTO:" + fmt_off(to), "TZNAME:" + nm, "END:" + kind]
    lines.append("END:VTIMEZONE")
    text = "\r\n".join(lines) + "\r\n"
    ic, status = build_ical(text)
    if ic is None:
        verdict.violation({"kind": "well-formed VTIMEZONE rejected", "input": {"text": text, "rule": r},
                           "impl": status})
        return
    z = ic.get()
    us = []
    for y in (yc - 2, yc - 1, yc, yc + 1):
        for ev in o.call(P.E_EVENTS, P.enc_posix(r) + [y]) + o.call(P.E_EVENTS, P.enc_posix(r2) + [y]):
            us += [ev + d for d in (-1800, -1, 0, 1, 1800)]
    us += [tchange + d for d in (-2 * 86400, -7200, -3600, -1800, -1, 0, 1, 1800, 3600, 7200, 2 * 86400)]
    first = min(dl[0] - r["off"], sd[0] - ds["off"])
    us = sorted(set(u for u in us if u >= first + P.DAY))
    ec = enc_comps(comps)
    m_u = P.dec_ical_utc(o.call(P.E_ICAL_UTC, ec + us), len(us))
    t1 = P.dec_spec_utc(o.call(P.E_SPEC_UTC, P.enc_posix(r) + us), len(us))
    t2 = P.dec_spec_utc(o.call(P.E_SPEC_UTC, P.enc_posix(r2) + us), len(us))
    g = o.call(P.E_GUARDS, P.enc_posix(r))
    g2 = o.call(P.E_GUARDS, P.enc_posix(r2))
    in_guard = bool(g[0]) and bool(g[1]) and bool(g2[0]) and bool(g2[1])
    st.bump("std_offset_change_zones")
    routed = other_finding_open()
    for i, u in enumerate(us):
        iu = P.impl_obs_utc(z, u)
        st.evals += 1
        if iu != m_u[i]:
            st.model_diff += 1
            verdict.violation({"kind": "correspondence: tzical zone differs from the model (UTC instant)",
                               "input": {"rule": r, "text": text, "utc": u, "std_offset_change": shift},
                               "impl": iu, "model": m_u[i]}, concrete=False)
            continue
        truth = t1[i] if u < tchange else t2[i]
        if in_guard and (iu[0] != 0 or [iu[3], iu[4], iu[5]] != truth or iu[1] != u + truth[0]):
            near = abs(u - tchange) <= P.DAY
            if near and routed:
                st.bump("routed_to_" + OTHER_FINDING)
            else:
                verdict.violation({"kind": "tzical zone with a changing standard offset differs from the piecewise "
                                           "POSIX truth" + ("" if near else " away from the change"),
                                   "input": {"rule": r, "text": text, "utc": u, "std_offset_change": shift,
                                             "utc_iso": P.dt_of(u).isoformat()}, "impl": iu, "spec": truth},
                                  concrete=not near)


def check_parse(verdict, st, o, lines, cls, expect_valueerror=None):
    text = "\r\n".join(lines)
    ic, status = build_ical(text)
    raw = text.splitlines()
    mv = dec_structure(o.call(P.E_ICAL_PARSE, enc_lines(raw)))
    iv = [0, impl_structure(ic)] if ic is not None else status
    st.evals += 1
    st.bump("parse_" + cls + ("_ok" if ic is not None else "_" + str(status[0])))
    if expect_valueerror and status != [1]:
        verdict.violation({"kind": "malformed VTIMEZONE not rejected with ValueError",
                           "input": {"text": text, "class": cls}, "impl": iv})
        return
    if iv != mv:
        st.model_diff += 1
        verdict.violation({"kind": "correspondence: _parse_rfc differs from the model",
                           "input": {"text": text, "class": cls}, "impl": iv, "model": mv}, concrete=False)


def replay(path):
    data = json.load(open(path))
    C.ensure_built([AREA], VO)
    o = C.Oracle(AREA)
    inp = data.get("input") or {}
    print("kind      ", data.get("kind"))
    if "text" in inp:
        text = inp["text"]
        print(text)
        ic, status = build_ical(text)
        print("impl parse ", impl_structure(ic) if ic is not None else status)
        print("model parse", dec_structure(o.call(P.E_ICAL_PARSE, enc_lines(text.splitlines()))))
        r = inp.get("rule")
        if r is not None and ic is not None and len(ic.keys()) == 1:
            import check_C08
            r = check_C08.from_json_rule(r)
            z = ic.get()
            years = list(range(Y0, Y0 + NYEARS_MODEL))
            dl, sd = local_onsets(o, r, years)
            ec = enc_comps(model_comps(r, dl, sd, inp.get("order", "daylight_first")))
            if "utc" in inp:
                u = inp["utc"]
                print("utc       ", P.dt_of(u).isoformat())
                print("impl      ", P.impl_obs_utc(z, u))
                print("model     ", P.dec_ical_utc(o.call(P.E_ICAL_UTC, ec + [u]), 1)[0])
                print("spec      ", P.dec_spec_utc(o.call(P.E_SPEC_UTC, P.enc_posix(r) + [u]), 1)[0])
            if "wall" in inp:
                w, f = inp["wall"], inp["fold"]
                print("wall      ", P.dt_of(w).isoformat(), "fold", f)
                print("impl      ", P.impl_obs_wall(z, w, f))
                print("model     ", P.dec_wall_batch(o.call(P.E_ICAL_WALL, ec + [w, f]), 1, zone_status=False)[0])
    else:
        print(json.dumps(data, indent=1)[:3000])
    o.close()
    return 0


def main():
    argv = sys.argv[1:]
    if "--replay" in argv:
        return replay(argv[argv.index("--replay") + 1])
    tier = C.tier_from_argv(argv)
    t0 = time.time()
    verdict = C.Verdict(CID, MATCHERS)
    st = Stats()
    budget = {}
    build_err = None
    build_log = ""
    try:
        _ok, build_log = C.ensure_built([AREA], VO)
    except C.BuildError as ex:
        build_err = ex
    gen_msgs = [l for l in (build_log or "").splitlines() if "TRANSLATE-ERROR" in l or "GENERATOR FAILED" in l]
    if build_err is not None:
        props = {"obligations": 0, "discharged": 0, "theorems": [], "assumptions": {},
                 "cmd": "coqc props/C17.v", "log": build_err.log, "ok": False}
    else:
        props = C.compile_props(CID)
    if os.path.exists(os.path.join(C.BIN, "oracle_" + AREA)):
        from dateutil import tz
        o = C.Oracle(AREA)
        rng = C.rng("C17")
        qyears = QYEARS_Q if tier == "quick" else QYEARS_T
        n_zones = 150 if tier == "quick" else 1500
        rules = []
        while len(rules) < n_zones:
            r = P.gen_rule(rng, std_only_p=0.0)
            if r["dst"]["end"][1] >= 100 * 3600 or r["dst"]["start"][1] >= 100 * 3600:
                continue
            rules.append(r)
        cpath = os.path.join(C.VERIF, "corpus", "regressions", "C17.jsonl")
        if os.path.exists(cpath):
            import check_C08
            for k, l in enumerate(open(cpath)):
                if l.strip():
                    e = json.loads(l)
                    if "rule" in e:
                        check_zone(verdict, st, o, check_C08.from_json_rule(e["rule"]), rng, qyears,
                                   e.get("idx", k), tier)
        t_stream = time.time()
        budget.update({"zone_stream_planned": len(rules), "zone_stream_done": 0, "zone_stream_budget_s": 45,
                       "zone_stream_cut_by_time_budget": False})
        for k, r in enumerate(rules):
            check_zone(verdict, st, o, r, rng, qyears, k, tier)
            budget["zone_stream_done"] = k + 1
            if tier == "quick" and time.time() - t_stream > 45:
                st.bump("zone_stream_cut_by_budget_at", k)
                budget["zone_stream_cut_by_time_budget"] = True
                break
        # ---- one zone object shared by several threads
        pos = [r for r in rules if r["dst"]["off"] > r["off"]]
        for k, r in enumerate(pos[:(10 if tier == "quick" else 120)]):
            check_threads(verdict, st, o, r, rng, k, tier)
        # ---- standard offset changing between two eras (own stream, see check_std_change)
        for k, r in enumerate(pos[10:(18 if tier == "quick" else 150)]):
            if r["dst"]["start"][1] < 100 * 3600 and r["dst"]["end"][1] < 100 * 3600:
                check_std_change(verdict, st, o, r, rng, k, tier)
        # ---- parser stream
        years = list(range(Y0, Y0 + 4))
        for k, r in enumerate(rules[:(120 if tier == "quick" else 2000)]):
            dl, sd = local_onsets(o, r, years)
            lines = vtimezone(r, dl, sd, "rdate", "standard_first" if k % 2 else "daylight_first", rng)
            check_parse(verdict, st, o, lines, "wellformed")
            for _ in range(3):
                cls, ml = mutate_lines(lines, rng)
                check_parse(verdict, st, o, ml, cls,
                            expect_valueerror=cls in ("missing_tzid", "missing_dtstart", "unknown_component",
                                                      "unknown_property", "missing_offset"))
            # several zones in one stream; addressing by TZID; single zone returned without naming it
            if k % 5 == 0:
                r2 = rules[(k + 7) % len(rules)]
                dl2, sd2 = local_onsets(o, r2, years)
                l2 = vtimezone(r2, dl2, sd2, "rdate", "daylight_first", rng, tzid="Other/Zone")
                both = ["BEGIN:VCALENDAR"] + lines + l2 + ["END:VCALENDAR"]
                check_parse(verdict, st, o, both, "two_zones")
                text = "\r\n".join(both)
                ic, _s = build_ical(text)
                for tzid in (None, "Test/Zone", "Other/Zone", "Nope"):
                    try:
                        zz = ic.get(tzid)
                        iv = [0, -1 if zz is None else len(zz._comps)]
                    except Exception as ex:
                        iv = [P.exc_code(ex)]
                    mv = o.call(P.E_ICAL_GET, [0 if tzid is None else 1] + P.estr(tzid or "") +
                                enc_lines(text.splitlines()))
                    st.evals += 1
                    want = {None: [1], "Test/Zone": [0, 2], "Other/Zone": [0, 2], "Nope": [0, -1]}[tzid]
                    if iv != want:
                        verdict.violation({"kind": "zone addressing by TZID", "input": {"text": text, "tzid": tzid},
                                           "impl": iv, "want": want})
                    elif iv != mv:
                        st.model_diff += 1
                        verdict.violation({"kind": "correspondence: get(tzid) differs from the model",
                                           "input": {"text": text, "tzid": tzid}, "impl": iv, "model": mv},
                                          concrete=False)
                one = build_ical("\r\n".join(lines))[0]
                if one is None or one.get() is None or one.get() is not one.get("Test/Zone"):
                    verdict.violation({"kind": "single zone is not returned without naming it",
                                       "input": {"text": "\r\n".join(lines)}})
        # ---- files with 2-3 VTIMEZONE blocks: every get(tzid) returns the zone defined under THAT tzid;
        #      a later block without TZID / DTSTART / TZOFFSETFROM / TZOFFSETTO is ValueError (the parser
        #      state -- tzid, comps -- must be reset at every BEGIN:VTIMEZONE); a repeated TZID
        n_multi = 12 if tier == "quick" else 150
        for k in range(n_multi):
            nb = 2 + (k % 2)
            picked, offs_seen = [], set()
            j = k * 3
            while len(picked) < nb and j < k * 3 + len(rules):
                rr_ = rules[j % len(rules)]
                j += 1
                if rr_["off"] in offs_seen:
                    continue                 # distinct standard offsets: a swap of two zones is visible
                offs_seen.add(rr_["off"])
                picked.append(rr_)
            if len(picked) < nb:
                continue
            ids = ["Zone/A", "Zone B", "Zone/C"][:nb]
            blocks = []
            for tzid, rr_ in zip(ids, picked):
                dlx, sdx = local_onsets(o, rr_, years)
                blocks.append(vtimezone(rr_, dlx, sdx, "rdate", "daylight_first" if k % 2 else "standard_first",
                                        rng, tzid=tzid))
            wrap = (lambda bs: ["BEGIN:VCALENDAR"] + [l for b in bs for l in b] + ["END:VCALENDAR"]) \
                if k % 3 else (lambda bs: [l for b in bs for l in b])
            good = wrap(blocks)
            st.bump("multi_zone_files")
            check_parse(verdict, st, o, good, "multi_zone")
            text = "\r\n".join(good) + "\r\n"
            ic, status = build_ical(text)
            if ic is None:
                verdict.violation({"kind": "well-formed multi-zone VTIMEZONE stream rejected",
                                   "input": {"text": text}, "impl": status})
            else:
                if sorted(ic.keys()) != sorted(ids):
                    verdict.violation({"kind": "multi-zone stream: keys() are not the TZIDs of the blocks",
                                       "input": {"text": text}, "impl": sorted(ic.keys()), "want": sorted(ids)})
                for tzid, rr_, blk in zip(ids, picked, blocks):
                    try:
                        zz = ic.get(tzid)
                    except Exception as ex:
                        zz = None
                    alone = build_ical("\r\n".join(blk) + "\r\n")[0].get()
                    qs = [P.ystart(y) + d for y in (Y0 + 1, Y0 + 2) for d in (40 * 86400, 200 * 86400 + 3600,
                                                                            300 * 86400 + 7200)]
                    st.evals += len(qs)
                    got = None if zz is None else [P.impl_obs_wall(zz, w, 0) for w in qs]
                    want = [P.impl_obs_wall(alone, w, 0) for w in qs]
                    struct = None if zz is None else sorted(
                        [int(c.tzoffsetto.total_seconds()), c.tzname] for c in zz._comps)
                    wstruct = sorted([[rr_["off"], rr_["name"]], [rr_["dst"]["off"], rr_["dst"]["name"]]])
                    if got != want or struct != wstruct:
                        verdict.violation({"kind": "multi-zone stream: get(tzid) is not the zone defined under that TZID",
                                           "input": {"text": text, "tzid": tzid, "rule": rr_},
                                           "impl": {"obs": got, "components": struct},
                                           "want": {"obs": want, "components": wstruct}})
                        continue
                    g2 = o.call(P.E_GUARDS, P.enc_posix(rr_))
                    if g2[0] and g2[1] and g2[2] and rr_["name"] not in ("GMT", "UTC"):
                        zs = tz.tzstr("".join(chr(c) for c in o.call(P.E_RENDER, P.enc_posix(rr_))))
                        tw = [P.impl_obs_wall(zs, w, 0) for w in qs]
                        st.evals += len(qs)
                        if tw != got:
                            verdict.violation({"kind": "multi-zone stream: get(tzid) differs from tzstr of that "
                                                       "zone's rule", "input": {"text": text, "tzid": tzid,
                                                                                "rule": rr_},
                                               "impl": got, "tzstr_impl": tw})
                    mv = o.call(P.E_ICAL_GET, [1] + P.estr(tzid) + enc_lines(text.splitlines()))
                    if mv != [0, 2]:
                        st.model_diff += 1
                        verdict.violation({"kind": "correspondence: get(tzid) differs from the model",
                                           "input": {"text": text, "tzid": tzid}, "impl": [0, 2], "model": mv},
                                          concrete=False)
            # a LATER block that lacks a mandatory line
            for kb in range(1, nb):
                for cls, pref in (("multi_later_block_missing_tzid", "TZID"),
                                  ("multi_later_block_missing_dtstart", "DTSTART"),
                                  ("multi_later_block_missing_offsetfrom", "TZOFFSETFROM"),
                                  ("multi_later_block_missing_offsetto", "TZOFFSETTO")):
                    blk = list(blocks[kb])
                    idx = [n for n, l in enumerate(blk) if l.upper().startswith(pref)]
                    if not idx:
                        continue
                    del blk[idx[0] if pref == "TZID" else rng.choice(idx)]
                    bad = wrap(blocks[:kb] + [blk] + blocks[kb + 1:])
                    check_parse(verdict, st, o, bad, cls, expect_valueerror=True)
            # a repeated TZID: no error is documented; implementation and model must agree
            rep = [list(b) for b in blocks]
            rep[-1] = [("TZID:" + ids[0]) if l.upper().startswith("TZID") else l for l in rep[-1]]
            check_parse(verdict, st, o, wrap(rep), "multi_repeated_tzid")
        # RFC 5545 unfolding removes CRLF + ONE leading blank only: a TZID / TZNAME containing blanks,
        # folded right AFTER a blank, must keep that blank (the zone stays addressable by get(tzid))
        for k, r in enumerate(rules[:(6 if tier == "quick" else 60)]):
            dl, sd = local_onsets(o, r, years)
            tzid = ["US Eastern Time", "America New York", "A B  C"][k % 3]
            spaced = dict(r, name=r["name"] + " Std T", dst=dict(r["dst"], name=r["dst"]["name"] + " Day T"))
            base_lines = vtimezone(spaced, dl, sd, "rdate", "daylight_first", rng, tzid=tzid)
            folded = []
            for l in base_lines:
                p_ = l.find(" ")
                if l.startswith(("TZID", "TZNAME")) and p_ > 0:
                    folded += [l[:p_ + 1], " " + l[p_ + 1:]]
                else:
                    folded.append(l)
            other = vtimezone(r, dl, sd, "rdate", "daylight_first", rng, tzid="Other/Zone")
            text = "\r\n".join(folded + other) + "\r\n"
            ic, status = build_ical(text)
            st.evals += 1
            st.bump("fold_after_blank")
            got = None
            if ic is not None:
                try:
                    zz = ic.get(tzid)
                    got = None if zz is None else [c.tzname for c in zz._comps]
                except Exception as ex:
                    got = [P.exc_code(ex)]
            want = [spaced["dst"]["name"], spaced["name"]]
            if got != want:
                verdict.violation({"kind": "a TZID / TZNAME folded right after a blank loses the blank: get(tzid) "
                                           "does not find the zone or its names differ",
                                   "input": {"text": text, "tzid": tzid}, "impl": got if ic is not None else status,
                                   "want": want, "keys": None if ic is None else ic.keys()})
                continue
            mv = dec_structure(o.call(P.E_ICAL_PARSE, enc_lines(text.splitlines())))
            if mv != [0, impl_structure(ic)]:
                st.model_diff += 1
                verdict.violation({"kind": "correspondence: _parse_rfc differs from the model",
                                   "input": {"text": text}, "impl": impl_structure(ic), "model": mv}, concrete=False)
        # empty stream
        for text in ("", "\r\n", "BEGIN:VCALENDAR\r\nEND:VCALENDAR\r\n"):
            ic, status = build_ical(text)
            mv = dec_structure(o.call(P.E_ICAL_PARSE, enc_lines(text.splitlines())))
            iv = [0, impl_structure(ic)] if ic is not None else status
            st.evals += 1
            if iv != mv:
                verdict.violation({"kind": "correspondence: _parse_rfc differs from the model",
                                   "input": {"text": text}, "impl": iv, "model": mv}, concrete=False)
        # _parse_offset
        offs = ["+0500", "-0500", "0500", "+053015", "-000001", "", " ", "+5", "+05", "+05000", "+05:00", " +0530 ",
                "+ 530", "+1_00", "+-500", "++0500", "+0a00", "-2359", "+9999", "\t-0130\n", "+00000 ", "0", "+"]
        for s in offs + ["%s%02d%02d" % (rng.choice("+- "), rng.randrange(30), rng.randrange(70))
                         for _ in range(60)]:
            try:
                iv = [0, tz.tzical.__new__(tz.tzical)._parse_offset(s)]
            except Exception as ex:
                iv = [P.exc_code(ex)]
            mv = o.call(P.E_ICAL_OFFSET, [ord(c) for c in s])
            st.evals += 1
            if iv != mv:
                st.model_diff += 1
                verdict.violation({"kind": "correspondence: _parse_offset differs from the model",
                                   "input": {"s": s}, "impl": iv, "model": mv}, concrete=False)
        o.close()
        # ---- coverage floors: a stream that ran (nearly) empty is a failure of the check, not a pass
        floors = {"zones": 30 if tier == "quick" else 1000, "in_guard": 20, "form_rrule": 8, "form_rdate": 8,
                  "folded": 5, "cache_sequences": 5, "thread_forced_interleaving_zones": 3,
                  "std_offset_change_zones": 2, "parse_wellformed_ok": 50, "parse_missing_tzid_1": 5,
                  "parse_missing_dtstart_1": 5, "parse_missing_offset_1": 5, "fold_after_blank": 3,
                  "negative_saving_zones": 2, "multi_zone_files": 8,
                  "parse_multi_later_block_missing_tzid_1": 8}
        short = {k: (st.hist.get(k, 0), v) for k, v in floors.items() if st.hist.get(k, 0) < v}
        if short:
            verdict.violation({"kind": "coverage floor not reached (stream ran empty or was cut too early)",
                               "input": None, "short": short}, concrete=False)
    if not props["ok"] and not verdict.violations:
        verdict.violation({"kind": "broken proof obligation", "theorem_file": "coq/props/C17.v",
                           "theorems": props["theorems"], "discharged": props["discharged"], "input": None,
                           "translator": gen_msgs[:10],
                           "log_tail": (props["log"] or "")[-3000:]}, concrete=False)
    verdict.violations.sort(key=lambda pc: 0 if pc[1] else 1)   # concrete failing inputs first
    rc = verdict.finish()
    if os.environ.get("VERIF_DEBUG"):
        kinds = {}
        for pl, _c in verdict.violations:
            kinds.setdefault(pl["kind"], []).append(pl)
        for kk, v in kinds.items():
            print("DEBUG", len(v), kk)
            for pl in v[:int(os.environ.get("VERIF_DEBUG"))]:
                print("    ", json.dumps(pl, default=str)[:2500])
    cov = {
        "evaluations": st.evals,
        "distinct_nontrivial": len(st.distinct),
        "rule": "distinct generated VTIMEZONE texts with one DAYLIGHT and one STANDARD component, each observed "
                "at the transitions of the query years +-{0,1 s,30 min}, a grid, and around/before the first onset",
        "samples": st.samples[:10],
        "input_distribution": st.hist,
        "model_vs_impl_disagreements": st.model_diff,
        "spec_vs_impl_disagreements": st.spec_diff,
        "exhaustive": False,
        "time_budget": budget,
        "traces_validated_against_impl": getattr(st, "traces", 0),
        "partial_theorems": [t for t in props["theorems"] if t.endswith("_partial")],
        "differential_only": ["RRULE text -> onset list: proved for Mm.w.d rules with 0 <= time < 24 h by the link area "
                              "(C17_rrule_* theorems appended to props/C17.v); differential only for the Jn / n "
                              "forms (BYMONTHDAY / BYYEARDAY), the RDATE form and rule times outside 0..24 h",
                              "tzical._parse_rfc text handling other than the translated pieces (str.splitlines, "
                              "unfolding loop, state machine are hand-modelled, not regenerated)", "non-ASCII text"],
        "regenerated_from_source": ["_tzicalvtz._find_compdt / utcoffset / dst / tzname", "tzical._parse_offset",
                                    "lock discipline of _tzicalvtz._find_comp", "rrulestr(compatible=True) flag",
                                    "_find_comp component selection (single / latest onset / first STANDARD)",
                                    "_find_comp cache regions (index lookup on the parallel lists; insert(0) + "
                                    "pop() beyond 10)"],
        "known_findings_hit": verdict.known_hits,
    }
    C.write_evidence(CID, tier, t0, props, cov,
                     ["CPython datetime arithmetic modelled as integer seconds (coq/posix/PTime.v)",
                      "rrulestr/rrule (recurrence lines -> onsets) not modelled here: the model receives the "
                      "onset lists computed from the POSIX specification",
                      "str.splitlines / io.StringIO", "ASCII alphabet"],
                     len(verdict.violations))
    print("C17 %s: obligations %d/%d, %d evaluations, model-diff %d, spec-diff %d, %.1fs" % (
        tier, props["discharged"], props["obligations"], st.evals, st.model_diff, st.spec_diff,
        time.time() - t0))
    return rc


if __name__ == "__main__":
    sys.exit(main())
