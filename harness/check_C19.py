#!/usr/bin/env python3
"""C19 -- easter(): regenerated model (translator) + theorems + exhaustive correspondence."""
import json
import os
import sys
import time

sys.path.insert(0, os.path.dirname(os.path.abspath(__file__)))
import common as C

C.reexec_under_impl_python()

CID = "C19"
M_MODEL, M_SPEC, M_DEFAULT = 0, 1, 2
# .vo files this check needs (relative to coq/): its props file and what the extraction imports
VO = ["props/C19.vo", "gen/EasterGen.vo", "easter/EasterSpec.vo"]


def impl(year, method):
    from dateutil import easter
    try:
        d = easter.easter(year, method)
        return [1, d.year, d.month, d.day]
    except ValueError:
        return [0]
    except Exception as ex:  # any other class is an observable difference
        return ["EXC", type(ex).__name__]


def in_domain(y, m):
    if m in (2, 3):
        return 1583 <= y <= 4099
    if m == 1:
        return 326 <= y <= 9999
    return True  # invalid methods: ValueError for every year


def cases(tier):
    years = range(1, 10000)
    out = [(y, m) for m in (1, 2, 3) for y in years]
    bad_methods = [0, 4, -1, 5, 100, -100] if tier == "quick" else list(range(-20, 1)) + list(range(4, 25))
    ys = [1, 325, 326, 1582, 1583, 1600, 1601, 1999, 2000, 2024, 4099, 4100, 9999]
    if tier == "thorough":
        ys = list(range(1, 10000, 7))
    out += [(y, m) for m in bad_methods for y in ys]
    return out


def replay(path):
    data = json.load(open(path))
    C.ensure_built(["easter"], VO)
    o = C.Oracle("easter")
    inp = data.get("input")
    if isinstance(inp, dict) and "year" in inp:
        y, m = inp["year"], inp["method"]
        print("input     year=%d method=%d" % (y, m))
        print("impl      ", impl(y, m))
        print("model     ", o.call(M_MODEL, [y, m]))
        print("spec      ", o.call(M_SPEC, [y, m]))
    else:
        print("replay names a broken obligation, no concrete input:", json.dumps(data, indent=1)[:2000])
    o.close()
    return 0


def main():
    argv = sys.argv[1:]
    if "--replay" in argv:
        return replay(argv[argv.index("--replay") + 1])
    tier = C.tier_from_argv(argv)
    t0 = time.time()
    verdict = C.Verdict(CID)
    build_ok, build_log, build_err = True, "", None
    try:
        build_ok, build_log = C.ensure_built(["easter"], VO)
    except C.BuildError as ex:
        build_err = ex
    if build_err is not None:
        # translator rejected the source or the model no longer builds: the theorems are not
        # re-checked.  Search for a failing input with the previous spec oracle if one exists.
        props = {"obligations": 5, "discharged": 0, "theorems": [], "assumptions": {},
                 "cmd": "coqc props/C19.v", "log": build_err.log, "ok": False}
    else:
        props = C.compile_props(CID)

    # ---- correspondence (exhaustive) + search with the executable spec as oracle
    cs = cases(tier)
    impl_res = [impl(y, m) for (y, m) in cs]
    have_oracle = os.path.exists(os.path.join(C.BIN, "oracle_easter"))
    model_res = spec_res = None
    if have_oracle:
        try:
            o = C.Oracle("easter")
            if build_err is None:
                model_res = o.call_many([(M_MODEL, [y, m]) for (y, m) in cs])
            spec_res = o.call_many([(M_SPEC, [y, m]) for (y, m) in cs])
            default_method = o.call(M_DEFAULT, []) if build_err is None else None
            o.close()
        except Exception as ex:
            have_oracle = False
            build_log += "\noracle failure: %r" % (ex,)
            # never pass on the proofs alone: without the oracle the correspondence did not run
            verdict.violation({"kind": "machinery failure: the extracted oracle could not be run",
                               "input": None, "error": repr(ex)}, concrete=False)
    n_model_diff = n_spec_diff = 0
    samples = []
    hist = {"julian": 0, "orthodox": 0, "western": 0, "invalid_method": 0, "out_of_documented_range": 0}
    for k, (y, m) in enumerate(cs):
        name = {1: "julian", 2: "orthodox", 3: "western"}.get(m, "invalid_method")
        if in_domain(y, m):
            hist[name] += 1
        else:
            hist["out_of_documented_range"] += 1
        if spec_res is not None and in_domain(y, m) and impl_res[k] != spec_res[k]:
            n_spec_diff += 1
            verdict.violation({"kind": "implementation differs from the executable specification",
                               "input": {"year": y, "method": m}, "impl": impl_res[k], "spec": spec_res[k]})
        elif model_res is not None and impl_res[k] != model_res[k]:
            n_model_diff += 1
            verdict.violation({"kind": "correspondence: regenerated model differs from implementation "
                                       "(translator or model glue no longer faithful)",
                               "input": {"year": y, "method": m}, "impl": impl_res[k], "model": model_res[k]},
                              concrete=False)
        if k % 2999 == 0 and model_res is not None:
            samples.append({"year": y, "method": m, "impl": impl_res[k], "model": model_res[k],
                            "spec": spec_res[k]})
    # method values that are not integers are outside the Z-typed model: the property text
    # ("any other method value raises ValueError") is checked on the implementation directly
    n_nonint = 0
    for bad in (2.5, 1.5, 0.5, 3.5, float("nan"), float("inf"), None, "3", "western", (3,), [1], 10**30, -10**30):
        for y in (1583, 2024, 4099):
            n_nonint += 1
            try:
                from dateutil import easter as _E
                r = _E.easter(y, bad)
                verdict.violation({"kind": "invalid method value accepted", "input": {"year": y, "method": repr(bad)},
                                   "impl": [r.year, r.month, r.day]})
            except ValueError:
                pass
            except Exception as ex:
                verdict.violation({"kind": "invalid method value raises %s, not ValueError" % type(ex).__name__,
                                   "input": {"year": y, "method": repr(bad)}})
    # integer-valued non-int spellings must behave like the integer
    for good, m in ((True, 1), (2.0, 2), (3.0, 3)):
        if impl(2024, good) != impl(2024, m):
            verdict.violation({"kind": "integer-valued method spelling differs", "input": {"year": 2024, "method": repr(good)}})

    # default method (glue around the core)
    if build_err is None and have_oracle:
        import inspect
        from dateutil import easter as E
        dflt = inspect.signature(E.easter).parameters["method"].default
        if [dflt] != default_method:
            verdict.violation({"kind": "default method differs", "input": {"default": dflt},
                               "model": default_method}, concrete=False)
        if impl(2024, dflt) != impl(2024, 3):
            verdict.violation({"kind": "default method is not the western method",
                               "input": {"year": 2024, "method": dflt}, "impl": impl(2024, dflt)})

    if not props["ok"] and not verdict.violations:
        # the property is no longer shown to hold, and no concrete failing input exists in the
        # (exhaustively enumerated) documented domain
        verdict.violation({"kind": "broken proof obligation", "theorem_file": "coq/props/C19.v",
                           "theorems": props["theorems"], "discharged": props["discharged"],
                           "input": None, "log_tail": props["log"][-3000:]}, concrete=False)

    # shared calendar model vs CPython datetime (weekday / validity used by the theorems)
    import cal_corr
    try:
        calres = cal_corr.run(full=(tier == "thorough"))
    except Exception as ex:
        calres = {"error": repr(ex), "disagreements": [("could not run", repr(ex))]}
    if calres["disagreements"]:
        verdict.violation({"kind": "correspondence: coq/base/Cal.v differs from CPython datetime/calendar",
                           "input": {"first": calres["disagreements"][0]}}, concrete=False)

    rc = verdict.finish()
    cov = {
        "calendar_model_correspondence": calres,
        "evaluations": len(cs),
        "distinct_nontrivial": sum(1 for k, (y, m) in enumerate(cs) if in_domain(y, m) and m in (1, 2, 3)),
        "rule": "every year 1..9999 x methods 1,2,3 plus invalid methods on boundary years; a case is "
                "non-trivial when it lies in the documented validity range of a valid method "
                "(each (year, method) pair is distinct by construction)",
        "exhaustive": True,
        "samples": samples[:12],
        "input_distribution": hist,
        "non_integer_method_values_checked_on_impl_only": n_nonint,
        "model_vs_impl_disagreements": n_model_diff,
        "spec_vs_impl_disagreements_in_domain": n_spec_diff,
        "model_tie": "model regenerated from /repo/src/dateutil/easter.py by harness/gen_easter.py on this run; "
                     "theorems re-checked against it; exhaustive model/impl comparison validates the translator",
        "known_findings_hit": verdict.known_hits,
    }
    C.write_evidence(CID, tier, t0, props, cov,
                     ["CPython datetime.date validity = Cal.valid_ymd (modelled)",
                      "translator harness/gen_easter.py (fail-closed, validated by the exhaustive comparison)"],
                     len(verdict.violations))
    print("C19 %s: obligations %d/%d, %d cases, model-diff %d, spec-diff %d, %.1fs" % (
        tier, props["discharged"], props["obligations"], len(cs), n_model_diff, n_spec_diff, time.time() - t0))
    return rc


if __name__ == "__main__":
    sys.exit(main())
