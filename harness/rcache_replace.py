"""C12, replace(): `rule.replace(**kw)` must equal the constructor applied to the ORIGINAL arguments with
the named parameters changed ("returns a rule differing only in the named parameters").

Small-scope structured stream: every freq x BY-part subsets (none, each single part, curated pairs,
random subsets) x replacement kw (no argument; dtstart moved to another day-of-month / weekday / month /
time of day; interval; count; until; wkst; every BY-part added, changed and removed (None); freq), for
rules built by the constructor and for the same rules obtained from rrulestr.  Compared: the first 30
occurrences or the exception class.  The extracted model of the `_original_rule` recording
(coq/rcache/RReplace.v, oracle entries 40/41) is compared on the same cases by check_C12."""
import datetime as _dt
import itertools
import warnings

import rcache_rules as R

START = R.to_int(_dt.datetime(1997, 9, 2, 9, 0, 0))       # a Tuesday
YEARS12 = 12 * 366 * R.DAY

PARTS = {
    "bymonth": [[1, 3], [9], [12, 2, 6]],
    "bymonthday": [[1], [15, -1], [31], [28, 2]],
    "byyearday": [[1, 100], [-1], [200, 60]],
    "byweekno": [[1], [20, -1]],
    "byweekday": [[[0, None]], [[1, None], [3, None]], [[0, 1]], [[4, -1], [2, None]], [[6, 2]]],
    "byeaster": [[0], [-2, 1]],
    "byhour": [[9], [0, 6, 12, 18], [1, 2, 3, 4]],
    "byminute": [[0], [0, 30], [10, 20, 45]],
    "bysecond": [[0], [0, 30], [15, 45, 59]],
    "bysetpos": [[1], [-1], [1, -1]],
}
PAIRS = [("bymonth", "bymonthday"), ("bymonth", "byweekday"), ("byweekday", "bysetpos"), ("byhour", "byminute"),
         ("bymonth", "byhour"), ("byweekno", "byweekday"), ("byyearday", "byhour"), ("bymonthday", "bysetpos"),
         ("byminute", "bysecond"), ("bymonth", "byeaster")]
NAMES = sorted(PARTS)


def base_rules(tier, r):
    """constructor keyword recipes (JSON-able)"""
    per_freq = []
    nvar = 1 if tier == "quick" else 3
    for freq in range(7):
        out = []
        subsets = [()] + [(p,) for p in NAMES] + (r.sample(PAIRS, 3) if tier == "quick" else PAIRS)
        for _ in range(1 if tier == "quick" else 40):
            subsets.append(tuple(sorted(r.sample(NAMES, r.randint(2, 4)))))
        for sub in subsets:
            for _v in range(nvar):
                kw = {"freq": freq, "dtstart": START, "count": 8, "until": START + YEARS12,
                      "interval": r.choice([1, 1, 2, 3, 4])}
                if r.random() < 0.3:
                    kw["wkst"] = r.randint(0, 6)
                if r.random() < 0.25:
                    kw["dtstart"] = START + r.choice([R.DAY * 5 + 3600 * 3 + 61, -R.DAY * 40 + 1800, R.DAY * 200])
                    kw["until"] = kw["dtstart"] + YEARS12
                for p in sub:
                    kw[p] = r.choice(PARTS[p])
                out.append(kw)
        # the bysetpos=() corner (C12_replace_setpos_empty): recorded as absent, rebuilt as None -- the theorem
        # says the rule differs in the attribute _bysetpos only; the occurrences are compared here
        for extra in ({}, {"byweekday": [[0, None], [3, None]]}, {"bymonthday": [15, -1]}):
            kw = {"freq": freq, "dtstart": START, "count": 8, "until": START + YEARS12, "interval": 1,
                  "bysetpos": []}
            kw.update(extra)
            out.insert(1 + len(extra), kw)
        per_freq.append(out)
    # interleave the frequencies so that a time budget cuts every freq equally
    mixed = []
    for j in range(max(len(x) for x in per_freq)):
        for x in per_freq:
            if j < len(x):
                mixed.append(x[j])
    return mixed


def replacements(kw, tier, r):
    """the keyword sets tried on one rule"""
    s = kw["dtstart"]
    ch = [{},
          {"dtstart": s + 13 * R.DAY},                          # other day of month, other weekday
          {"dtstart": s + 33 * R.DAY + 3600 + 5 * 60 + 7},      # other month, day, weekday, time
          {"dtstart": s + 3600 + 7 * 60 + 11},                  # other time of day only
          {"dtstart": s - 7 * R.DAY},                           # same weekday, other day of month
          {"interval": kw["interval"] % 4 + 1},
          {"interval": 6},
          {"count": 3},
          {"count": None},
          {"until": s + 2 * 366 * R.DAY},
          {"wkst": (kw.get("wkst") or 0) + 1 if (kw.get("wkst") or 0) < 6 else 0},
          {"wkst": 6}]
    freqs = [f for f in range(7) if f != kw["freq"]]
    for f in (freqs if tier == "thorough" else r.sample(freqs, 3)):
        ch.append({"freq": f})
    for p in NAMES:
        if p in kw:
            ch.append({p: None})
            alt = [v for v in PARTS[p] if v != kw[p]]
            ch.append({p: r.choice(alt)})
        elif tier == "thorough" or r.random() < 0.5:
            ch.append({p: r.choice(PARTS[p])})
    # two parameters at once
    ch.append({"dtstart": s + 40 * R.DAY + 7200, "interval": 2})
    ch.append({"freq": r.choice(freqs), "dtstart": s + 13 * R.DAY})
    return ch


def has_empty(kw):
    """an empty tuple argument cannot be written as RFC text"""
    return any(isinstance(v, list) and not v for v in kw.values())


def render_rfc(kw):
    """the same rule as RFC 5545 text (for rrulestr)"""
    from dateutil import rrule as rr
    d = R.to_dt(kw["dtstart"])
    parts = ["FREQ=" + rr.FREQNAMES[kw["freq"]]]
    if kw.get("interval", 1) != 1:
        parts.append("INTERVAL=%d" % kw["interval"])
    if kw.get("wkst") is not None:
        parts.append("WKST=" + ["MO", "TU", "WE", "TH", "FR", "SA", "SU"][kw["wkst"]])
    if kw.get("count") is not None:
        parts.append("COUNT=%d" % kw["count"])
    if kw.get("until") is not None:
        parts.append("UNTIL=" + R.to_dt(kw["until"]).strftime("%Y%m%dT%H%M%S"))
    names = {"bysetpos": "BYSETPOS", "bymonth": "BYMONTH", "bymonthday": "BYMONTHDAY", "byyearday": "BYYEARDAY",
             "byweekno": "BYWEEKNO", "byhour": "BYHOUR", "byminute": "BYMINUTE", "bysecond": "BYSECOND",
             "byeaster": "BYEASTER"}
    for k, nme in names.items():
        if kw.get(k) is not None:
            parts.append(nme + "=" + ",".join(str(v) for v in kw[k]))
    if kw.get("byweekday") is not None:
        days = ["MO", "TU", "WE", "TH", "FR", "SA", "SU"]
        parts.append("BYDAY=" + ",".join(("%+d" % n if n else "") + days[w] for (w, n) in kw["byweekday"]))
    return "DTSTART:" + d.strftime("%Y%m%dT%H%M%S") + "\nRRULE:" + ";".join(parts)


def listing(rule):
    return [R.to_int(x) for x in itertools.islice(rule, 30)]


def outcome(fn, limit=0.15):
    """first 30 occurrences / exception class / "SLOW" when the rule scans for more than `limit` s.
    (A cap by UNTIL/COUNT cannot bound the scan: rrule._iter tests `until` only on generated candidates,
    so a rule whose filters never match runs to year 9999 whatever UNTIL says.)"""
    try:
        with warnings.catch_warnings():
            warnings.simplefilter("ignore")
            with R.watchdog(limit):
                return listing(fn())
    except R.Timeout:
        return "SLOW"
    except Exception as ex:
        return ["EXC", type(ex).__name__]


def one_case(kw, ch, source, cache):
    """(replace result, constructor result)"""
    from dateutil import rrule as rr
    R.set_tz(None)

    def base():
        if source == "rrulestr":
            b = rr.rrulestr(render_rfc(kw), cache=cache)
        else:
            b = rr.rrule(cache=cache, **R._kw(rr, kw))
        return b

    def replaced():
        return base().replace(**R._kw(rr, ch))

    def fresh():
        merged = dict(kw)
        merged.update(ch)
        return rr.rrule(**R._kw(rr, merged))
    a, b = outcome(replaced), outcome(fresh)
    if (a == "SLOW") != (b == "SLOW"):
        # one side lists at once, the other does not: retry the slow side with a generous limit; if it still
        # does not list, that asymmetry IS the observation (never skipped)
        if a == "SLOW":
            a = outcome(replaced, 6.0)
        else:
            b = outcome(fresh, 6.0)
    return a, b


# ------------------------------------------------------------------ genuine defect classes (known findings)

def matcher_replace_nth(payload):
    """F-C12-replace-nth: byweekday with an occurrence number on a rule with freq > MONTHLY (the number is
    dropped when recording), replace(freq=YEARLY/MONTHLY)"""
    inp = payload.get("input") or {}
    if inp.get("mode") != "replace":
        return False
    kw, ch = inp["base_kw"], inp["replace"]
    if not (kw["freq"] > 1 and any(n for (_w, n) in (kw.get("byweekday") or [])) and
            ch.get("freq") is not None and ch["freq"] <= 1 and "byweekday" not in ch):
        return False
    # the RESULT must be the one the recording model (RReplace.record: plain weekdays, n forgotten) predicts:
    # the constructor applied to the original arguments with every occurrence number dropped, then kw
    from dateutil import rrule as rr
    pred_kw = dict(kw)
    pred_kw["byweekday"] = sorted(set((w, None) for (w, _n) in kw["byweekday"]))
    pred_kw["byweekday"] = [[w, None] for (w, _x) in pred_kw["byweekday"]]
    pred_kw.update(ch)
    R.set_tz(None)
    predicted = outcome(lambda: rr.rrule(**R._kw(rr, pred_kw)), 6.0)
    got = payload.get("replace_result")
    return isinstance(predicted, list) and got == predicted[:12]


def run_stream(tier, r, budget_s, on_case, on_rule=None):
    """drive the stream: on_case(kw, ch, source, cache, replaced, constructed) for every comparable case.
    Returns counters."""
    import time
    from dateutil import rrule as rr
    t0 = time.time()
    st = {"rules": 0, "cases": 0, "slow_skipped": 0, "rules_skipped_slow": 0, "by_freq": {}, "by_kw": {},
          "by_source": {"ctor": 0, "rrulestr": 0}, "stopped_by_time_budget": False}
    k = 0
    for kw in base_rules(tier, r):
        if time.time() - t0 > budget_s:
            st["stopped_by_time_budget"] = True
            break
        base_out = outcome(lambda: rr.rrule(**R._kw(rr, kw)))
        if base_out == "SLOW":
            st["rules_skipped_slow"] += 1
            continue
        if base_out[:1] == ["EXC"]:
            # the constructor rejects these arguments: there is no rule to call replace() on
            st["rules_rejected_by_constructor"] = st.get("rules_rejected_by_constructor", 0) + 1
            continue
        st["rules"] += 1
        if on_rule is not None:
            on_rule(kw)
        for ch in replacements(kw, tier, r):
            k += 1
            sources = ["ctor"] + (["rrulestr"] if ((tier == "thorough" or k % 3 == 0) and not has_empty(kw)) else [])
            for source in sources:
                cache = (k % 2 == 0)
                a, b = one_case(kw, ch, source, cache)
                if a == "SLOW" and b == "SLOW":
                    st["slow_skipped"] += 1          # both sides sparse: not comparable in the time of a check
                    continue
                if a == "SLOW" or b == "SLOW":
                    st["one_sided_slow"] = st.get("one_sided_slow", 0) + 1
                st["cases"] += 1
                if kw.get("bysetpos") == []:
                    st["bysetpos_empty_cases"] = st.get("bysetpos_empty_cases", 0) + 1
                st["by_source"][source] += 1
                f = str(kw["freq"])
                st["by_freq"][f] = st["by_freq"].get(f, 0) + 1
                key = "+".join(sorted(ch)) or "(none)"
                st["by_kw"][key] = st["by_kw"].get(key, 0) + 1
                on_case(kw, ch, source, cache, a, b)
    return st


# ------------------------------------------------------------------ the recorded dictionary vs the Coq model

KEYS = ["bysetpos", "bymonth", "bymonthday", "byyearday", "byeaster", "byweekno", "byhour", "byminute",
        "bysecond"]


def record_args(kw):
    """arguments of oracle entry 40 for the constructor recipe kw"""
    d = R.to_dt(kw["dtstart"])
    a = [kw["freq"], 0, d.year, d.month, d.day, d.hour, d.minute, d.second, kw.get("interval", 1)]
    for k in KEYS:
        v = kw.get(k)
        a += [0] if v is None else [1, len(v)] + list(v)
    v = kw.get("byweekday")
    if v is None:
        a += [0]
    else:
        a += [1, 2 * len(v)]
        for (w, n) in v:
            a += [w, n or 0]
    return a


def record_impl(kw, source="ctor"):
    """rule._original_rule in the encoding of ExtractRcache.record_entry"""
    from dateutil import rrule as rr
    R.set_tz(None)
    with warnings.catch_warnings():
        warnings.simplefilter("ignore")
        rule = rr.rrulestr(render_rfc(kw)) if source == "rrulestr" else rr.rrule(**R._kw(rr, kw))
    o = rule._original_rule
    out = []
    for k in KEYS:
        if k not in o:
            out += [0]
        elif o[k] is None:
            out += [1]
        else:
            out += [2, len(o[k])] + [int(x) for x in o[k]]
    if "byweekday" not in o:
        out += [0]
    elif o["byweekday"] is None:
        out += [1]
    else:
        out += [2, len(o["byweekday"])]
        for w in o["byweekday"]:
            out += [w.weekday, w.n or 0]
    return out
