"""Shared pieces of the generic-parser checks (C14, C15, C02): option encoding for the extracted
model (bin/oracle_parse), running the real dateutil.parser.parse under a watchdog, canonical
projection of results, string generators."""
import datetime as _dt
import os
import signal
import time as _time
import warnings

import common as C

AREA = "parse"
VO_MODEL = ["gen/ParseTables.vo", "parse/Lex.vo", "parse/Prim.vo", "parse/Ymd.vo", "parse/Parse.vo",
            "parse/Build.vo", "parse/ParseSpec.vo", "parse/ParseSpec2.vo", "parse/FuzzyThm.vo",
            "parse/ZoneThm.vo", "parse/Local.vo", "parse/Full.vo", "parse/ParseGenProps.vo"]
E_LEX, E_PARSE, E_RES, E_PARSE_LZ = 0, 1, 2, 3
E_STRICT_CLASH = 22
E_ZONE_LZ, E_TZLOCAL_RAISES = 12, 23

_MATCH_ORACLE = []


def matcher_oracle():
    """one oracle process shared by the known-finding matchers (they evaluate theorem guards on the model)"""
    if not _MATCH_ORACLE:
        _MATCH_ORACLE.append(C.Oracle(AREA))
    return _MATCH_ORACLE[0]


def model_raw(o, s):
    return matcher_oracle().call(*enc_full(o, s))


def model_strict_clash(o, s):
    r = matcher_oracle().call(E_STRICT_CLASH, enc_opts(o) + [ord(c) for c in s])
    return r == [1]

EXN_NAMES = {1: "IndexError", 2: "ValueError", 3: "OverflowError", 4: "AssertionError", 5: "TypeError",
             6: "UnboundLocalError", 7: "OutOfFuel", 8: "ValueError"}

# TZ strings / tzinfo objects a tzinfos mapping or callable may return
TZSTRS = ["EST5EDT", "UTC+3", "CET-1CEST,M3.5.0,M10.5.0/3", "BRST3"]
# TZ strings that tz.tzstr REJECTS (ValueError "unknown string format"); model ids 100.. (Full.v: `bad`)
TZSTRS_BAD = ["EST5EDT,M3.2.0,M11.1.0/99x", "EST5EDT,4,1,0,7200,10,-1,0,7200,3600 x", "1", "-3"]
BAD_TZSTR_IDS = [100 + i for i in range(len(TZSTRS_BAD))]
# tzinfos values of an unsupported type (model: TVBad)
BAD_VALUES = [1.5, b"EST5EDT", (1, 2), [3600]]


class FoldTz(_dt.tzinfo):
    """tzinfo whose tzname depends on fold (exercises parser._assign_tzname)"""

    def __init__(self, names, secs):
        self.names, self.secs = names, secs

    def utcoffset(self, dt):
        return _dt.timedelta(seconds=self.secs)

    def dst(self, dt):
        return _dt.timedelta(0)

    def tzname(self, dt):
        return self.names[getattr(dt, "fold", 0)]

    def __repr__(self):
        return "FoldTz(%r, %r)" % (self.names, self.secs)


TZOBJS = [FoldTz(("AAA", "AAA"), 3600), FoldTz(("BBB", "CCC"), -7200), FoldTz(("X", "EST"), -18000),
          FoldTz((None, "Z"), 0)]


class Timeout(BaseException):
    pass


def _on_alarm(signum, frame):
    raise Timeout()


def install_watchdog():
    signal.signal(signal.SIGALRM, _on_alarm)


# ------------------------------------------------------------------------------------ options

def default_opts():
    return {"fuzzy": False, "fwt": False, "dayfirst": None, "yearfirst": None,
            "info_dayfirst": False, "info_yearfirst": False, "ignoretz": False,
            "tzinfos": ("none",), "default": (2003, 9, 25, 0, 0, 0, 0), "cur_year": None,
            "via": "module"}


_YEAR = []


def real_year():
    """the `current year` of this run: the year the implementation's module-level parser pinned when
    dateutil.parser was imported (parserinfo._year), read ONCE; every parserinfo the harness creates is
    given the same year, so no check depends on the wall clock moving past New Year during a run"""
    if not _YEAR:
        from dateutil import parser as P
        _YEAR.append(P.DEFAULTPARSER.info._year)
    return _YEAR[0]


def enc_str(s):
    return [len(s)] + [ord(c) for c in s]


def enc_tzval(v):
    k = v[0]
    if k == "none":
        return [0, 0]
    if k == "int":
        return [1, v[1]]
    if k == "str":
        return [2, v[1]]
    if k == "obj":
        return [3, v[1]]
    return [4, 0]


def enc_tzinfos(t):
    k = t[0]
    if k == "none":
        return [0]
    if k == "dict":
        out = [1, len(t[1])]
        for name, v in t[1]:
            out += enc_str(name) + enc_tzval(v)
        return out
    if k == "call":
        out = [2, len(t[1])]
        for name, v in t[1]:
            out += [0 if name is None else 1] + enc_str(name or "") + enc_tzval(v)
        return out + enc_tzval(t[2])
    if k == "calloff":
        return [3]
    raise ValueError(t)


def kw3(v):
    return 2 if v is None else (1 if v else 0)


def enc_opts(o, nm=(1, 0)):
    cy = o["cur_year"] if o["cur_year"] is not None else real_year()
    loc = list(_time.tzname)
    out = [int(o["fuzzy"]), int(o["fwt"]), kw3(o["dayfirst"]), kw3(o["yearfirst"]),
           int(o["info_dayfirst"]), int(o["info_yearfirst"]), int(o["ignoretz"]), cy]
    out += list(o["default"]) + [int(nm[0]), int(nm[1]), len(loc)]
    for n in loc:
        out += enc_str(n)
    out += enc_tzinfos(o["tzinfos"])
    return out


def enc_call(o, s, nm=(1, 0)):
    return (E_PARSE, enc_opts(o, nm) + [ord(c) for c in s])


def dec_strs(r, i):
    n = r[i]
    i += 1
    out = []
    for _ in range(n):
        k = r[i]
        out.append("".join(map(chr, r[i + 1:i + 1 + k])))
        i += 1 + k
    return out, i


def dec_outcome(r):
    """model reply -> canonical outcome"""
    if not isinstance(r, list):
        return ("ORACLE", r)
    if r[0] == 0:
        y, mo, d, h, mi, s, us, fold, warned, zk, za, hn = r[1:13]
        k = r[13]
        name = "".join(map(chr, r[14:14 + k])) if hn else None
        toks, _ = dec_strs(r, 14 + k)
        return ("ok", (y, mo, d, h, mi, s, us), fold, warned, (zk, za, name if zk == 2 else None), tuple(toks))
    if r[0] == 1:
        return ("ParserError",)
    if r[0] == 2:
        return ("OverflowError",)
    if r[0] == 3:
        return ("escape", EXN_NAMES.get(r[1], str(r[1])))
    return ("ORACLE", r)


# ------------------------------------------------------------------------------------ implementation

def build_tzval(v, name_for_call=None):
    k = v[0]
    if k == "none":
        return None
    if k == "int":
        return v[1]
    if k == "str":
        return TZSTRS[v[1]] if v[1] < 100 else TZSTRS_BAD[v[1] - 100]
    if k == "obj":
        return TZOBJS[v[1]]
    return BAD_VALUES[v[1] if len(v) > 1 else 0]  # a value of an unsupported type (outside wf_opts)


def build_tzinfos(t):
    k = t[0]
    if k == "none":
        return None
    if k == "dict":
        return {name: build_tzval(v) for name, v in t[1]}
    if k == "call":
        tbl = {name: build_tzval(v) for name, v in t[1]}
        dv = build_tzval(t[2])
        return lambda name, off: tbl.get(name, dv) if name in tbl else dv
    if k == "calloff":
        return lambda name, off: off
    raise ValueError(t)


_INFO_CACHE = {}


def get_parser(o):
    """parser instance for the options (instances are reused: statelessness is part of C14)"""
    from dateutil import parser as P
    key = (o["info_dayfirst"], o["info_yearfirst"], o["cur_year"])
    p = _INFO_CACHE.get(key)
    if p is None:
        info = P.parserinfo(dayfirst=o["info_dayfirst"], yearfirst=o["info_yearfirst"])
        cy = o["cur_year"] if o["cur_year"] is not None else real_year()
        info._year = cy
        info._century = cy // 100 * 100
        p = P.parser(info)
        _INFO_CACHE[key] = p
    return p


def zone_proj(tzinfo):
    from dateutil import tz
    if tzinfo is None:
        return (0, 0, None)
    for i, ob in enumerate(TZOBJS):
        if tzinfo is ob:
            return (4, i, None)
    if isinstance(tzinfo, tz.tzutc):
        return (1, 0, None)
    if isinstance(tzinfo, tz.tzoffset):
        secs = tzinfo._offset.days * 86400 + tzinfo._offset.seconds
        return (2, secs, tzinfo._name)
    if isinstance(tzinfo, tz.tzlocal):
        return (3, 0, None)
    if isinstance(tzinfo, tz.tzstr):
        return (5, TZSTRS.index(tzinfo._s) if tzinfo._s in TZSTRS else -1, None)
    return (9, 0, type(tzinfo).__name__)


_NOTEXT = object()


def run_impl(o, s, timeout=30.0, text=_NOTEXT):
    """Run the real parser; returns the canonical outcome.  `text` overrides the object handed
    to parse() (bytes / stream variants)."""
    from dateutil import parser as P
    kw = {"default": _dt.datetime(*o["default"]), "ignoretz": o["ignoretz"]}
    ti = build_tzinfos(o["tzinfos"])
    if ti is not None or o["tzinfos"][0] != "none":
        kw["tzinfos"] = ti
    if o["dayfirst"] is not None:
        kw["dayfirst"] = o["dayfirst"]
    if o["yearfirst"] is not None:
        kw["yearfirst"] = o["yearfirst"]
    if o["fuzzy"]:
        kw["fuzzy"] = True
    if o["fwt"]:
        kw["fuzzy_with_tokens"] = True
    arg = s if text is _NOTEXT else text
    use_module = (o["via"] == "module" and not o["info_dayfirst"] and not o["info_yearfirst"]
                  and o["cur_year"] is None)
    warned = 0
    signal.setitimer(signal.ITIMER_REAL, timeout)
    try:
        with warnings.catch_warnings(record=True) as wl:
            warnings.simplefilter("always")
            if use_module:
                ret = P.parse(arg, **kw)
            else:
                ret = get_parser(o).parse(arg, **kw)
        signal.setitimer(signal.ITIMER_REAL, 0)
        warned = int(any(issubclass(w.category, P.UnknownTimezoneWarning) for w in wl))
    except Timeout:
        return ("TIMEOUT",)
    except P.ParserError:
        signal.setitimer(signal.ITIMER_REAL, 0)
        return ("ParserError",)
    except OverflowError:
        signal.setitimer(signal.ITIMER_REAL, 0)
        return ("OverflowError",)
    except Exception as ex:
        signal.setitimer(signal.ITIMER_REAL, 0)
        return ("escape", type(ex).__name__)
    finally:
        signal.setitimer(signal.ITIMER_REAL, 0)
    toks = ()
    if o["fwt"]:
        if not (isinstance(ret, tuple) and len(ret) == 2 and isinstance(ret[1], tuple)):
            return ("BADSHAPE", repr(type(ret)))
        ret, toks = ret
        if not all(isinstance(t, str) for t in toks):
            return ("BADSHAPE", "tokens")
    if not isinstance(ret, _dt.datetime):
        return ("BADSHAPE", repr(type(ret)))
    return ("ok", (ret.year, ret.month, ret.day, ret.hour, ret.minute, ret.second, ret.microsecond),
            ret.fold, warned, zone_proj(ret.tzinfo), tuple(toks))


def allowed_outcome(out):
    """the C14 predicate on an implementation outcome"""
    return out[0] in ("ok", "ParserError", "OverflowError")


def zone_object(zk, za):
    from dateutil import tz
    if zk == 3:
        return tz.tzlocal()
    if zk == 4:
        return TZOBJS[za]
    if zk == 5:
        return tz.tzstr(TZSTRS[za])
    return None


def local_dst_saved():
    """tzlocal._dst_saved in seconds, from the time module (0 = no daylight saving time)"""
    return (_time.timezone - _time.altzone) if _time.daylight else 0


def local_naive_dst(dt7):
    """tzlocal._naive_is_dst of the wall time: the platform's tm_isdst of the wall time read as standard time"""
    import calendar
    ts = calendar.timegm(tuple(dt7[:6]) + (0, 0, 0))
    try:
        return bool(_time.localtime(ts + _time.timezone).tm_isdst)
    except (OverflowError, OSError, ValueError):
        return False


def local_zone_args(dt7):
    """the two leading arguments of the parse_lz / tzlocal_raises oracle entries (Local.v: localz)"""
    return [local_dst_saved(), int(local_naive_dst(dt7))]


def tzlocal_range_hit(o, s, tzname, expected_dt=None):
    """guard complement of F-C02-tzlocal-range / F-C15-tzlocal-range, evaluated on the model under the
    process time zone `tzname`: the text resolves to the local zone (probe: first oracle bit set =>
    ZLocal, Local.local_branch_probe) AND Local.tzlocal_raises holds at the naive result (which must be
    `expected_dt` when given)"""
    prev = os.environ.get("TZ")
    set_tz(tzname)
    try:
        probe = dec_outcome(model_raw(o, s))
        if not (probe[0] == "ok" and probe[4][0] == 3):
            return False
        if expected_dt is not None and list(probe[1]) != list(expected_dt):
            return False
        r = matcher_oracle().call(E_TZLOCAL_RAISES, local_zone_args(probe[1]) + list(probe[1]))
        return r == [1]
    finally:
        set_tz(prev if prev else "UTC")


def local_tzname_bits(dt7, tzname):
    """the two `tzname() == name` bits of the LOCAL zone at wall time dt7 (fold 0 / fold 1), computed
    from the `time` module only (time.tzname, time.timezone, time.altzone, time.localtime) by the
    documented rule of tz.tzlocal: standard/daylight by the platform's tm_isdst of the wall time read as
    standard time; a wall time that is standard but whose (wall - dst_saved) is daylight is ambiguous and
    then fold 0 is daylight, fold 1 standard.  Not computed with dateutil."""
    import calendar
    ds = local_dst_saved()
    if ds == 0:
        name0 = name1 = _time.tzname[0]
    else:
        ts = calendar.timegm(tuple(dt7[:6]) + (0, 0, 0))

        def nd(t):
            return bool(_time.localtime(t + _time.timezone).tm_isdst)
        d0 = nd(ts)
        amb = (not d0) and (d0 != nd(ts - ds))
        if amb:
            name0, name1 = _time.tzname[1], _time.tzname[0]
        else:
            name0 = name1 = _time.tzname[1 if d0 else 0]
    return name0 == tzname, name1 == tzname


def enc_full(o, s, lz=(0, 0), nm=(1, 0)):
    """oracle entry 3: parse_full (Full.v) = parse with the failing local zone, tzinfos values of an unsupported
    type and TZ strings that tz.tzstr rejects"""
    return (E_PARSE_LZ, list(lz) + [len(BAD_TZSTR_IDS)] + BAD_TZSTR_IDS + enc_opts(o, nm) + [ord(c) for c in s])


def run_model(oracle, cases):
    """cases: list of (opts, string).  Two passes over the FULL model (parse_full): zones whose tzname() is
    consulted by _assign_tzname get the two oracle bits at the model's own naive result, then the model is
    re-run.  Local zone: bits and failure inputs come from the `time` module; user tzinfo objects and valid
    TZ strings: from the object handed to parse() (their behaviour is an input of the property).  Nothing is
    caught here: an object whose tzname() raises is a harness error and stops the check."""
    first = oracle.call_many([enc_full(o, s) for (o, s) in cases])
    outs = [dec_outcome(r) for r in first]
    redo = []
    for k, out in enumerate(outs):
        if out[0] == "ok" and out[4][0] in (3, 4, 5):
            redo.append(k)
    if redo:
        names = oracle.call_many([(E_RES, enc_opts(cases[k][0]) + [ord(c) for c in cases[k][1]]) for k in redo])
        reqs = []
        for k, nr in zip(redo, names):
            out = outs[k]
            tzname = None
            if isinstance(nr, list) and nr and nr[0] == 1 and nr[1] == 1:
                tzname = "".join(map(chr, nr[3:3 + nr[2]]))
            if out[4][0] == 3:
                nm0, nm1 = local_tzname_bits(out[1], tzname)
                reqs.append(enc_full(cases[k][0], cases[k][1], local_zone_args(out[1]), (nm0, nm1)))
            else:
                zo = zone_object(out[4][0], out[4][1])
                dtv = _dt.datetime(*out[1], tzinfo=zo)
                nm0 = dtv.tzname() == tzname
                nm1 = dtv.replace(fold=1).tzname() == tzname
                reqs.append(enc_full(cases[k][0], cases[k][1], (0, 0), (nm0, nm1)))
        second = oracle.call_many(reqs)
        for k, r in zip(redo, second):
            outs[k] = dec_outcome(r)
    return outs


def same_outcome(a, b, fwt):
    if a[0] != b[0]:
        return False
    if a[0] == "ok":
        if a[1:5] != b[1:5]:
            return False
        return (not fwt) or a[5] == b[5]
    return a == b


def table_codepoints():
    """the non-ASCII code points of coq/gen/ParseTables.v: tbl_chars (the model's alphabet beyond ASCII)"""
    import re
    src = open(os.path.join(C.COQ, "gen", "ParseTables.v")).read()
    body = src[src.index("Definition tbl_chars"):]
    body = body[:body.index("].") + 2]
    return [int(x) for x in re.findall(r"\((\d+), \(\(", body)]


# ------------------------------------------------------------------------------------ generators

MONTHS = ["Jan", "January", "Feb", "February", "Mar", "March", "Apr", "April", "May", "Jun", "June", "Jul",
          "July", "Aug", "August", "Sep", "Sept", "September", "Oct", "October", "Nov", "November", "Dec",
          "December"]
WEEKDAYS = ["Mon", "Monday", "Tue", "Tuesday", "Wed", "Wednesday", "Thu", "Thursday", "Fri", "Friday",
            "Sat", "Saturday", "Sun", "Sunday"]
WORDS = (["am", "pm", "a", "p", "AM", "PM", "h", "m", "s", "hour", "hours", "minute", "minutes", "second",
          "seconds", "at", "on", "and", "ad", "of", "st", "nd", "rd", "th", "T", "t", "UTC", "GMT", "Z", "z",
          "EST", "EDT", "BRST", "CEST", "AAA", "BBB", "CCC", "X", "ABCDEF", "utc", "Of", "OF", "inf", "nan",
          "infinity", "Inf", "NaN", "INFINITY", "snan", "e", "E", "e5", "x", "foo", "Today", "is", "the"])
SEPS = [" ", " ", " ", "-", "/", ".", ",", ":", ":", "+", "-", "(", ")", ";", "'", "  ", "\t", "\n", "T"]
ODD = ["\x00", "_", "*", "=", "é", "٣", "١٢", "１２", "²", "①", "½",
       " ", " ", "　", " ", "​", "K", "İ", "ſ", "中", "Д",
       "：", "．", "−", "\U0001d7ce", "\U0001d400", "ª", "१", "́", "1e5", "1E5",
       "1_0", "0x10", "\x1c", "\x0b", "\u0085"]
DIGLENS = [1, 1, 2, 2, 2, 2, 3, 4, 4, 4, 5, 6, 6, 7, 8, 8, 9, 10, 11, 12, 12, 13, 14, 14, 15, 16, 20, 27, 28, 29,
           30, 31, 40]


def gen_digits(r, n=None):
    if n is None:
        c = r.random()
        if c < 0.93:
            n = r.choice(DIGLENS)
        elif c < 0.997:
            n = r.randint(300, 420)
        else:
            n = r.choice([4299, 4300, 4301, 4310])
    c = r.random()
    if c < 0.15:
        return "0" * n
    if c < 0.3:
        return "9" * n
    if c < 0.4:
        return "0" * (n - 1) + "1"
    if c < 0.5:
        return r.choice("123456789") * n
    return "".join(r.choice("0123456789") for _ in range(n))


def gen_small_number(r):
    c = r.random()
    if c < 0.6:
        return str(r.choice([0, 1, 2, 9, 10, 11, 12, 13, 23, 24, 25, 28, 29, 30, 31, 32, 59, 60, 61, 99, 100, 101]))
    if c < 0.8:
        return "%02d" % r.randint(0, 99)
    return str(r.choice([1900, 1999, 2000, 2003, 2024, 9999, 10000, 0, 1, 999, 1000, 2147483647, 2147483648]))


def gen_atom(r):
    c = r.random()
    if c < 0.30:
        return gen_small_number(r)
    if c < 0.42:
        return gen_digits(r)
    if c < 0.50:
        return r.choice(MONTHS)
    if c < 0.55:
        return r.choice(WEEKDAYS)
    if c < 0.70:
        return r.choice(WORDS)
    if c < 0.94:
        return r.choice(SEPS)
    return r.choice(ODD)


def gen_fuzz(r):
    n = r.choice([1, 1, 2, 2, 3, 3, 4, 5, 6, 7, 8, 9, 11, 13, 16])
    parts = []
    for _ in range(n):
        parts.append(gen_atom(r))
        if r.random() < 0.55:
            parts.append(r.choice(SEPS))
    s = "".join(parts)
    if r.random() < 0.1:
        s = s.lower() if r.random() < 0.5 else s.upper()
    return s


def gen_dt(r):
    yb = [1, 2, 99, 100, 999, 1000, 1582, 1600, 1900, 1969, 1970, 1999, 2000, 2001, 2004, 2024, 2037, 2038,
          2100, 9998, 9999]
    y = r.choice(yb) if r.random() < 0.5 else r.randint(1, 9999)
    mo = r.randint(1, 12)
    import calendar
    ml = calendar.monthrange(y if y >= 1 else 2000, mo)[1]
    d = r.choice([1, 2, 9, 10, 12, 13, 28, ml, ml]) if r.random() < 0.6 else r.randint(1, ml)
    d = min(d, ml)
    h = r.choice([0, 1, 9, 10, 11, 12, 13, 23]) if r.random() < 0.6 else r.randint(0, 23)
    mi = r.choice([0, 1, 9, 10, 30, 59]) if r.random() < 0.5 else r.randint(0, 59)
    s = r.choice([0, 1, 9, 10, 30, 59]) if r.random() < 0.5 else r.randint(0, 59)
    us = r.choice([0, 1, 10, 100, 1000, 100000, 500000, 999999, 123456]) if r.random() < 0.6 else r.randint(0, 999999)
    return (y, mo, d, h, mi, s, us)


MON3 = ["Jan", "Feb", "Mar", "Apr", "May", "Jun", "Jul", "Aug", "Sep", "Oct", "Nov", "Dec"]
MONFULL = ["January", "February", "March", "April", "May", "June", "July", "August", "September", "October",
           "November", "December"]
WD3 = ["Mon", "Tue", "Wed", "Thu", "Fri", "Sat", "Sun"]


def render_some(r, dt):
    """a valid rendering of dt in one of many supported formats (used as mutation seed)"""
    y, mo, d, h, mi, s, us = dt
    wd = WD3[_dt.date(y, mo, d).weekday()]
    h12 = h % 12 or 12
    ap = "AM" if h < 12 else "PM"
    offs = ["", "", "Z", " UTC", "+0000", "-03:00", "+05:30", "-0800", "+01", " EST", " GMT+3", " -0300 (BRST)",
            " UTC-5", " BRST+3", " GMT-0"]
    off = r.choice(offs)
    forms = [
        "%04d-%02d-%02dT%02d:%02d:%02d" % (y, mo, d, h, mi, s) + off,
        "%04d-%02d-%02d %02d:%02d:%02d.%06d" % (y, mo, d, h, mi, s, us) + off,
        "%04d-%02d-%02d %02d:%02d:%02d,%03d" % (y, mo, d, h, mi, s, us // 1000) + off,
        "%04d%02d%02dT%02d%02d%02d" % (y, mo, d, h, mi, s) + off,
        "%04d%02d%02d%02d%02d%02d" % (y, mo, d, h, mi, s),
        "%04d%02d%02d%02d%02d" % (y, mo, d, h, mi),
        "%04d%02d%02d" % (y, mo, d),
        "%04d%02d%02dT%02d%02d" % (y, mo, d, h, mi),
        "%s %s %2d %02d:%02d:%02d %04d" % (wd, MON3[mo - 1], d, h, mi, s, y),
        "%s, %02d %s %04d %02d:%02d:%02d %s" % (wd, d, MON3[mo - 1], y, h, mi, s, r.choice(["+0000", "-0300", "GMT"])),
        "%s %d, %04d %d:%02d %s" % (MON3[mo - 1], d, y, h12, mi, ap),
        "%s %d, %04d %d:%02d%s" % (MONFULL[mo - 1], d, y, h12, mi, ap.lower()),
        "%d %s %04d" % (d, MON3[mo - 1], y),
        "%02d/%02d/%04d" % (mo, d, y),
        "%02d.%02d.%04d" % (d, mo, y),
        "%04d/%02d/%02d" % (y, mo, d),
        "%02d-%02d-%02d" % (y % 100, mo, d),
        "%dh%02dm%02ds" % (h, mi, s),
        "%d h %d m %d.%03d s" % (h, mi, s, us // 1000),
        "%02d:%02d" % (h, mi),
        "%d %s" % (h12, ap.lower()),
        "%s %d" % (MONFULL[mo - 1], d),
        "%s of %02d" % (MON3[mo - 1], y % 100),
        "%s-%02d-%02d" % (MON3[mo - 1], d, y % 100),
        "%d%s of %s %04d at %d:%02d%s" % (d, "th", MONFULL[mo - 1], y, h12, mi, ap),
        "%s %s" % (wd, "%02d:%02d" % (h, mi)),
        "%02d%02d%02d" % (y % 100, mo, d),
        "%02d:%02d:%02d.%d" % (h, mi, s, us),
        "10.5h", "%d.%dm" % (mi, us % 100),
    ]
    return r.choice(forms)


EDIT_CHARS = list("0123456789 -/.,:+TZapmAPM()") + ["\x00", "٣", "inf", "nan", "  ", "1" * 30, "am", "pm"]


def mutate(r, s):
    if not s:
        return r.choice(EDIT_CHARS)
    k = r.randrange(len(s) + 1)
    c = r.random()
    if c < 0.3:
        return s[:k] + r.choice(EDIT_CHARS) + s[k:]
    if c < 0.6 and k < len(s):
        return s[:k] + s[k + 1:]
    if c < 0.9 and k < len(s):
        return s[:k] + r.choice(EDIT_CHARS) + s[k + 1:]
    j = r.randrange(len(s) + 1)
    a, b = min(j, k), max(j, k)
    return s[:a] + s[b:] + s[a:b]


TZINFOS_CHOICES = [
    ("none",), ("none",), ("none",), ("none",),
    ("dict", [("BRST", ("int", -10800)), ("EST", ("str", 0)), ("AAA", ("obj", 0)), ("BBB", ("obj", 1)),
              ("CCC", ("obj", 1)), ("CEST", ("none",)), ("X", ("obj", 2))]),
    ("dict", [("EST", ("int", -18000)), ("UTC", ("int", 3600)), ("Z", ("obj", 3)), ("GMT", ("str", 1))]),
    ("call", [("BRST", ("int", -7200)), (None, ("int", 60)), ("EST", ("obj", 2)), ("CCC", ("obj", 1))], ("none",)),
    ("call", [("UTC", ("str", 2))], ("int", 86399)),
    ("calloff",),
]


# option sets OUTSIDE DESIGN's wf_opts: values of an unsupported type, TZ strings tz.tzstr rejects
TZINFOS_BAD_CHOICES = [
    ("dict", [("BRST", ("bad", 0)), ("EST", ("str", 100)), ("UTC", ("bad", 1)), ("AAA", ("obj", 0))]),
    ("dict", [("EST", ("str", 101)), ("GMT", ("str", 102)), ("BRST", ("int", -10800)), ("Z", ("bad", 2))]),
    ("call", [("BRST", ("bad", 3)), ("EST", ("str", 103)), ("CCC", ("obj", 1))], ("none",)),
    ("call", [("UTC", ("int", 0))], ("bad", 0)),
    ("call", [("UTC", ("int", 0))], ("str", 100)),
]


def gen_opts(r, allow_bad=False):
    o = default_opts()
    if r.random() < 0.35:
        o["fuzzy"] = True
    if r.random() < 0.25:
        o["fwt"] = True
    o["dayfirst"] = r.choice([None, None, True, False])
    o["yearfirst"] = r.choice([None, None, True, False])
    if r.random() < 0.2:
        o["info_dayfirst"] = r.random() < 0.5
        o["info_yearfirst"] = r.random() < 0.5
    o["ignoretz"] = r.random() < 0.15
    o["tzinfos"] = r.choice(TZINFOS_CHOICES)
    if allow_bad and r.random() < 0.12:
        o["tzinfos"] = r.choice(TZINFOS_BAD_CHOICES)
    if r.random() < 0.5:
        o["default"] = r.choice([(2003, 9, 25, 0, 0, 0, 0), (2000, 1, 31, 0, 0, 0, 0), (2001, 3, 30, 12, 34, 56, 789),
                                 (9999, 12, 31, 23, 59, 59, 999999), (1, 1, 1, 0, 0, 0, 0), (2004, 2, 29, 1, 2, 3, 4),
                                 (2023, 5, 31, 0, 0, 0, 0), (9999, 12, 27, 0, 0, 0, 0)])
    if r.random() < 0.15:
        o["cur_year"] = r.choice([1950, 1999, 2000, 2049, 2050, 2051, 2099, 2100, 50, 51, 149, 9990])
    o["via"] = r.choice(["module", "instance"])
    return o


# ------------------------------------------------------------------------------------ shared check pieces

def run_model_parallel(cases, nproc=6):
    """cases: list of (opts, string, ...).  Shard over several oracle processes."""
    import threading
    n = len(cases)
    if n == 0:
        return []
    k = min(nproc, max(1, n // 2000))
    res = [None] * k
    errs = []

    def work(j):
        try:
            o = C.Oracle(AREA)
            res[j] = run_model(o, [(c[0], c[1]) for c in cases[j::k]])
            o.close()
        except Exception as ex:  # pragma: no cover
            errs.append(ex)

    ts = [threading.Thread(target=work, args=(j,)) for j in range(k)]
    for t in ts:
        t.start()
    for t in ts:
        t.join()
    if errs:
        raise errs[0]
    out = [None] * n
    for j in range(k):
        out[j::k] = res[j]
    return out


def opts_public(o):
    d = default_opts()
    return {k: v for k, v in o.items() if v != d[k]}


def tuplify(x):
    if isinstance(x, list):
        if x and isinstance(x[0], str):
            return tuple(tuplify(v) for v in x)
        return [tuplify(v) for v in x]
    return x


def opts_from_json(d):
    o = default_opts()
    o.update(d or {})
    o["default"] = tuple(o["default"])
    if isinstance(o["tzinfos"], list):
        o["tzinfos"] = tuplify(o["tzinfos"])
    return o


def set_tz(name):
    os.environ["TZ"] = name
    _time.tzset()


FILLER = ["Today", "is", "the", "meeting", "was", "held", "in", "room", "we", "met", "with", "people", "for",
          "lunch", "report", "signed", "by", "Smith", "deadline", "was", "moved", "to", "see", "you", "there",
          "version", "released", "it", "happened", "around", "then", "until", "from", "since"]


def ampm_word_count(s):
    import re
    return sum(1 for w in re.findall(r"[A-Za-z]+", s) if w.lower() in ("a", "am", "p", "pm"))
