"""C01 (rrule) -- shared pieces of the check: case representation, argument-vector encoding for
bin/oracle_rr, running the REAL dateutil.rrule on a case, canonical projection, generators.

A case is a JSON-able dict:
  freq, interval, wkst, count (None|int), N (how many occurrences are taken),
  start = {kind: date|naive|aware, y,m,d,H,M,S,us, off (UTC offset seconds, aware only)}
  until = None | {kind: date|naive|aware, y,m,d,H,M,S,us, off, same_tz: bool}
  bysetpos, bymonth, bymonthday, byyearday, byeaster, byweekno, byhour, byminute, bysecond: None | [ints]
  byweekday: None | [[wd, n], ...]   (n = 0: plain weekday)
  style: how the arguments are spelled (bare int for 1-tuples, int vs weekday object) -- not
         part of the canonical rule, only exercises the constructor's input conversions.
  wkst_default: True -> `wkst` is NOT passed to rrule() (default path: calendar.firstweekday()); the case's
         `wkst` field then holds calendar.firstweekday() for the model / specification.
  zone (DST class only, see dst_case / evaluate_dst): POSIX TZ string of the start's tzinfo; `until` is then an
         aware UTC datetime and the case is compared through the naive twin of the rule.
"""
import datetime
import warnings

BYKEYS = ["bysetpos", "bymonth", "bymonthday", "byyearday", "byeaster", "byweekno"]
TIMEKEYS = ["byhour", "byminute", "bysecond"]
ALLBY = BYKEYS + ["byweekday"] + TIMEKEYS
MAXORD = 3652059

EXN = {"ValueError": 1, "IndexError": 2, "TypeError": 3}


def _dt(d):
    from dateutil import tz
    if d["kind"] == "date":
        return datetime.date(d["y"], d["m"], d["d"])
    tzi = None
    if d["kind"] == "aware":
        tzi = tz.tzutc() if d.get("off", 0) == 0 and d.get("utc") else tz.tzoffset(None, d.get("off", 0))
    return datetime.datetime(d["y"], d["m"], d["d"], d["H"], d["M"], d["S"], d.get("us", 0), tzinfo=tzi)


def build(case):
    """-> (freq, kwargs, dtstart object) for dateutil.rrule.rrule"""
    from dateutil import rrule as R
    style = case.get("style", 0)
    kw = {}
    start = _dt(case["start"])
    kw["dtstart"] = start
    kw["interval"] = case["interval"]
    wk = case["wkst"]
    if not case.get("wkst_default"):
        kw["wkst"] = R.weekdays[wk] if (style & 1 and 0 <= wk <= 6) else wk
    if case.get("count") is not None:
        kw["count"] = case["count"]
    u = case.get("until")
    if u is not None:
        if u["kind"] == "aware" and u.get("same_tz") and case["start"]["kind"] == "aware":
            ud = datetime.datetime(u["y"], u["m"], u["d"], u["H"], u["M"], u["S"], u.get("us", 0),
                                   tzinfo=start.tzinfo)
        else:
            ud = _dt(u)
        kw["until"] = ud
    for k in BYKEYS + TIMEKEYS:
        v = case.get(k)
        if v is None:
            continue
        if len(v) == 1 and (style & 2):
            kw[k] = v[0]
        elif style & 4:
            kw[k] = list(v)
        else:
            kw[k] = tuple(v)
    v = case.get("byweekday")
    if v is not None:
        items = []
        for wd, n in v:
            if n == 0:
                items.append(wd if (style & 8 or not 0 <= wd <= 6) else R.weekdays[wd])
            else:
                items.append(R.weekday(wd, n))
        if len(items) == 1 and (style & 2):
            kw["byweekday"] = items[0]
        else:
            kw["byweekday"] = tuple(items)
    return case["freq"], kw, start


def wall(dt):
    """canonical projection of a yielded datetime: ordinal * 86400 + second of day"""
    return dt.toordinal() * 86400 + dt.hour * 3600 + dt.minute * 60 + dt.second


class ImplTimeout(BaseException):
    pass


def _on_alarm(signum, frame):
    raise ImplTimeout()


# Watchdog of the REAL implementation.  Generous on purpose: the model has already terminated within its fuel for
# every case that gets here, a normal case takes milliseconds, the slowest legitimate ones (sub-daily rules that
# scan a day per pass) well under a second; on a loaded shared machine a fixed 10 s limit produced spurious
# differences.  Beyond the limit the outcome is STALL ('T'): counted, listed in the evidence, never compared --
# and the run fails closed if stalls exceed the stated fraction (check_C01.THRESHOLDS).
IMPL_TIMEOUT = 60.0


def run_impl(case):
    """-> dict(phase, status 'L'|'X'|'R'|'T', exn, items, extra); extra lists whole-second / tzinfo
    breaches; 'T' = STALL: no answer within IMPL_TIMEOUT seconds although the model terminated within
    its fuel"""
    import signal
    old = signal.signal(signal.SIGALRM, _on_alarm)
    signal.setitimer(signal.ITIMER_REAL, IMPL_TIMEOUT)
    try:
        return _run_impl(case)
    except ImplTimeout:
        return {"phase": 1, "status": "T", "exn": 0, "items": [], "extra": []}
    finally:
        signal.setitimer(signal.ITIMER_REAL, 0)
        signal.signal(signal.SIGALRM, old)


def _run_impl(case):
    from dateutil import rrule as R
    N = case["N"]
    with warnings.catch_warnings():
        warnings.simplefilter("ignore")
        freq, kw, start = build(case)
        try:
            rule = R.rrule(freq, **kw)
        except Exception as ex:
            return {"phase": 0, "status": "R", "exn": EXN.get(type(ex).__name__, type(ex).__name__),
                    "items": [], "extra": []}
        items, extra = [], []
        tzi = start.tzinfo if isinstance(start, datetime.datetime) else None
        status, exn = "L", 0
        it = iter(rule)
        try:
            while len(items) < N:
                x = next(it)
                if x.microsecond != 0 or x.tzinfo is not tzi or type(x) is not datetime.datetime:
                    extra.append(repr(x))
                items.append(wall(x))
        except StopIteration:
            status = "X"
        except Exception as ex:
            status, exn = "R", EXN.get(type(ex).__name__, type(ex).__name__)
    return {"phase": 1, "status": status, "exn": exn, "items": items, "extra": extra}


# ------------------------------------------------------------------ oracle encoding

def _enc_opt(v):
    return [0] if v is None else [1, len(v)] + list(v)


def until_wall(case):
    """UNTIL as (ordinal, second of day, microsecond) on the start's wall clock"""
    u = case.get("until")
    if u is None:
        return None
    if u["kind"] == "date":
        return (datetime.date(u["y"], u["m"], u["d"]).toordinal(), 0, 0)
    d = datetime.datetime(u["y"], u["m"], u["d"], u["H"], u["M"], u["S"])
    us = u.get("us", 0)
    if u["kind"] == "aware" and case["start"]["kind"] == "aware" and not u.get("same_tz"):
        # fixed offsets: comparing aware datetimes = comparing UTC instants = comparing walls
        # after moving UNTIL onto the start's offset
        shift = case["start"].get("off", 0) - u.get("off", 0)
        t = d.toordinal() * 86400 + d.hour * 3600 + d.minute * 60 + d.second + shift
        return (t // 86400, t % 86400, us)
    return (d.toordinal(), d.hour * 3600 + d.minute * 60 + d.second, us)


def encode(case):
    s = case["start"]
    isdate = 1 if s["kind"] == "date" else 0
    a = [case["freq"], isdate, s["y"], s["m"], s["d"], s.get("H", 0), s.get("M", 0), s.get("S", 0),
         case["interval"], case["wkst"]]
    c = case.get("count")
    a += [0, 0] if c is None else [1, c]
    u = until_wall(case)
    a += [0, 0, 0, 0] if u is None else [1, u[0], u[1], u[2]]
    tzmix = 0
    if case.get("until") is not None:
        ua = case["until"]["kind"] == "aware"
        sa = s["kind"] == "aware"
        tzmix = 1 if ua != sa else 0
    a.append(tzmix)
    for k in BYKEYS:
        a += _enc_opt(case.get(k))
    v = case.get("byweekday")
    if v is None:
        a += [0]
    else:
        a += [1, len(v)]
        for wd, n in v:
            a += [wd, n]
    for k in TIMEKEYS:
        a += _enc_opt(case.get(k))
    return a


def decode_result(res):
    """oracle reply [phase; term; exn; n; codes...] -> dict like run_impl's"""
    if not isinstance(res, list) or len(res) < 4:
        return {"phase": -1, "status": "?", "exn": 0, "items": [], "raw": res}
    phase, term, exn, n = res[:4]
    items = res[4:4 + n]
    status = {0: "X", 1: "X", 2: "X", 3: "R", 4: "F", 5: "L"}.get(term, "?")
    return {"phase": phase, "status": status, "exn": exn if status == "R" else 0, "items": items, "term": term}


def same_obs(a, b):
    return (a["phase"], a["status"], a["exn"], a["items"]) == (b["phase"], b["status"], b["exn"], b["items"])


def fmt_inst(code):
    o, s = divmod(code, 86400)
    try:
        d = datetime.date.fromordinal(o).isoformat()
    except Exception:
        d = "ord%d" % o
    return "%sT%02d:%02d:%02d" % (d, s // 3600, s // 60 % 60, s % 60)


# ------------------------------------------------------------------ generators
BOUNDARY_YEARS = [1, 2, 3, 4, 100, 400, 999, 1000, 1582, 1583, 1600, 1899, 1900, 1999, 2000, 2001, 2003,
                  2004, 2008, 2009, 2010, 2011, 2012, 2015, 2016, 2020, 2024, 2026, 2037, 2038, 2099,
                  2100, 2400, 9000, 9990, 9995, 9996, 9997, 9998, 9999]
INTERVALS = [1, 1, 1, 2, 2, 3, 4, 5, 7, 12, 24, 60, 100]
OFFSETS = [0, 60, -60, 19800, 45900, 50400, -43200, 86340, -86340, 3600, -18000]
PERIOD_SECS = [366 * 86400, 31 * 86400, 7 * 86400, 86400, 3600, 60, 1]
MAX_PERIODS = [24, 40, 60, 120, 200, 300, 300]


def _rand_date(rnd):
    r = rnd.random()
    if r < 0.55:
        y = rnd.choice(BOUNDARY_YEARS)
    elif r < 0.9:
        y = rnd.randint(1990, 2040)
    else:
        y = rnd.randint(1, 9999)
    r = rnd.random()
    if r < 0.25:
        m, d = rnd.choice([(1, 1), (1, 2), (1, 3), (1, 4), (1, 5), (1, 6), (1, 7), (12, 25), (12, 26), (12, 27),
                           (12, 28), (12, 29), (12, 30), (12, 31), (2, 28), (2, 29), (3, 1), (1, 31), (1, 30),
                           (1, 29), (8, 31), (10, 31), (4, 30)])
    else:
        m = rnd.randint(1, 12)
        d = rnd.choice([1, 15, 28, 29, 30, 31, rnd.randint(1, 31), rnd.randint(1, 31)])
    import calendar
    d = min(d, calendar.monthrange(y, m)[1])
    return y, m, d


def _rand_time(rnd):
    r = rnd.random()
    if r < 0.2:
        return 0, 0, 0
    if r < 0.3:
        return 23, 59, 59
    if r < 0.4:
        return 12, 0, 0
    if r < 0.5:
        return 9, 0, 0
    return rnd.randint(0, 23), rnd.randint(0, 59), rnd.randint(0, 59)


def _subset(rnd, pool, kmax=3):
    k = rnd.choice([1, 1, 1, 2, 2, 3][:max(1, kmax * 2)])
    return [rnd.choice(pool) for _ in range(k)]


def rand_by(rnd, key, freq, malformed=False):
    """one BY-part value (list) for `key`"""
    if malformed and rnd.random() < 0.35:
        if rnd.random() < 0.5:
            return []
        bad = {"bysetpos": [0, 367, -367], "bymonth": [0, 13, 14, -1, -5], "bymonthday": [0, 32, -32, 40],
               "byyearday": [0, 367, -367, 400], "byeaster": [400, -400, 1000], "byweekno": [0, 54, -54, 60],
               "byhour": [24, -1, 25], "byminute": [60, -1, 61], "bysecond": [60, -1, 61, 62]}[key]
        v = [rnd.choice(bad)]
        if rnd.random() < 0.5:
            v += rand_by(rnd, key, freq)
        return v
    if key == "bysetpos":
        return _subset(rnd, [1, 1, 2, 3, -1, -1, -2, 4, 5, 10, -3, 366, -366, 30, 7])
    if key == "bymonth":
        return _subset(rnd, list(range(1, 13)) + [1, 2, 12, 12])
    if key == "bymonthday":
        return _subset(rnd, list(range(1, 32)) + [-1, -1, -2, -3, -28, -29, -30, -31, 29, 30, 31, 31, 1, 5])
    if key == "byyearday":
        return _subset(rnd, [1, 1, 2, 59, 60, 61, 100, 200, 365, 366, 366, -1, -1, -2, -306, -307, -365, -366, -366,
                             rnd.randint(1, 366), -rnd.randint(1, 366)])
    if key == "byeaster":
        return _subset(rnd, [0, 0, 1, -1, -2, -46, -47, 39, 49, 50, 60, -100, 100, 250, 280, 285, -80, -90, 300,
                             -300, rnd.randint(-120, 300)])
    if key == "byweekno":
        return _subset(rnd, [1, 1, 2, 52, 52, 53, 53, -1, -1, -2, -52, -52, -53, -53, 20, 26, -26,
                             rnd.randint(1, 53), -rnd.randint(1, 53)])
    if key == "byhour":
        return _subset(rnd, [0, 0, 1, 6, 9, 12, 18, 22, 23, 23, rnd.randint(0, 23)])
    if key in ("byminute", "bysecond"):
        return _subset(rnd, [0, 0, 1, 15, 20, 30, 45, 58, 59, 59, rnd.randint(0, 59)])
    raise KeyError(key)


def rand_byweekday(rnd, freq, malformed=False):
    if malformed and rnd.random() < 0.3:
        if rnd.random() < 0.5:
            return []
        return [[rnd.choice([7, 8, -1]), 0]]
    k = rnd.choice([1, 1, 2, 2, 3, 5])
    out = []
    for _ in range(k):
        wd = rnd.randint(0, 6)
        r = rnd.random()
        if r < 0.5:
            n = 0
        else:
            n = rnd.choice([1, 1, 2, 3, 4, 5, -1, -1, -2, -3, -4, -5, 6, -6, 10, -10, 20, 52, 53, -52, -53, 54])
        out.append([wd, n])
    return out


def cap_until(case, rnd, periods=None):
    """UNTIL that keeps the scan to a bounded number of periods (also for rules that never match)"""
    s = case["start"]
    f = case["freq"]
    p = periods if periods is not None else rnd.randint(1, MAX_PERIODS[f])
    secs = p * case["interval"] * PERIOD_SECS[f] + rnd.choice([0, 0, 1, -1, 3599, 86399])
    base = datetime.datetime(s["y"], s["m"], s["d"], s.get("H", 0), s.get("M", 0), s.get("S", 0))
    t = base.toordinal() * 86400 + base.hour * 3600 + base.minute * 60 + base.second + secs
    t = min(t, MAXORD * 86400 + 86399)
    o, sod = divmod(t, 86400)
    d = datetime.date.fromordinal(o)
    u = {"kind": "naive", "y": d.year, "m": d.month, "d": d.day, "H": sod // 3600, "M": sod // 60 % 60,
         "S": sod % 60, "us": rnd.choice([0, 0, 0, 1, 500000, 999999])}
    if s["kind"] == "aware":
        u["kind"] = "aware"
        if rnd.random() < 0.6:
            u["same_tz"] = True
        else:
            u["off"] = rnd.choice(OFFSETS)
            # wall of UNTIL on the start's clock stays what was computed: shift the fields
            t2 = t - (s.get("off", 0) - u["off"])
            t2 = max(86400, min(t2, MAXORD * 86400 + 86399))
            o2, sod2 = divmod(t2, 86400)
            d2 = datetime.date.fromordinal(o2)
            u.update({"y": d2.year, "m": d2.month, "d": d2.day, "H": sod2 // 3600, "M": sod2 // 60 % 60,
                      "S": sod2 % 60})
    elif s["kind"] == "date" and rnd.random() < 0.3:
        u = {"kind": "date", "y": d.year, "m": d.month, "d": d.day}
    return u


def rand_case(rnd, malformed=False):
    f = rnd.choice([0, 0, 0, 1, 1, 1, 2, 2, 2, 3, 3, 4, 5, 6])
    y, m, d = _rand_date(rnd)
    kind = rnd.choice(["date", "naive", "naive", "naive", "aware", "aware"])
    start = {"kind": kind, "y": y, "m": m, "d": d}
    if kind != "date":
        H, M, S = _rand_time(rnd)
        start.update({"H": H, "M": M, "S": S, "us": rnd.choice([0, 0, 0, 1, 999999, 123456])})
        if kind == "aware":
            start["off"] = rnd.choice(OFFSETS)
            if start["off"] == 0 and rnd.random() < 0.5:
                start["utc"] = True
    else:
        start.update({"H": 0, "M": 0, "S": 0})
    case = {"freq": f, "start": start, "interval": rnd.choice(INTERVALS), "wkst": rnd.randint(0, 6),
            "count": None, "until": None, "style": rnd.randint(0, 15)}
    nby = rnd.choice([0, 1, 1, 2, 2, 2, 3, 3, 4])
    keys = ["bymonth", "bymonthday", "byyearday", "byeaster", "byweekno", "byweekday", "byweekday", "bymonth",
            "bymonthday", "bysetpos", "byhour", "byminute", "bysecond"]
    chosen = set()
    for _ in range(nby):
        chosen.add(rnd.choice(keys))
    if f >= 4 and rnd.random() < 0.5:
        chosen.add(["byhour", "byminute", "bysecond"][f - 4])
    for k in ALLBY:
        case[k] = None
    for k in chosen:
        if k == "byweekday":
            case[k] = rand_byweekday(rnd, f, malformed)
        else:
            case[k] = rand_by(rnd, k, f, malformed)
    # termination: UNTIL cap (most), COUNT, both, or bare first-N (the check adds a cap if the model
    # says the scan would be long)
    r = rnd.random()
    if r < 0.55:
        case["until"] = cap_until(case, rnd)
    elif r < 0.75:
        case["count"] = rnd.choice([0, 1, 1, 2, 3, 5, 10, 30, 59, 60, 61, 100])
    elif r < 0.85:
        case["count"] = rnd.choice([1, 2, 3, 10, 40])
        case["until"] = cap_until(case, rnd)
    case["N"] = rnd.choice([1, 2, 5, 10, 20, 40, 60, 60])
    if rnd.random() < 0.05:
        # the default path: wkst is not passed, rrule uses calendar.firstweekday()
        import calendar
        case["wkst_default"] = True
        case["wkst"] = calendar.firstweekday()
    return case


def year_shapes():
    """one representative year per (weekday of 1 Jan, leap, previous leap, next leap)"""
    import calendar
    seen = {}
    for y in list(range(1890, 2420)):
        key = (datetime.date(y, 1, 1).weekday(), calendar.isleap(y), calendar.isleap(y - 1), calendar.isleap(y + 1))
        seen.setdefault(key, y)
    return sorted(seen.values())


def mk_case(freq, y, m, d, until=None, N=60, **kw):
    case = {"freq": freq, "start": {"kind": "naive", "y": y, "m": m, "d": d, "H": 0, "M": 0, "S": 0},
            "interval": kw.pop("interval", 1), "wkst": kw.pop("wkst", 0), "count": kw.pop("count", None),
            "until": None, "style": 0, "N": N}
    if until is not None:
        uy, um, ud = until
        case["until"] = {"kind": "naive", "y": uy, "m": um, "d": ud, "H": 23, "M": 59, "S": 59}
    for k in ALLBY:
        case[k] = kw.pop(k, None)
    assert not kw, kw
    return case


def case_key(case):
    """canonical identity of the rule (for distinct counting)"""
    return repr((encode(case), case["N"]))


# ------------------------------------------------------------------ evaluation of one case
ENTRY_MODEL, ENTRY_SPEC, ENTRY_WF, ENTRY_DAYOK, ENTRY_WEEK, ENTRY_XWF = 0, 1, 2, 3, 4, 5
FUEL_PROBE = [40, 80, 150, 400, 800, 800, 800]       # model loop passes allowed without a cap
FUEL_RUN = [80, 150, 300, 900, 1500, 1500, 1500]    # ... with the UNTIL cap in place
SPEC_FUEL = 4000


class TimedOracle:
    """bin/oracle_rr with a per-call timeout: a call that does not answer in time kills and
    restarts the process and returns 'TIMEOUT' (the case is then counted as skipped/inconclusive)."""

    def __init__(self, exe):
        import subprocess
        self.exe = exe
        self._sp = subprocess
        self.restarts = 0
        self._start()

    def _start(self):
        self.p = self._sp.Popen(["bash", "-c", "ulimit -s unlimited 2>/dev/null; exec " + self.exe],
                                stdin=self._sp.PIPE, stdout=self._sp.PIPE, bufsize=0)
        self.buf = b""

    def call(self, entry, args, timeout=4.0):
        import os
        import select
        import time
        self.p.stdin.write(("%d %s\n" % (entry, " ".join(map(str, args)))).encode())
        end = time.time() + timeout
        fd = self.p.stdout.fileno()
        while b"\n" not in self.buf:
            left = end - time.time()
            r = select.select([fd], [], [], max(left, 0))[0] if left > 0 else []
            if not r:
                self.p.kill()
                self.p.wait()
                self.restarts += 1
                self._start()
                return "TIMEOUT"
            chunk = os.read(fd, 1 << 16)
            if not chunk:
                raise RuntimeError("oracle_rr died on entry %d args %r" % (entry, args[:60]))
            self.buf += chunk
        line, self.buf = self.buf.split(b"\n", 1)
        line = line.decode().strip()
        if line.startswith(("OVF", "STACK", "FAIL")):
            return line
        return [int(t) for t in line.split()]

    def close(self):
        try:
            self.p.stdin.close()
            self.p.wait(timeout=5)
        except Exception:
            self.p.kill()


def relocate_to_end_of_time(case, rnd):
    """move the start next to MAXYEAR so that a rule that never matches ends by the MAXYEAR stop"""
    import calendar
    s = case["start"]
    f = case["freq"]
    s["y"] = 9999 if f >= 3 else 9999 - rnd.choice([0, 0, 1, 2, 5])
    if f >= 4:
        s["m"], s["d"] = 12, rnd.choice([29, 30, 31])
    elif f == 3:
        s["m"] = rnd.choice([11, 12])
    s["d"] = min(s["d"], calendar.monthrange(s["y"], s["m"])[1])
    case["until"] = None


# At most this fraction of a random chunk may be relocated to the end of time (audit 5.d: without a cap a quarter
# of the random stream ended up at year ~9999 and lost its boundary year / UNTIL shape); the rules beyond the cap
# -- rules that never produce a candidate, on which the real generator would scan to year 9999 -- are skipped and
# counted as "skipped:never-matching-beyond-relocation-cap".
RELOCATION_CAP = 0.10


def prepare(case, oracle, rnd, budget=None):
    """Make sure the real implementation will stop quickly on this case: probe the model with a
    small fuel; if it runs out add an UNTIL cap; if it still runs out (a rule that never produces
    a candidate never reaches the UNTIL test) move the start next to year 9999, where the scan ends
    by the MAXYEAR stop -- for at most RELOCATION_CAP of the chunk; otherwise the case is skipped.
    budget = {"seen": cases so far in this chunk, "relocated": relocations so far}
    -> (model result dict | None when skipped, skip reason | None)"""
    f = case["freq"]
    if not 0 <= f <= 6:
        f = 0

    def run(fuel):
        r = oracle.call(ENTRY_MODEL, encode(case) + [case["N"], fuel])
        if r == "TIMEOUT":
            return {"status": "F", "phase": -1, "exn": 0, "items": [], "timeout": True}
        return decode_result(r)
    m = run(FUEL_PROBE[f])
    if m["status"] != "F":
        return m, None
    if m.get("timeout"):
        return None, "model-timeout"
    if case.get("until") is None:
        case["until"] = cap_until(case, rnd, periods=rnd.randint(1, MAX_PERIODS[f] // 2))
        case["relocated"] = "until-cap"
        m = run(FUEL_RUN[f])
        if m["status"] != "F":
            return m, None
        if m.get("timeout"):
            return None, "model-timeout"
    if budget is not None and budget["relocated"] + 1 > RELOCATION_CAP * max(budget["seen"], 20):
        return None, "never-matching-beyond-relocation-cap"
    relocate_to_end_of_time(case, rnd)
    case["relocated"] = "end-of-time"
    if budget is not None:
        budget["relocated"] += 1
    m = run(FUEL_RUN[f])
    if m["status"] == "F":
        return None, "model-timeout" if m.get("timeout") else "model-out-of-fuel-at-end-of-time"
    return m, None


# ------------------------------------------------------------------ verdict against the specification
# What is accepted, explicitly (the evidence quotes this text):
#  * status L (first N taken): the N items equal the first N of the specified sequence;
#  * status X (exhausted): the items equal the whole specified sequence, which is exhausted too;
#  * ValueError is accepted ONLY "when built or when first iterated", i.e. before anything was yielded, and only
#    when the specified sequence is empty (a rule that can never match) -- or, for a rule outside the RFC value
#    grammar (extended domain: spec_xwf but not spec_wf), even when the remaining members could match (the
#    constructor may reject an out-of-grammar argument);
#  * a ValueError after something was yielded, any other exception class, any missing or extra instant is a
#    difference (there is no open C01 finding: nothing is tolerated);
#  * STALL ('T', no answer of the real generator within IMPL_TIMEOUT although the model terminated) and an
#    out-of-fuel / timed-out specification are INCONCLUSIVE: counted per class, bounded by thresholds.
TOLERANCE_TEXT = (
    "ValueError accepted only before the first yielded item (constructor or first next()) and only when the "
    "specified sequence is empty, or -- outside the RFC value grammar (spec_xwf and not spec_wf) -- as a rejection "
    "of the argument; ValueError after a yielded item, any other exception, any missing/extra instant = "
    "difference; STALL / out-of-fuel specification = inconclusive (thresholds)")


def spec_verdict(i, s, extended=False):
    """compare implementation observation i with specification result s.
    -> None (agree) | 'inconclusive' | 'stall' | description of the disagreement"""
    if i["status"] == "T":
        return "stall"
    n = len(i["items"])
    # the exception class and the out-of-grammar rejection do not depend on the specified sequence
    if i["status"] == "R" and i["exn"] != 1:
        return "raises %s (only ValueError is allowed)" % (i["exn"],)
    if i["status"] == "R" and n == 0 and extended:
        return None
    if s["status"] == "F":
        return "inconclusive"
    if i["status"] == "L":
        if s["items"][:n] != i["items"] or len(s["items"]) < n:
            return "first %d occurrences differ" % n
        return None
    if i["status"] == "X":
        if s["items"] != i["items"] or s["status"] != "X":
            return "recurrence set differs (implementation exhausted after %d)" % n
        return None
    # raised
    if i["exn"] != 1:
        return "raises %s (only ValueError is allowed)" % (i["exn"],)
    if n > 0:
        if s["items"][:n] != i["items"]:
            return "raises ValueError after %d occurrences that differ from the specification" % n
        if s["items"] != i["items"] or s["status"] != "X":
            return "raises ValueError after %d occurrences although the rule has further occurrences" % n
        return "raises ValueError after yielding all %d occurrences (instead of stopping)" % n
    if extended:
        return None
    if s["items"] or s["status"] != "X":
        return "raises ValueError although the rule has occurrences"
    return None


def first_week_start(case):
    """ordinal of the first day of the WKST-week that contains the start (may be < 1)"""
    s = case["start"]
    o = datetime.date(s["y"], s["m"], s["d"]).toordinal()
    wd = (o + 6) % 7
    return o - (wd - case["wkst"]) % 7


def week_before_year1(case):
    """WEEKLY + BYSETPOS whose first WKST-week begins before 0001-01-01 (the class of the fixed finding
    F-C01-year1-setpos-week, 3426f68; the BYEASTER branch of full_guard still carries 1 <= ws0, which 1584 <= year
    implies)."""
    if case["freq"] != 2 or not case.get("bysetpos"):
        return False
    try:
        return first_week_start(case) < 1
    except (ValueError, OverflowError):
        return False


def last_week_start(wkst):
    """ordinal of the first day of the WKST-week that contains 9999-12-31"""
    wd = (MAXORD + 6) % 7
    return MAXORD - (wd - wkst) % 7


def in_proved_family(case):
    """STATISTIC ONLY, an approximation from the rule alone (mirrors RRFullTop.full_guard / RRSubSpAll.sfam_sa
    WITHOUT their n-dependent bounds: the number of passes a run makes is not known here; BYEASTER rules that
    start after 4090 are counted as NOT covered): is a rule of the specification's domain covered by one of the
    loop theorems?"""
    if any(abs(n) > 53 for n in (case.get("byweekno") or [])):
        return False
    f = case["freq"]
    if case.get("byeaster") is not None:
        return f <= 3 and 1584 <= case["start"]["y"] <= 4090 and \
            not (f == 2 and week_before_year1(case))
    return True        # YEARLY, MONTHLY, WEEKLY, DAILY: every rule; sub-daily: every rule (rset's RRSubSpAll)


def evaluate(case, oracle, model=None):
    """-> impl, model, spec observations + the verdicts.  domain: 'grammar' (spec_wf), 'extended' (spec_xwf only:
    never-matching time members / BYMONTHDAY 0), 'outside' (model vs implementation only), or 'domain-timeout'
    (the domain test itself timed out: counted, not compared with the specification)."""
    a = encode(case)
    if model is None:
        f = case["freq"] if 0 <= case["freq"] <= 6 else 0
        mr = oracle.call(ENTRY_MODEL, a + [case["N"], FUEL_RUN[f]])
        model = {"status": "F", "phase": -1, "exn": 0, "items": [], "timeout": True} if mr == "TIMEOUT" \
            else decode_result(mr)
    impl = run_impl(case)
    w = oracle.call(ENTRY_WF, a)
    if w == "TIMEOUT":
        domain = "domain-timeout"
    elif w == [1]:
        domain = "grammar"
    else:
        x = oracle.call(ENTRY_XWF, a)
        domain = "domain-timeout" if x == "TIMEOUT" else ("extended" if x == [1] else "outside")
    spec = None
    sv = None
    if domain in ("grammar", "extended"):
        sr = oracle.call(ENTRY_SPEC, a + [case["N"], SPEC_FUEL])
        spec = {"status": "F", "phase": -1, "exn": 0, "items": [], "timeout": True} if sr == "TIMEOUT" \
            else decode_result(sr)
        sv = spec_verdict(impl, spec, extended=(domain == "extended"))
    if impl["status"] == "T":
        agrees = None
    else:
        agrees = same_obs(impl, model) if model["status"] != "F" else None
    return {"impl": impl, "model": model, "wf": domain == "grammar", "domain": domain, "spec": spec,
            "spec_verdict": sv, "model_agrees": agrees}


# ------------------------------------------------------------------ DST-zone start with a UTC UNTIL
# RFC 5545 says: when DTSTART carries a time zone, UNTIL is given in UTC.  rrule compares `res > until` as aware
# datetimes, i.e. as UTC instants with the start's zone offset varying over the year.  The Coq model works on the
# start's wall clock with a constant offset, so this class is compared THROUGH THE NAIVE TWIN of the rule: the model
# (and, inside its domain, the specification) enumerates the wall-clock sequence of the rule without UNTIL, the
# harness cuts it at the first member whose aware value (same tzinfo object, fold=0 as rrule produces it) is later
# than the UTC UNTIL, and the real rrule with the zone-aware start and the UTC UNTIL must yield exactly that.
DST_ZONES = ["EST5EDT,M3.2.0,M11.1.0", "CET-1CEST,M3.5.0,M10.5.0/3", "AEST-10AEDT,M10.1.0,M4.1.0/3",
             "NZST-12NZDT,M9.5.0,M4.1.0/3"]


def dst_case(rnd):
    """a rule with a start in a DST zone (POSIX TZ string, evaluated by dateutil.tz.tzstr: no tz database) and an
    UNTIL in UTC; years 1990..2040, placed with preference around the two transitions of the year"""
    for _ in range(50):
        case = rand_case(rnd)
        if case["start"]["kind"] == "date":
            continue
        s = case["start"]
        s["kind"] = "naive"
        s.pop("off", None)
        s.pop("utc", None)
        s["y"] = rnd.randint(1990, 2040)
        if rnd.random() < 0.6:
            s["m"], s["d"] = rnd.choice([(3, 1), (3, 8), (3, 25), (10, 1), (10, 25), (11, 1), (4, 1), (9, 20)])
        import calendar
        s["d"] = min(s["d"], calendar.monthrange(s["y"], s["m"])[1])
        case["until"] = None
        if case.get("count") is None and rnd.random() < 0.3:
            case["count"] = rnd.choice([1, 3, 10, 40])
        case["zone"] = rnd.choice(DST_ZONES)
        f = case["freq"]
        p = rnd.randint(1, MAX_PERIODS[f])
        secs = p * case["interval"] * PERIOD_SECS[f] + rnd.choice([0, 0, 1, -1, 3599, -3600, 7200])
        base = datetime.datetime(s["y"], s["m"], s["d"], s["H"], s["M"], s["S"])
        u = base + datetime.timedelta(seconds=min(secs, 40 * 366 * 86400))
        case["until_utc"] = [u.year, u.month, u.day, u.hour, u.minute, u.second, rnd.choice([0, 0, 1, 999999])]
        return case
    return None


def evaluate_dst(case, oracle):
    """-> None (agree) | 'skip' | 'inconclusive' | 'stall' | (description, expected, got).
    'skip': the naive twin finds no end before the cap within the fuel (a sparse or never-matching rule: both the
    model and the real generator would scan towards year 9999; the main stream covers that class by relocation) --
    such draws are replaced by fresh ones and counted (dst_skipped).  A twin that the constructor model rejects
    (ValueError) is compared too: the real constructor must raise ValueError."""
    import signal
    from dateutil import rrule as R
    from dateutil import tz
    twin = dict(case)
    uy = case["until_utc"]
    zone = tz.tzstr(case["zone"])
    until = datetime.datetime(uy[0], uy[1], uy[2], uy[3], uy[4], uy[5], uy[6], tzinfo=tz.tzutc())
    # the twin gets a naive UNTIL = the UTC UNTIL on the zone's wall clock + 1 h + 1 s, only to bound the model's
    # scan: a wall time w lies beyond the UNTIL iff w - off(w) > until, off(w) <= off(until) + 1 h for every zone of
    # DST_ZONES, so every w beyond the cap is beyond the UNTIL.  Everything between the real UNTIL and the cap is
    # cut below by the aware comparison.
    cap = until.astimezone(zone).replace(tzinfo=None, microsecond=0) + datetime.timedelta(seconds=3601)
    twin["until"] = {"kind": "naive", "y": cap.year, "m": cap.month, "d": cap.day, "H": cap.hour, "M": cap.minute,
                     "S": cap.second, "us": 0}
    a = encode(twin)
    f = case["freq"]
    N = case["N"]
    extra = 3700 // (max(case.get("interval") or 1, 1) * PERIOD_SECS[f]) + 2      # passes between UNTIL and cap
    mr = oracle.call(ENTRY_MODEL, a + [N, FUEL_RUN[f] + extra])
    if mr == "TIMEOUT":
        return "skip"
    model = decode_result(mr)
    ctor_error = model["status"] == "R" and model["phase"] == 0 and model["exn"] == 1
    if model["status"] == "F":
        return "skip"
    if model["status"] not in ("L", "X") and not ctor_error:
        return "inconclusive"          # the twin raises while iterating: not a usable reference
    expected, cut = [], False
    for code in model["items"]:
        o, sod = divmod(code, 86400)
        d = datetime.date.fromordinal(o)
        x = datetime.datetime(d.year, d.month, d.day, sod // 3600, sod // 60 % 60, sod % 60, tzinfo=zone)
        if x > until:
            cut = True
            break
        expected.append(code)
    exhausted = cut or model["status"] == "X"
    twin["until"] = None
    freq, kw, start = build(twin)
    kw["dtstart"] = start.replace(tzinfo=zone)
    kw["until"] = until
    old = signal.signal(signal.SIGALRM, _on_alarm)
    signal.setitimer(signal.ITIMER_REAL, IMPL_TIMEOUT)
    try:
        with warnings.catch_warnings():
            warnings.simplefilter("ignore")
            try:
                try:
                    rule = R.rrule(freq, **kw)
                except ValueError:
                    if ctor_error:
                        return None
                    raise
                if ctor_error:
                    return ("the constructor accepts a rule whose naive twin is rejected with ValueError", [], [])
                got, status = [], "L"
                it = iter(rule)
                try:
                    while len(got) < N:
                        x = next(it)
                        if x.microsecond != 0 or x.tzinfo is not zone:
                            return ("yielded value with microseconds or foreign tzinfo: %r" % (x,), expected, got)
                        got.append(wall(x))
                except StopIteration:
                    status = "X"
            except Exception as ex:
                return ("raises %s" % type(ex).__name__, expected, [])
    except ImplTimeout:
        return "stall"
    finally:
        signal.setitimer(signal.ITIMER_REAL, 0)
        signal.signal(signal.SIGALRM, old)
    if status == "L":
        if got != expected[:N] or len(expected) < N:
            return ("first %d occurrences differ from the naive twin cut at the UTC UNTIL" % len(got), expected, got)
        return None
    if not exhausted or got != expected:
        return ("sequence differs from the naive twin cut at the UTC UNTIL", expected, got)
    return None
