#!/usr/bin/env python3
"""Fail-closed translator: /repo/src/dateutil/easter.py::easter  ->  coq/gen/EasterGen.v

Accepted Python subset (anything else raises TranslateError, which the check reports as a
broken proof obligation):
  statements : docstring, `x = e`, `if c: ... [else: ...]`, `if c: raise ValueError(...)`,
               `return datetime.date(int(a), int(b), int(c))`
  expressions: int constants, names, + - * // %, unary -, comparisons (chained), and/or/not, int(e)
Semantics: Python ints are Coq Z; // and % are Z.div / Z.modulo (both floor, sign of divisor);
`raise ValueError` and an invalid `datetime.date` are `None`.
"""
import ast
import sys


class TranslateError(Exception):
    pass


MODULE_CONSTS = set()
BINOPS = {ast.Add: "+", ast.Sub: "-", ast.Mult: "*", ast.FloorDiv: "/", ast.Mod: "mod"}
CMPOPS = {ast.Lt: "<?", ast.LtE: "<=?", ast.Gt: ">?", ast.GtE: ">=?", ast.Eq: "=?"}


def expr(e):
    if isinstance(e, ast.Constant) and isinstance(e.value, int) and not isinstance(e.value, bool):
        return str(e.value) if e.value >= 0 else "(%d)" % e.value
    if isinstance(e, ast.Name):
        # module-level EASTER_* constants are emitted as Coq definitions of the same name;
        # everything else is a local variable of the translated function
        return e.id if e.id in MODULE_CONSTS else "v_" + e.id
    if isinstance(e, ast.BinOp) and type(e.op) in BINOPS:
        return "(%s %s %s)" % (expr(e.left), BINOPS[type(e.op)], expr(e.right))
    if isinstance(e, ast.UnaryOp) and isinstance(e.op, ast.USub):
        return "(- %s)" % expr(e.operand)
    if (isinstance(e, ast.Call) and isinstance(e.func, ast.Name) and e.func.id == "int"
            and len(e.args) == 1 and not e.keywords):
        return expr(e.args[0])
    raise TranslateError("unsupported integer expression: " + ast.dump(e))


def cond(e):
    if isinstance(e, ast.Compare):
        parts = []
        left = e.left
        for op, right in zip(e.ops, e.comparators):
            if type(op) is ast.NotEq:
                parts.append("negb (%s =? %s)" % (expr(left), expr(right)))
            elif type(op) in (ast.In, ast.NotIn):
                # membership in a literal tuple/list of integers or named constants
                if not isinstance(right, (ast.Tuple, ast.List)) or not right.elts or len(e.ops) != 1:
                    raise TranslateError("unsupported membership test")
                mem = "(" + " || ".join("(%s =? %s)" % (expr(left), expr(x)) for x in right.elts) + ")"
                parts.append(mem if type(op) is ast.In else "negb " + mem)
            elif type(op) in CMPOPS:
                parts.append("(%s %s %s)" % (expr(left), CMPOPS[type(op)], expr(right)))
            else:
                raise TranslateError("unsupported comparison: " + ast.dump(op))
            left = right
        return "(" + " && ".join(parts) + ")"
    if isinstance(e, ast.BoolOp):
        op = " && " if isinstance(e.op, ast.And) else " || "
        return "(" + op.join(cond(v) for v in e.values) + ")"
    if isinstance(e, ast.UnaryOp) and isinstance(e.op, ast.Not):
        return "(negb %s)" % cond(e.operand)
    raise TranslateError("unsupported condition: " + ast.dump(e))


def assigned(stmts):
    out = []
    for s in stmts:
        if isinstance(s, ast.Assign):
            for t in s.targets:
                if not isinstance(t, ast.Name):
                    raise TranslateError("unsupported assignment target")
                if t.id not in out:
                    out.append(t.id)
        elif isinstance(s, ast.If):
            for v in assigned(s.body) + assigned(s.orelse):
                if v not in out:
                    out.append(v)
    return out


def is_raise_valueerror(s):
    if not isinstance(s, ast.Raise) or s.exc is None:
        return False
    exc = s.exc
    if isinstance(exc, ast.Call):
        exc = exc.func
    return isinstance(exc, ast.Name) and exc.id == "ValueError"


def block(stmts, defined, tail, ind):
    """Translate stmts; `tail(defined)` gives the Coq text evaluated after them."""
    pad = "  " * ind
    if not stmts:
        return pad + tail(defined)
    s, rest = stmts[0], stmts[1:]
    if isinstance(s, ast.Expr) and isinstance(s.value, ast.Constant) and isinstance(s.value.value, str):
        return block(rest, defined, tail, ind)
    if isinstance(s, ast.Assign):
        if len(s.targets) != 1 or not isinstance(s.targets[0], ast.Name):
            raise TranslateError("unsupported assignment")
        name = s.targets[0].id
        return (pad + "let v_%s := %s in\n" % (name, expr(s.value))
                + block(rest, defined | {name}, tail, ind))
    if isinstance(s, ast.If):
        if len(s.body) == 1 and is_raise_valueerror(s.body[0]) and not s.orelse:
            return (pad + "if %s then None else\n" % cond(s.test)
                    + block(rest, defined, tail, ind))
        a_body, a_else = assigned(s.body), assigned(s.orelse)
        # variables that survive the `if`: assigned in both arms, or assigned in one and
        # already defined.  Others are dropped; a later use is then an unbound Coq name
        # and the generated file fails to compile (fail closed).
        keep = [v for v in assigned([s])
                if (v in a_body and v in a_else) or v in defined]
        if not keep:
            raise TranslateError("if-statement without surviving assignment")
        tup = "(" + ", ".join("v_" + v for v in keep) + ")"
        ret = lambda _d: tup
        then_txt = block(s.body, set(defined), ret, ind + 2)
        else_txt = block(s.orelse, set(defined), ret, ind + 2)
        pat = tup if len(keep) > 1 else "v_" + keep[0]
        q = "'" if len(keep) > 1 else ""
        return (pad + "let %s%s :=\n" % (q, pat)
                + pad + "  if %s then (\n" % cond(s.test) + then_txt + ")\n"
                + pad + "  else (\n" + else_txt + ") in\n"
                + block(rest, defined | set(keep), tail, ind))
    if isinstance(s, ast.Return):
        c = s.value
        ok = (isinstance(c, ast.Call) and isinstance(c.func, ast.Attribute) and c.func.attr == "date"
              and isinstance(c.func.value, ast.Name) and c.func.value.id == "datetime"
              and len(c.args) == 3 and not c.keywords)
        if not ok or rest:
            raise TranslateError("unsupported return")
        return pad + "mk_date %s %s %s" % tuple(expr(a) for a in c.args)
    raise TranslateError("unsupported statement: " + ast.dump(s)[:200])


def translate(src):
    tree = ast.parse(src)
    fn = [n for n in tree.body if isinstance(n, ast.FunctionDef) and n.name == "easter"]
    if len(fn) != 1:
        raise TranslateError("function easter not found")
    fn = fn[0]
    args = [a.arg for a in fn.args.args]
    if args != ["year", "method"] or fn.args.vararg or fn.args.kwarg or fn.args.kwonlyargs:
        raise TranslateError("unexpected signature %r" % args)
    consts = {}
    for n in tree.body:
        if (isinstance(n, ast.Assign) and len(n.targets) == 1 and isinstance(n.targets[0], ast.Name)
                and n.targets[0].id.startswith("EASTER_") and isinstance(n.value, ast.Constant)):
            consts[n.targets[0].id] = n.value.value
    MODULE_CONSTS.clear()
    MODULE_CONSTS.update(consts)
    d = fn.args.defaults
    if len(d) != 1 or not isinstance(d[0], ast.Name) or d[0].id not in consts:
        raise TranslateError("unexpected default for method")
    if not isinstance(fn.body[-1], ast.Return):
        raise TranslateError("function must end with return")

    def no_tail(_d):
        raise TranslateError("fell off the end of the function")
    body = block(fn.body, {"year", "method"}, no_tail, 1)
    out = []
    out.append("(* GENERATED by harness/gen_easter.py from /repo/src/dateutil/easter.py -- do not edit *)")
    out.append("From Coq Require Import ZArith Bool.")
    out.append("From V Require Import base.Cal.")
    out.append("Open Scope Z_scope.")
    out.append("Definition mk_date (y m d : Z) : option (Z * Z * Z) :=")
    out.append("  if valid_ymd y m d then Some (y, m, d) else None.")
    for k in sorted(consts):
        out.append("Definition %s : Z := %d." % (k, consts[k]))
    out.append("Definition easter_default_method : Z := %s." % d[0].id)
    out.append("Definition easter_gen (v_year v_method : Z) : option (Z * Z * Z) :=")
    out.append(body + ".")
    return "\n".join(out) + "\n"


if __name__ == "__main__":
    import os
    here = os.path.dirname(os.path.dirname(os.path.abspath(__file__)))
    repo = os.environ.get("VERIF_REPO", "/repo")
    src_path = sys.argv[1] if len(sys.argv) > 1 else os.path.join(repo, "src/dateutil/easter.py")
    out_path = sys.argv[2] if len(sys.argv) > 2 else os.path.join(here, "coq/gen/EasterGen.v")
    try:
        txt = translate(open(src_path).read())
    except TranslateError as ex:
        print("TRANSLATE-ERROR: %s" % ex)
        sys.exit(2)
    try:
        old = open(out_path).read()
    except OSError:
        old = None
    if old != txt:
        open(out_path, "w").write(txt)
        print("regenerated", out_path)
